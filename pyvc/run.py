"""The check driver:  check <PROP> [--tier quick|thorough]  |  check --replay <file>  |  check --list
exit 0: every obligation owned by / depended on by the property is discharged (known findings listed)
exit 1: VIOLATION property=<id> replay=<path> [no-failing-input-found]
exit 3: ENGINE-ERROR (cannot translate / anchor lost / solver crash) and no concrete witness found"""
import hashlib
import importlib
import json
import multiprocessing as mp
import os
import pkgutil
import subprocess
import sys
import time
import traceback

sys.setrecursionlimit(20000)
VERIF = os.path.dirname(os.path.dirname(os.path.abspath(__file__)))
REPO = os.environ.get("PAMS_REPO", "/repo")
VENV_PY = os.environ.get("PAMS_PYTHON", "/venv/bin/python")

TRUSTED_BASE = [
    "CPython semantics of the Python subset listed in DESIGN.md 2.3 (pyvc's own encoding of it)",
    "pyvc itself (mitigated by canaries, cover checks, seeded-edit self-test, CPython cross-check)",
    "z3 5.1 / cvc5 1.0.3",
    "A-REAL: float arithmetic treated as real arithmetic; A-FINITE: no NaN/inf in inputs",
    "A-STATIC-DISPATCH: methods resolved by the declared class; overrides assumed to refine the base contract",
    "heapq, list.remove/index/in, random.Random, math.floor/ceil/log/exp by the stated library contracts (DESIGN.md App. B)",
    "class-invariant induction step (constructor establishes, every writer preserves, writers census) is the one meta-level step",
]


def load_specs():
    import specs
    for m in sorted(pkgutil.iter_modules(specs.__path__), key=lambda m: m.name):
        importlib.import_module("specs." + m.name)


def run_task_child(tid, conn, workers):
    """build + discharge one task inside a forked child; sends a plain-data result"""
    from pyvc.spec import TASKS
    from pyvc import solve
    from pyvc.core import Unsupported
    t0 = time.time()
    out = {"task": tid, "status": "ok", "results": [], "info": [], "error": None}
    try:
        r = TASKS[tid].build()
        obl = r["obligations"]
        out["info"] = r.get("info", [])
        out["bounded"] = r.get("bounded", [])
        out["t_symex"] = round(time.time() - t0, 2)
        t1 = time.time()
        res = solve.discharge_all(obl, workers=workers)
        for x in res:
            ob = obl[x["idx"]]
            x["expect"] = ob.get("expect", "proved")
            x["group"] = ob.get("group")
            x["hints"] = ob.get("hints")
            x["unfinished"] = ob.get("unfinished")
            x.pop("model_obj_idx", None)
        out["results"] = res
        out["t_solve"] = round(time.time() - t1, 2)
    except Unsupported as e:
        out.update(status="engine-error", error=f"unsupported: {e}")
    except Exception as e:      # noqa
        out.update(status="engine-error", error=f"{type(e).__name__}: {e}\n{traceback.format_exc()[-1500:]}")
    conn.send(out)
    conn.close()


def run_tasks(tids, max_parallel=4):
    """run tasks in forked children: heavy tasks one at a time with most cores, light tasks a few at a time with two workers each"""
    from pyvc.spec import TASKS
    ctx = mp.get_context("fork")
    ncpu = os.cpu_count() or 4
    heavy = [t for t in sorted(tids) if TASKS[t].heavy]
    light = [t for t in sorted(tids) if not TASKS[t].heavy]
    results = {}
    running = []          # (tid, process, conn, is_heavy)

    def start(tid, is_heavy):
        parent, child = ctx.Pipe(duplex=False)
        w = max(2, ncpu - 4) if is_heavy else 2
        p = ctx.Process(target=run_task_child, args=(tid, child, w))
        p.start(); child.close()
        running.append((tid, p, parent, is_heavy))
    while heavy or light or running:
        if heavy and not any(r[3] for r in running):
            start(heavy.pop(0), True)
        while light and len([r for r in running if not r[3]]) < max_parallel:
            start(light.pop(0), False)
        still = []
        for tid, p, conn, ih in running:
            if conn.poll(0.05):
                try:
                    results[tid] = conn.recv()
                except EOFError:
                    results[tid] = {"task": tid, "status": "engine-error", "error": "child died", "results": [], "info": []}
                p.join()
            elif not p.is_alive():
                p.join()
                if tid not in results:
                    results[tid] = {"task": tid, "status": "engine-error", "error": f"child exited with {p.exitcode}", "results": [], "info": []}
            else:
                still.append((tid, p, conn, ih))
        running[:] = still
    return results


# ----------------------------------------------------------------------------- replay
def run_replayer(name, prop, obligation, seed, tier, hints=None, timeout=600):
    """concrete witness search on the real code under the repository's interpreter"""
    cmd = [VENV_PY, os.path.join(VERIF, "replay", "run.py"), name, "--seed", str(seed), "--tier", tier, "--obligation", obligation]
    if hints:
        cmd += ["--hints", json.dumps(hints)]
    env = dict(os.environ); env["PYTHONPATH"] = REPO + os.pathsep + VERIF; env["PAMS_VERIF"] = "1"
    try:
        p = subprocess.run(cmd, capture_output=True, text=True, timeout=timeout, env=env, cwd=VERIF)
        line = [l for l in p.stdout.splitlines() if l.startswith("{")]
        if line:
            return json.loads(line[-1])
        return {"found": False, "error": (p.stderr or p.stdout)[-800:]}
    except subprocess.TimeoutExpired:
        return {"found": False, "error": "replayer timeout"}


def load_known():
    p = os.path.join(VERIF, "known_findings.json")
    if os.path.exists(p):
        return json.load(open(p))
    return {"findings": []}


def finding_matches(f, prop, task, name):
    return f.get("status") == "known" and f["property"] == prop and f["task"] == task and f["obligation"] in name


# ----------------------------------------------------------------------------- main check
def check(prop, tier, seed):
    from pyvc.spec import TASKS
    t_start = time.time()
    load_specs()
    from specs import props as P
    pinfo = P.PROPS[prop]
    tids = [t for t in pinfo["tasks"]]
    missing = [t for t in tids if t not in TASKS]
    if missing:
        print(f"ENGINE-ERROR property={prop} unknown tasks {missing}")
        return 3
    results = run_tasks(tids, max_parallel=int(os.environ.get("PYVC_TASKS_PARALLEL", "4")))
    known = load_known()
    os.makedirs(os.path.join(VERIF, "evidence"), exist_ok=True)
    os.makedirs(os.path.join(VERIF, "replays", prop), exist_ok=True)
    n_obl = n_dis = 0
    backends = {}
    solver_time = 0.0
    failures = []          # (task, result)
    engine_errors = []
    functions = []
    assumptions = set(pinfo.get("assumptions", []))
    samples = []
    canaries = {"expected_to_fail": 0, "failed_as_expected": 0}
    vacuity_errors = []
    unfinished = []
    for tid in tids:
        r = results[tid]
        if r["status"] != "ok":
            engine_errors.append((tid, r["error"]))
            continue
        for i in r["info"]:
            functions.append({k: i.get(k) for k in ("function", "source_sha", "where", "paths")})
            for a in i.get("assumptions", []):
                assumptions.add(a)
        real = [x for x in r["results"] if x["expect"] != "fail"]
        if not real:
            vacuity_errors.append(f"task {tid} generated zero obligations")
        groups = {}
        for x in r["results"]:
            if x["expect"] == "fail" and x.get("group"):
                groups.setdefault(x["group"], []).append(x["verdict"] != "proved")
        for g, oks in groups.items():
            canaries["expected_to_fail"] += 1
            if any(oks):
                canaries["failed_as_expected"] += 1
            else:
                vacuity_errors.append(f"cover group `{g}` of task {tid}: every one of its {len(oks)} paths has contradictory hypotheses")
        for x in r["results"]:
            solver_time += x["time"]
            if x["expect"] == "fail":
                if x.get("group"):
                    continue
                canaries["expected_to_fail"] += 1
                if x["verdict"] == "proved":
                    vacuity_errors.append(f"canary `{x['name']}` of task {tid} was proved: hypotheses are contradictory")
                else:
                    canaries["failed_as_expected"] += 1
                continue
            if x.get("unfinished") and x["verdict"] != "proved":
                # a proof that was never completed on a correct tree is not a violation: the clause is reported as not decided and not counted
                unfinished.append({"obligation": f"{prop}/{x['name']}", "reason": x["unfinished"], "verdict": x["verdict"]})
                continue
            n_obl += 1
            if x["verdict"] == "proved":
                n_dis += 1
                backends[x["backend"]] = backends.get(x["backend"], 0) + 1
                if len(samples) < 12 and (n_dis % max(1, 7) == 1):
                    samples.append({"obligation": f"{prop}/{x['name']}", "kind": x["kind"], "verdict": "discharged", "backend": x["backend"], "solver_s": x["time"]})
            else:
                failures.append((tid, x))
    violations = []
    known_lines = []
    known_obls = []
    exit_code = 0
    # ---- bounded stand-ins and run-time contract monitors (never counted as discharged)
    bounded = []
    for b in pinfo.get("bounded", []):
        if tier == "quick" and b.get("thorough_only"):
            continue
        rr = run_replayer(b["replayer"], prop, "bounded:" + b["name"], seed, tier, timeout=b.get("timeout", 900))
        entry = {"name": b["name"], "bound": b["bound"], "cases": rr.get("cases"), "label": "bounded (not counted as proved)", "clean": not rr.get("found", False)}
        if rr.get("error"):
            entry["error"] = rr["error"]
            engine_errors.append((b["name"], "bounded stand-in crashed: " + rr["error"][-300:]))
        bounded.append(entry)
        if rr.get("found"):
            failures.append((b["name"], {"name": "bounded:" + b["name"], "verdict": "failed", "backend": "bounded-enumeration", "model": None,
                                         "reason": "bounded stand-in found a failing input", "time": 0, "kind": "bounded", "witness": rr}))
    # ---- thorough tier: run-time contract exploration with every witness-search module of the property's tasks, and the seeded-edit self-test
    exploration = []
    selftest_res = []
    if tier == "thorough":
        reps = []
        for tid in tids:
            rp = TASKS[tid].replay
            if rp and rp not in reps and os.path.exists(os.path.join(VERIF, "replay", rp + ".py")):
                reps.append(rp)
        for rp in reps:
            rr = run_replayer(rp, prop, "", seed, "thorough", timeout=3000)
            exploration.append({"replayer": rp, "cases": rr.get("cases"), "contract_evaluations": rr.get("contract_evaluations"), "clean": not rr.get("found", False), "error": rr.get("error")})
            if rr.get("found"):
                failures.append((rp, {"name": "run-time contract:" + str((rr.get("observed") or {}).get("clause"))[:160], "verdict": "failed", "backend": "run-time contract on the real code",
                                      "model": None, "reason": "a contract clause evaluated false on a concrete execution", "time": 0, "kind": "runtime", "witness": rr}))
        selftest_res = selftest(prop, seed)
        for e in selftest_res:
            if e.get("applied") and not e.get("caught"):
                engine_errors.append(("selftest", f"seeded edit not detected: {e['file']}: {e['edit']}"))
    # ---- failures: witness search + replay
    seen = set()
    pin_undecided = []
    for tid, x in failures:
        key = (tid, x["name"])
        if key in seen:
            continue
        seen.add(key)
        is_known = [f for f in known["findings"] if finding_matches(f, prop, tid, x["name"])]
        w = x.get("witness")
        if w is None:
            rp = TASKS[tid].replay if tid in TASKS else None
            if rp:
                w = run_replayer(rp, prop, x["name"], seed, tier, hints=x.get("hints"))
            else:
                w = {"found": False, "error": "no replayer registered for this task"}
        if is_known:
            f = is_known[0]
            # a known finding suppresses only the recorded witness: the replayed failing input must be the recorded one,
            # and the obligation must be discharged once the recorded region is excluded
            if w.get("found") and f.get("witness_key") and w.get("witness_key") == f["witness_key"] and x.get("proved_outside_region"):
                known_lines.append(f"KNOWN-FINDING: property={prop} {f['what']}")
                known_obls.append({"obligation": x["name"], "discharged_outside_region": True, "region": f.get("region"), "witness": w.get("input")})
                continue
        if x.get("kind") == "pin" and not w.get("found"):
            # the text of a function that an ASSUMED contract / bounded stand-in was written for has changed: the assumption no longer
            # applies, which decides nothing about the property -- reported as undecided (exit 3), never as a violation, unless the
            # concrete search above found a failing input on the real code
            pin_undecided.append((tid, f"undecided: {x['name']} (source text changed: {(x.get('hints') or {}).get('actual')} != {(x.get('hints') or {}).get('expected')}); no failing input found by the concrete search"))
            continue
        safe = hashlib.sha1(x["name"].encode()).hexdigest()[:10]
        path = os.path.join("replays", prop, f"{_safe_name(tid)}-{safe}.json")
        rec = {"property": prop, "task": tid, "obligation": x["name"], "verdict": x["verdict"], "solver": {"backend": x["backend"], "reason": x.get("reason"),
               "model": x.get("model")}, "witness": w, "repo": REPO}
        json.dump(rec, open(os.path.join(VERIF, path), "w"), indent=1, default=str)
        tail = "" if w.get("found") else " no-failing-input-found"
        violations.append(f"VIOLATION property={prop} replay={os.path.join(VERIF, path)}{tail}")
        exit_code = 1
    if engine_errors or vacuity_errors:
        # an untranslatable function: try the concrete witness search of the task before giving up
        for tid, err in engine_errors:
            rp = TASKS[tid].replay if tid in TASKS else None
            if rp:
                w = run_replayer(rp, prop, "engine-error", seed, tier)
                if w.get("found"):
                    path = os.path.join("replays", prop, f"{_safe_name(tid)}-engine-error.json")
                    json.dump({"property": prop, "task": tid, "obligation": "(engine could not translate: " + err[:200] + ")", "witness": w},
                              open(os.path.join(VERIF, path), "w"), indent=1, default=str)
                    violations.append(f"VIOLATION property={prop} replay={os.path.join(VERIF, path)}")
                    exit_code = 1
        if exit_code == 0:
            exit_code = 3
    if pin_undecided and exit_code == 0:
        exit_code = 3
    wall = round(time.time() - t_start, 2)
    level = pinfo["level"]
    # an obligation carried as a known finding is not counted among the obligations claimed as proved: it is listed separately,
    # discharged only outside the recorded failing region
    n_obl -= len(known_obls)
    cov = {
        "obligations": n_obl, "discharged": n_dis,
        "known_finding_obligations": known_obls,
        "checker_cmd": f"./check {prop} --tier {tier}",
        "trusted_base": TRUSTED_BASE,
        "backends": backends, "solver_time_s": round(solver_time, 2),
        "functions_under_contract": functions,
        "tasks": {tid: {"status": results[tid]["status"], "obligations": len([x for x in results[tid]["results"] if x["expect"] != "fail"]),
                        "t_symex_s": results[tid].get("t_symex"), "t_solve_s": results[tid].get("t_solve"), "error": results[tid].get("error")} for tid in tids},
        "samples": samples or [{"note": "no obligation discharged"}],
        "canaries": canaries,
        "bounded_standins": bounded,
        "thorough_exploration": exploration,
        "seeded_edit_selftest": selftest_res,
        "not_decided": pinfo.get("not_decided", []) + [u["obligation"] + " (unfinished proof: " + u["reason"] + ")" for u in unfinished],
        "unfinished_proofs": unfinished,
        "known_findings_seen": known_lines,
        "explanation": pinfo.get("explanation", ""),
        "evaluations": n_obl, "distinct_nontrivial": len({x["name"] for tid in tids for x in results[tid]["results"] if x["expect"] != "fail"}),
        "rule": "one evaluation = one proof obligation generated from the current source; distinct = distinct obligation labels",
        "repo": REPO,
    }
    ev = {"property_id": prop, "tier": tier, "seed": seed, "level": level, "coverage": cov, "assumptions": sorted(assumptions),
          "wall_s": wall, "violations": len(violations)}
    # evidence/ describes /repo itself; a run pointed at another tree (PAMS_REPO=<scratch>) leaves its report under replays/
    ev_dir = os.path.join(VERIF, "evidence") if os.path.realpath(REPO) == "/repo" else os.path.join(VERIF, "replays", "_other_tree_evidence")
    os.makedirs(ev_dir, exist_ok=True)
    json.dump(ev, open(os.path.join(ev_dir, f"{prop}.json"), "w"), indent=1, default=str)
    for l in known_lines:
        print(l)
    for tid, err in engine_errors:
        print(f"ENGINE-ERROR property={prop} task={tid}: {err.splitlines()[0][:300]}")
    for v in vacuity_errors:
        print(f"ENGINE-ERROR property={prop} vacuity: {v}")
    for tid, msg in pin_undecided:
        print(f"ENGINE-ERROR property={prop} task={tid}: {msg}")
    for v in violations:
        print(v)
    print(f"# {prop} tier={tier}: {n_dis}/{n_obl} obligations discharged over {len(tids)} tasks, {len(functions)} functions under contract, "
          f"canaries {canaries['failed_as_expected']}/{canaries['expected_to_fail']}, bounded stand-ins {len(bounded)}, wall {wall}s, exit {exit_code}")
    return exit_code


def _safe_name(tid):
    """file name for a replay record: no blanks or shell metacharacters (the VIOLATION line is `... replay=<path>` and must stay one token)"""
    import re
    return re.sub(r"[^A-Za-z0-9_.+-]", "_", tid)[:120]


def run_tasks_only(tids, out_path):
    """helper mode for the seeded-edit self-test: run the given tasks on $PAMS_REPO and dump verdict counts"""
    load_specs()
    res = run_tasks(tids, max_parallel=3)
    summary = {}
    for tid, r in res.items():
        bad = [x["name"] for x in r.get("results", []) if x["expect"] != "fail" and x["verdict"] != "proved" and not x.get("unfinished")]
        summary[tid] = {"status": r["status"], "error": (r.get("error") or "")[:300], "not_discharged": bad[:20], "n": len(r.get("results", []))}
    json.dump(summary, open(out_path, "w"))
    return 0


def selftest(prop, seed):
    """apply each deliberate edit of specs/selftest.py to a scratch copy outside /repo and /verif; the named tasks must turn red there"""
    import shutil, tempfile
    from specs import selftest as ST
    out = []
    for rel, old, new, tids in ST.EDITS.get(prop, []):
        d = tempfile.mkdtemp(prefix="pyvc_selftest_")
        entry = {"file": rel, "edit": (old[:50] + " -> " + new[:50]).replace("\n", " "), "tasks": tids}
        try:
            shutil.copytree(os.path.join(REPO, "pams"), os.path.join(d, "pams"))
            fp = os.path.join(d, rel)
            txt = open(fp).read()
            if old not in txt:
                entry.update(applied=False, caught=None, note="edit anchor not found in the current source (skipped)")
                out.append(entry); continue
            open(fp, "w").write(txt.replace(old, new, 1))
            env = dict(os.environ); env["PAMS_REPO"] = d; env["PYVC_RLIMIT1"] = "4000000"; env["PYVC_RLIMIT2"] = "4000000"; env["PYVC_CVC5_S"] = "5"
            res_path = os.path.join(d, "result.json")
            p = subprocess.run([sys.executable, "-m", "pyvc.run", "--run-tasks", ";;".join(tids), res_path], env=env, cwd=VERIF, capture_output=True, text=True, timeout=3600)
            summ = json.load(open(res_path)) if os.path.exists(res_path) else {}
            if set(summ) != set(tids):
                entry.update(applied=True, caught=False, note="self-test run did not complete: " + (p.stderr or "")[-300:].replace("\n", " / "))
                out.append(entry); continue
            caught = any(v["status"] != "ok" or v["not_discharged"] for v in summ.values())
            entry.update(applied=True, caught=caught, failing=[n for v in summ.values() for n in v["not_discharged"]][:4], engine_refused=[v["error"][:120] for v in summ.values() if v["status"] != "ok"])
        finally:
            shutil.rmtree(d, ignore_errors=True)
        out.append(entry)
    return out


def main(argv):
    if len(argv) >= 3 and argv[0] == "--run-tasks":
        return run_tasks_only(argv[1].split(";;"), argv[2])
    if len(argv) >= 2 and argv[0] == "--replay":
        rec = json.load(open(argv[1]))
        w = rec.get("witness") or {}
        if not w.get("found"):
            print("replay file carries no concrete input (no-failing-input-found); obligation:", rec.get("obligation"))
            print(json.dumps(rec.get("solver"), indent=1)[:2000])
            return 1
        cmd = [VENV_PY, os.path.join(VERIF, "replay", "run.py"), w["replayer"], "--replay-input", json.dumps(w["input"])]
        env = dict(os.environ); env["PYTHONPATH"] = REPO + os.pathsep + VERIF
        p = subprocess.run(cmd, env=env, cwd=VERIF)
        return p.returncode
    if argv and argv[0] == "--list":
        load_specs()
        from specs import props as P
        for k, v in P.PROPS.items():
            print(k, v["tasks"])
        return 0
    prop = argv[0]
    tier = os.environ.get("VERIF_TIER", "quick")
    if "--tier" in argv:
        tier = argv[argv.index("--tier") + 1]
    seed = int(os.environ.get("VERIF_SEED", "0"))
    return check(prop, tier, seed)


if __name__ == "__main__":
    sys.exit(main(sys.argv[1:]))
