import z3


def purify(fmls):
    """Abstract scalar-sorted array reads and uninterpreted-function applications by fresh constants
    (syntactically equal terms share a constant). Quantified formulas are left untouched. Sound for `unsat`.
    z3 ast ids are reused after garbage collection, so every term whose id is cached is kept alive for the whole call."""
    cache = {}
    keep = []
    _q = {}
    _g = {}

    def has_quant(e):
        i = e.get_id()
        if i not in _q:
            keep.append(e)
            _q[i] = z3.is_quantifier(e) or any(has_quant(c) for c in e.children())
        return _q[i]

    def ground(e):
        i = e.get_id()
        if i not in _g:
            keep.append(e)
            _g[i] = (not z3.is_var(e)) and all(ground(c) for c in e.children())
        return _g[i]

    def rec(e):
        if z3.is_quantifier(e) or not z3.is_app(e) or z3.is_const(e):
            return e
        if has_quant(e):
            return e
        k = e.decl().kind()
        scalar = e.sort().kind() != z3.Z3_ARRAY_SORT
        if k in (z3.Z3_OP_SELECT, z3.Z3_OP_UNINTERPRETED) and scalar and ground(e):
            key = e.get_id()
            if key not in cache:
                keep.append(e)
                cache[key] = z3.FreshConst(e.sort(), "pur")
            return cache[key]
        args = [rec(a) for a in e.children()]
        try:
            return e.decl()(*args)
        except Exception:
            return e
    out = []
    for f in fmls:
        sf = z3.simplify(f)
        keep.append(sf)
        r = rec(sf)
        out.append(r if z3.is_bool(r) else f)
    return out
