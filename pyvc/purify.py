import z3
def purify(fmls):
    """Abstract scalar-sorted array reads and uninterpreted-function applications by fresh constants
    (syntactically equal terms share a constant). Quantified formulas are left untouched. Sound for `unsat`."""
    cache = {}
    def rec(e):
        if z3.is_quantifier(e) or not z3.is_app(e) or z3.is_const(e): return e
        if has_quant(e): return e
        k = e.decl().kind()
        scalar = e.sort().kind() != z3.Z3_ARRAY_SORT
        if k in (z3.Z3_OP_SELECT, z3.Z3_OP_UNINTERPRETED) and scalar and ground(e):
            key = e.get_id()
            if key not in cache: cache[key] = z3.FreshConst(e.sort(), "pur")
            return cache[key]
        args = [rec(a) for a in e.children()]
        try: return e.decl()(*args)
        except Exception: return e
    _q = {}
    def has_quant(e):
        i = e.get_id()
        if i not in _q:
            _q[i] = z3.is_quantifier(e) or any(has_quant(c) for c in e.children())
        return _q[i]
    _g = {}
    def ground(e):
        i = e.get_id()
        if i not in _g:
            _g[i] = (not z3.is_var(e)) and all(ground(c) for c in e.children())
        return _g[i]
    return [rec(z3.simplify(f)) for f in fmls]
