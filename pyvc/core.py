"""Values, sorts and the symbolic state (environment + Boogie-style heap of per-(class,field) maps + collection views)."""
import itertools
import z3

from .src import get_src

REF = z3.IntSort()
DYN = z3.DeclareSort("Dyn")           # opaque JSON value; tag predicates and projections below
dyn_is_int = z3.Function("dyn_is_int", DYN, z3.BoolSort()); dyn_int = z3.Function("dyn_int", DYN, z3.IntSort())
dyn_is_real = z3.Function("dyn_is_real", DYN, z3.BoolSort()); dyn_real = z3.Function("dyn_real", DYN, z3.RealSort())
dyn_is_bool = z3.Function("dyn_is_bool", DYN, z3.BoolSort()); dyn_bool = z3.Function("dyn_bool", DYN, z3.BoolSort())
dyn_is_str = z3.Function("dyn_is_str", DYN, z3.BoolSort()); dyn_str = z3.Function("dyn_str", DYN, z3.StringSort())
dyn_is_dict = z3.Function("dyn_is_dict", DYN, z3.BoolSort()); dyn_ref = z3.Function("dyn_ref", DYN, REF)
dyn_is_list = z3.Function("dyn_is_list", DYN, z3.BoolSort())
dyn_is_none = z3.Function("dyn_is_none", DYN, z3.BoolSort())
RDIV = z3.Function("rdiv", z3.RealSort(), z3.RealSort(), z3.RealSort())
FLOOR = z3.Function("floor", z3.RealSort(), z3.IntSort())
CEIL = z3.Function("ceil", z3.RealSort(), z3.IntSort())
LOG = z3.Function("log", z3.RealSort(), z3.RealSort())
EXP = z3.Function("exp", z3.RealSort(), z3.RealSort())
STR_OF_INT = z3.Function("str_of_int", z3.IntSort(), z3.StringSort())
SUM_REAL = z3.Function("sum_real", z3.ArraySort(z3.IntSort(), z3.RealSort()), z3.IntSort(), z3.RealSort())     # sum of the first k elements
SUM_INT = z3.Function("sum_int", z3.ArraySort(z3.IntSort(), z3.IntSort()), z3.IntSort(), z3.IntSort())


def sum_axioms(arr, fn=None):
    """defining equations of the canonical prefix-sum fold for one element array"""
    if fn is None:
        fn = SUM_REAL if arr.sort().range() == z3.RealSort() else SUM_INT
    k = z3.Int(fresh_name("k_sum"))
    return [fn(arr, 0) == 0, z3.ForAll([k], z3.Implies(k >= 0, fn(arr, k + 1) == fn(arr, k) + z3.Select(arr, k)))]


INF = z3.Const("INF", z3.RealSort())       # float('inf') under A-FINITE
CLASS_OF = z3.Function("class_of", z3.IntSort(), z3.IntSort())     # dynamic class of a reference
# dynamic class membership: one predicate per class name
_isinst = {}


def is_instance(cls, ref):
    if cls not in _isinst:
        _isinst[cls] = z3.Function("is_" + cls, REF, z3.BoolSort())
    return _isinst[cls](ref)


OptInt = z3.Datatype("OptInt")
OptInt.declare("onone")
OptInt.declare("osome", ("oval", z3.IntSort()))
OptInt = OptInt.create()

KIND = {"MARKET_ORDER": 0, "LIMIT_ORDER": 1}

_fresh = itertools.count()


def fresh_name(hint="v"):
    return f"{hint}!{next(_fresh)}"


class Unsupported(Exception):
    pass


class V:
    """a symbolic Python value: static type tuple, z3 term, None-flag for Optional, python payload for tuples/closures"""
    __slots__ = ("ty", "term", "none", "py")

    def __init__(self, ty, term=None, none=None, py=None):
        self.ty, self.term, self.none, self.py = ty, term, none, py

    def __repr__(self):
        return f"V({self.ty},{self.term},{self.none},{self.py})"


NONE = V(("none",))


def sort_of(ty):
    k = ty[0]
    if k in ("int", "ref", "list", "dict", "kind", "class", "set"):
        return z3.IntSort()
    if k == "real":
        return z3.RealSort()
    if k == "bool":
        return z3.BoolSort()
    if k == "str":
        return z3.StringSort()
    if k == "opt":
        return sort_of(ty[1])
    if k == "dyn":
        return DYN
    if k == "optint":
        return OptInt
    raise Unsupported(f"no sort for type {ty}")


def kind_name(ty):
    """name of the heap map family for element/key/value type `ty`: reference-like types get their own maps (never aliased with ints)"""
    t = strip_opt_(ty)
    if t[0] in ("ref", "list", "dict", "set", "class"):
        return "Ref"
    if t[0] == "tuple":
        return "Tup"
    n = str(sort_of(t))
    KIND_SORTS.setdefault(n, sort_of(t))
    return n


KIND_SORTS = {}


def strip_opt_(ty):
    return ty[1] if ty[0] == "opt" else ty


def fresh(ty, hint="v"):
    n = fresh_name(hint)
    if ty[0] == "opt":
        return V(ty, z3.Const(n, sort_of(ty)), none=z3.Bool(n + "?"))
    return V(ty, z3.Const(n, sort_of(ty)))


def mkint(i):
    return V(("int",), z3.IntVal(i) if isinstance(i, int) else i)


def mkbool(b):
    return V(("bool",), z3.BoolVal(b) if isinstance(b, bool) else b)


def mkreal(r):
    return V(("real",), r)


def to_real(v):
    k = v.ty[1][0] if v.ty[0] == "opt" else v.ty[0]
    if k == "real":
        return v.term
    if k == "int":
        return z3.ToReal(v.term)
    if k == "bool":
        return z3.If(v.term, z3.RealVal(1), z3.RealVal(0))
    if k == "dyn":
        return z3.If(dyn_is_int(v.term), z3.ToReal(dyn_int(v.term)), dyn_real(v.term))
    raise Unsupported(f"to_real of {v.ty}")


def to_int(v):
    k = v.ty[1][0] if v.ty[0] == "opt" else v.ty[0]
    if k == "int":
        return v.term
    if k == "bool":
        return z3.If(v.term, z3.IntVal(1), z3.IntVal(0))
    if k == "dyn":
        return dyn_int(v.term)
    raise Unsupported(f"to_int of {v.ty}")


def truth(v, st=None):
    k = v.ty[0]
    if k == "bool":
        return v.term
    if k == "int":
        return v.term != 0
    if k == "real":
        return v.term != 0
    if k == "none":
        return z3.BoolVal(False)
    if k == "opt":
        inner = v.ty[1][0]
        if inner in ("ref", "list", "dict", "str"):      # objects are truthy unless list/dict/str (emptiness) -- only refs allowed here
            if inner == "ref":
                # `if x:` on an Optional object is NOT `x is not None`: the class (or a user subclass - loggers, agents, markets and events are meant to be subclassed) may
                # define __bool__ / __len__ (OrderBook does).  pams itself always tests `is None`; an edit that does not leaves the verified subset.
                raise Unsupported(f"truth value of an optional object of class {v.ty[1][1]} (objects may define __bool__/__len__; test `is None`)")
        if inner == "bool":
            return z3.And(z3.Not(v.none), v.term)
        if inner in ("int", "real"):
            return z3.And(z3.Not(v.none), v.term != 0)
        raise Unsupported(f"truth of {v.ty}")
    if k == "list" and st is not None:
        n = st.length(v.term, v.ty[1])
        st.assume(n >= 0)          # a fact about every real list (view axiom)
        if strip_opt(v.ty[1])[0] == "ref":
            st.assume_link(v.term)      # same view axiom as `len(xs)` brings: empty <=> no member (duplicate-free reference lists)
        return n != 0              # `not xs` is then literally `len(xs) == 0`, the form the rest of the code (and the list axioms) use
    if k == "dyn":
        # truthiness of a JSON value: bools only (other tags unsupported -> obligation elsewhere)
        return dyn_bool(v.term)
    raise Unsupported(f"truth of {v.ty}")


def coerce(val, ty):
    """z3 term of `val` converted to the sort of static type `ty` (value part only)"""
    if ty[0] == "optint":
        if val.ty[0] == "optint":
            return val.term
        if val.ty[0] == "none":
            return OptInt.onone
        if val.ty[0] == "opt":
            return z3.If(val.none, OptInt.onone, OptInt.osome(val.term))
        return OptInt.osome(val.term)
    if val.ty[0] == "opt":
        val = V(val.ty[1], val.term)
    if ty[0] == "opt":
        return coerce(val, ty[1])
    if val.ty[0] == "dyn" and ty[0] != "dyn":
        if ty[0] == "int":
            return dyn_int(val.term)
        if ty[0] == "bool":
            return dyn_bool(val.term)
        if ty[0] == "real":
            return z3.If(dyn_is_int(val.term), z3.ToReal(dyn_int(val.term)), dyn_real(val.term))
        if ty[0] == "str":
            return dyn_str(val.term)
        if ty[0] in ("dict", "list", "ref"):
            return dyn_ref(val.term)
        raise Unsupported(f"dyn -> {ty}")
    if ty[0] == "dyn" and val.ty[0] != "dyn":
        return to_dyn(val)
    if ty[0] == "real":
        return to_real(val)
    if ty[0] == "int" and val.ty[0] == "bool":
        return z3.If(val.term, 1, 0)
    if ty[0] == "optint":
        if val.ty[0] == "optint":
            return val.term
        if val.ty[0] == "none":
            return OptInt.onone
        return OptInt.osome(val.term)
    return val.term


_todyn = {}


def to_dyn(val):
    """inject a typed value into Dyn through an uninterpreted injection whose projection is the identity (axiom supplied at use)"""
    k = val.ty[0]
    key = k
    if key not in _todyn:
        _todyn[key] = z3.Function("dyn_of_" + k, sort_of(val.ty), DYN)
    return _todyn[key](val.term)


def dyn_inj_axioms(val):
    """facts about dyn_of_k(term): tag and projection"""
    d = to_dyn(val); k = val.ty[0]
    if k == "int":
        return [dyn_is_int(d), dyn_int(d) == val.term, z3.Not(dyn_is_bool(d)), z3.Not(dyn_is_real(d)), z3.Not(dyn_is_str(d))]
    if k == "real":
        return [dyn_is_real(d), dyn_real(d) == val.term, z3.Not(dyn_is_bool(d)), z3.Not(dyn_is_int(d)), z3.Not(dyn_is_str(d))]
    if k == "bool":
        return [dyn_is_bool(d), dyn_bool(d) == val.term]
    if k == "str":
        return [dyn_is_str(d), dyn_str(d) == val.term, z3.Not(dyn_is_int(d)), z3.Not(dyn_is_real(d)), z3.Not(dyn_is_bool(d))]
    if k in ("dict", "list", "ref"):
        return [dyn_ref(d) == val.term]
    return []


def strip_opt(ty):
    return ty[1] if ty[0] == "opt" else ty


# ----------------------------------------------------------------------------- field sort hints
FIELD_OVERRIDE = {  # hints where the source has no usable annotation (checked by the engine only as sort hints)
    ("Market", "chunk_size"): ("int",),
    ("Market", "_executed_total_prices"): ("list", ("real",)),
    ("Market", "simulator"): ("ref", "Simulator"),
    ("Market", "_prng"): ("ref", "Random"),
    ("Agent", "cash_amount"): ("real",),
    ("Agent", "simulator"): ("ref", "Simulator"),
    ("Order", "kind"): ("kind",),
    ("EventABC", "simulator"): ("ref", "Simulator"),
    ("EventABC", "session"): ("ref", "Session"),
    ("EventHook", "event"): ("ref", "EventABC"),
    ("EventHook", "hook_type"): ("str",),
    ("EventHook", "is_before"): ("bool",),
    ("EventHook", "time"): ("opt", ("list", ("int",))),
    ("Simulator", "current_session"): ("opt", ("ref", "Session")),
    ("Simulator", "fundamentals"): ("ref", "Fundamentals"),
    ("Simulator", "_prng"): ("ref", "Random"),
    ("Simulator", "events_dict"): ("dict", ("str",), ("dict", ("optint",), ("list", ("ref", "EventHook")))),
    ("OrderMistakeShock", "target_market"): ("ref", "Market"),
    ("FundamentalPriceShock", "target_market"): ("ref", "Market"),
    ("FundamentalPriceShock", "target_market_name"): ("str",),
    ("Runner", "simulator"): ("ref", "Simulator"),
    ("Runner", "logger"): ("opt", ("ref", "Logger")),
    ("Runner", "_prng"): ("ref", "Random"),
    ("Runner", "settings"): ("dict", ("str",), ("dyn",)),
    ("Runner", "registered_classes"): ("list", ("class",)),
    ("Session", "simulator"): ("ref", "Simulator"),
    ("Session", "max_normal_orders"): ("real",),           # assigned from unvalidated JSON: a number, not necessarily the annotated int
    ("Session", "max_high_frequency_orders"): ("real",),
    ("Cancel", "order"): ("ref", "Order"),
    ("OrderBook", "is_buy"): ("bool",),
    ("Log", "logger"): ("opt", ("ref", "Logger")),
    ("ExecutionLog", "price"): ("real",),
    ("Fundamentals", "_generate_chunk_size"): ("int",),
    ("Fundamentals", "_prng"): ("ref", "Random"),
    ("JsonRandom", "_prng"): ("ref", "Random"),
}


def field_owner(cls, field):
    src = get_src()
    own = None
    for c in src.mro(cls):
        if (c, field) in FIELD_OVERRIDE or src.field_type_local(c, field) is not None:
            own = c
    if own is None:
        raise Unsupported(f"no sort hint for {cls}.{field}")
    return own


def field_type(cls, field):
    src = get_src()
    for c in src.mro(cls):
        if (c, field) in FIELD_OVERRIDE:
            return FIELD_OVERRIDE[(c, field)]
    for c in src.mro(cls):
        t = src.field_type_local(c, field)
        if t is not None:
            return t
    raise Unsupported(f"no sort hint for {cls}.{field}")


WF_FACTS = {}      # per task: entry-heap allocation facts (see State.assume_alloc); keeps the terms alive, so ids are stable


# ----------------------------------------------------------------------------- state
class State:
    """env: local name -> V ; heap: key -> z3 array (absent key = initial, canonical constant) ; pc: path condition ;
    obl: shared list of obligations ; trace: ghost event trace (python list of tuples of z3 terms)"""

    def __init__(self, env=None, heap=None, pc=None, obl=None, trace=None, ghost=None, quiet=False):
        self.env = env if env is not None else {}
        self.heap = heap if heap is not None else {}
        self.pc = pc if pc is not None else []
        self.obl = obl if obl is not None else []
        self.trace = trace if trace is not None else []
        self.ghost = ghost if ghost is not None else {}     # python-level ghost variables (per path)
        self.quiet = quiet                                 # spec evaluation: reads generate no obligations
        self.labels = []                                   # context labels (e.g. which loop / phase) for obligation names
        self.branches = []                                 # path conditions that come from control flow (as opposed to assumed facts)

    def copy(self):
        s = State(dict(self.env), dict(self.heap), list(self.pc), self.obl, list(self.trace), dict(self.ghost), self.quiet)
        s.labels = list(self.labels)
        s.branches = list(self.branches)
        return s

    def peek_env(self):
        """like peek(), keeping the local environment (for invariants that mention locals)"""
        return self.peek()

    def peek(self):
        """copy for evaluating specification expressions: no obligations are generated"""
        s = self.copy(); s.quiet = True; s.obl = []
        return s

    # ---- obligations / assumptions
    def oblige(self, name, goal, kind="check"):
        if self.quiet:
            return
        ctx = "/".join(self.labels)
        if isinstance(goal, bool):
            goal = z3.BoolVal(goal)
        self.obl.append({"name": (ctx + "/" if ctx else "") + name, "pc": list(self.pc), "goal": goal, "kind": kind})

    def assume(self, c):
        if isinstance(c, bool):
            c = z3.BoolVal(c)
        self.pc.append(c)

    def assume_branch(self, c):
        if isinstance(c, bool):
            c = z3.BoolVal(c)
        self.pc.append(c)
        self.branches.append(c)

    # ---- heap arrays
    def harr(self, key, sort_fn):
        if key not in self.heap:
            self.heap[key] = z3.Const("H0_" + key, sort_fn())
        return self.heap[key]

    def farr(self, cls, field, part="val"):
        """the map of field `cls.field` (declaring class resolved)"""
        ty = field_type(cls, field)
        own = field_owner(cls, field)
        key = f"f:{own}.{field}" + ("?" if part == "none" else "")
        srt = z3.BoolSort() if part == "none" else sort_of(ty)
        return key, self.harr(key, lambda: z3.ArraySort(REF, srt))

    def F(self, cls, field, part="val"):
        return self.farr(cls, field, part)[1]

    def read(self, obj, field):
        cls = obj.ty[1]
        ty = field_type(cls, field)
        k, a = self.farr(cls, field)
        if ty[0] == "opt":
            kn, an = self.farr(cls, field, "none")
            v = V(ty, z3.Select(a, obj.term), none=z3.Select(an, obj.term))
        else:
            v = V(ty, z3.Select(a, obj.term))
        return v

    def write(self, obj, field, val):
        cls = obj.ty[1]
        ty = field_type(cls, field)
        k, a = self.farr(cls, field)
        if ty[0] == "opt":
            kn, an = self.farr(cls, field, "none")
            if val.ty[0] == "none":
                self.heap[kn] = z3.Store(an, obj.term, z3.BoolVal(True))
            elif val.ty[0] == "opt":
                self.heap[kn] = z3.Store(an, obj.term, val.none)
                self.heap[k] = z3.Store(a, obj.term, coerce(val, ty[1]))
            else:
                self.heap[kn] = z3.Store(an, obj.term, z3.BoolVal(False))
                self.heap[k] = z3.Store(a, obj.term, coerce(val, ty[1]))
        else:
            if val.ty[0] == "none":
                raise Unsupported(f"None stored into non-optional field {cls}.{field}")
            if val.ty[0] == "opt":
                self.oblige(f"store-not-None:{cls}.{field}", z3.Not(val.none), "implicit")
            self.heap[k] = z3.Store(a, obj.term, coerce(val, ty))

    # ---- allocation
    def alloc_arr(self):
        return self.harr("alloc", lambda: z3.ArraySort(REF, z3.BoolSort()))

    def is_alloc(self, ref):
        return z3.Select(self.alloc_arr(), ref)

    def new_ref(self, hint="obj"):
        r = z3.Const(fresh_name(hint), REF)
        a = self.alloc_arr()
        self.assume(z3.Not(z3.Select(a, r)))
        fr = self.ghost.get("@fresh", ())
        if fr:
            self.assume(z3.And(*[r != x for x in fr]))       # derivable from the allocation map; stated outright to keep queries easy
        self.ghost["@fresh"] = tuple(fr) + (r,)
        self.heap["alloc"] = z3.Store(a, r, z3.BoolVal(True))
        return r

    def assume_alloc(self, v, source=None):
        """well-formed-heap axiom instance: every reference read from the heap / passed in is allocated.
        A value read from a heap map that is still the entry map (constant H0_*) was already allocated at entry."""
        ty = strip_opt(v.ty)
        if ty[0] in ("ref", "list", "dict", "set") and v.term is not None:
            if source is not None and z3.is_const(source) and source.decl().name().startswith("H0_"):
                c = z3.Select(z3.Const("H0_alloc", z3.ArraySort(REF, z3.BoolSort())), v.term)
            else:
                c = self.is_alloc(v.term)
            if v.ty[0] == "opt" and v.none is not None:
                c = z3.Or(v.none, c)
            self.assume(c)
            if self.quiet and source is not None and z3.is_const(source) and source.decl().name().startswith("H0_"):
                # an instance of the closed-heap axiom about the ENTRY heap, found while a specification was being evaluated on a scratch
                # copy: it does not depend on the path, so it is recorded for the whole task (added to every obligation's hypotheses);
                # without it the frame condition `allocated before the call => unchanged` would not apply to the objects a contract names
                k = c.get_id()
                if k not in WF_FACTS:
                    WF_FACTS[k] = c

    # ---- lists (views: len, elem, and for duplicate-free reference lists mem / heapok)
    def len_key(self, ety=None):
        """lists of reference-like elements and lists of numbers have separate length maps (a list object has one element kind)"""
        k = "Ref" if ety is None else kind_name(ety)
        return "len" if k == "Ref" else "len:" + k

    def len_arr(self, ety=None):
        return self.harr(self.len_key(ety), lambda: z3.ArraySort(REF, z3.IntSort()))

    def length(self, lst, ety=None):
        return z3.Select(self.len_arr(ety), lst)

    def set_len(self, lst, n, ety=None):
        self.heap[self.len_key(ety)] = z3.Store(self.len_arr(ety), lst, n)

    def el_arr(self, ety, part="val"):
        srt = z3.BoolSort() if part == "none" else sort_of(ety)
        key = f"el:{kind_name(ety)}" + ("?" if part == "none" else "")
        return key, self.harr(key, lambda: z3.ArraySort(REF, z3.ArraySort(z3.IntSort(), srt)))

    def elems(self, lst, ety, part="val"):
        return z3.Select(self.el_arr(ety, part)[1], lst)

    def set_elems(self, lst, ety, arr, part="val"):
        k, a = self.el_arr(ety, part)
        self.heap[k] = z3.Store(a, lst, arr)

    def mem_arr(self):
        return self.harr("mem", lambda: z3.ArraySort(REF, z3.ArraySort(REF, z3.BoolSort())))

    def mem(self, lst, x):
        return z3.Select(z3.Select(self.mem_arr(), lst), x)

    def memset(self, lst):
        return z3.Select(self.mem_arr(), lst)

    def set_mem(self, lst, newset):
        self.heap["mem"] = z3.Store(self.mem_arr(), lst, newset)

    def heapok_arr(self):
        return self.harr("heapok", lambda: z3.ArraySort(REF, z3.BoolSort()))

    def heapok(self, lst):
        return z3.Select(self.heapok_arr(), lst)

    def set_heapok(self, lst, b):
        self.heap["heapok"] = z3.Store(self.heapok_arr(), lst, b if not isinstance(b, bool) else z3.BoolVal(b))

    def nodup_arr(self):
        return self.harr("nodup", lambda: z3.ArraySort(REF, z3.BoolSort()))

    def nodup(self, lst):
        """duplicate-free flag of a reference list: justifies `remove`/`heappop` on the mem view and the link len==0 <=> no member"""
        return z3.Select(self.nodup_arr(), lst)

    def set_nodup(self, lst, b):
        self.heap["nodup"] = z3.Store(self.nodup_arr(), lst, b if not isinstance(b, bool) else z3.BoolVal(b))

    def assume_link(self, lst):
        """view axiom of duplicate-free reference lists (a fact about real lists, not an invariant to prove): len == 0 <=> no member"""
        x = z3.Const(fresh_name("x_lk"), REF)
        n = self.length(lst)
        self.assume(z3.Implies(self.nodup(lst), z3.And(z3.Implies(n == 0, z3.ForAll([x], z3.Not(self.mem(lst, x)))),
                                                       z3.Implies(z3.ForAll([x], z3.Not(self.mem(lst, x))), n == 0), n >= 0)))

    def pos_view(self, lst, ety=("ref", "Order")):
        """Skolem position of members of a duplicate-free reference list: returns pos (z3 function) and the defining facts (true of real lists)"""
        pos = z3.Function(fresh_name("pos"), REF, z3.IntSort())
        i = z3.Int(fresh_name("i_pv")); x = z3.Const(fresh_name("x_pv"), REF)
        el = self.elems(lst, ety); n = self.length(lst)
        facts = z3.Implies(self.nodup(lst), z3.And(
            z3.ForAll([i], z3.Implies(z3.And(0 <= i, i < n), z3.And(self.mem(lst, z3.Select(el, i)), pos(z3.Select(el, i)) == i))),
            z3.ForAll([x], z3.Implies(self.mem(lst, x), z3.And(0 <= pos(x), pos(x) < n, z3.Select(el, pos(x)) == x)))))
        return pos, facts

    def norm_index(self, lst, idx, ety=None):
        n = self.length(lst, ety)
        return z3.If(idx < 0, idx + n, idx), n

    def list_get(self, lst, idx, what="index"):
        ety = lst.ty[1]
        i, n = self.norm_index(lst.term, idx.term if isinstance(idx, V) else idx, ety)
        if strip_opt(ety)[0] == "ref" and not self.quiet:
            self.assume_link(lst.term)
        self.oblige(f"{what}-in-range", z3.And(i >= 0, i < n), "implicit")
        k, a = self.el_arr(ety)
        if ety[0] == "opt":
            kn, an = self.el_arr(ety, "none")
            v = V(ety, z3.Select(z3.Select(a, lst.term), i), none=z3.Select(z3.Select(an, lst.term), i))
        else:
            v = V(ety, z3.Select(z3.Select(a, lst.term), i))
        self.assume_alloc(v, a)
        return v

    def list_set(self, lst, idx, val, check=True):
        ety = lst.ty[1]
        i, n = self.norm_index(lst.term, idx.term if isinstance(idx, V) else idx, ety)
        if check:
            self.oblige("store-index-in-range", z3.And(i >= 0, i < n), "implicit")
        k, a = self.el_arr(ety)
        if ety[0] == "opt":
            kn, an = self.el_arr(ety, "none")
            if val.ty[0] == "none":
                self.heap[kn] = z3.Store(an, lst.term, z3.Store(z3.Select(an, lst.term), i, z3.BoolVal(True)))
                return
            flag = val.none if val.ty[0] == "opt" else z3.BoolVal(False)
            self.heap[kn] = z3.Store(an, lst.term, z3.Store(z3.Select(an, lst.term), i, flag))
            self.heap[k] = z3.Store(a, lst.term, z3.Store(z3.Select(a, lst.term), i, coerce(val, ety[1])))
        else:
            if val.ty[0] == "none":
                raise Unsupported("None stored into a list of non-optional elements")
            self.heap[k] = z3.Store(a, lst.term, z3.Store(z3.Select(a, lst.term), i, coerce(val, ety)))

    def new_list(self, ety, hint="list"):
        r = self.new_ref(hint)
        self.set_len(r, z3.IntVal(0), ety)
        if strip_opt(ety)[0] == "ref":
            self.set_mem(r, z3.K(REF, z3.BoolVal(False)))
            self.set_nodup(r, True)
        return V(("list", ety), r)

    # ---- dicts: dom: ref -> (key -> bool), val: ref -> (key -> sort) per (key sort, value sort)
    def dict_keys(self, dty):
        tag = f"{kind_name(dty[1])}_{kind_name(dty[2])}"
        return f"dd:{tag}", f"dv:{tag}", f"dv:{tag}?"

    def dict_arrays(self, dty):
        ks, vs = sort_of(dty[1]), sort_of(dty[2])
        kd, kv, kn = self.dict_keys(dty)
        d = self.harr(kd, lambda: z3.ArraySort(REF, z3.ArraySort(ks, z3.BoolSort())))
        v = self.harr(kv, lambda: z3.ArraySort(REF, z3.ArraySort(ks, vs)))
        return d, v

    def dict_dom(self, dct):
        d, v = self.dict_arrays(dct.ty)
        return z3.Select(d, dct.term)

    def dict_val(self, dct):
        d, v = self.dict_arrays(dct.ty)
        return z3.Select(v, dct.term)

    def dict_has(self, dct, key):
        return z3.Select(self.dict_dom(dct), coerce(key, dct.ty[1]))

    def dict_get(self, dct, key, check=True):
        kt = coerce(key, dct.ty[1])
        if check:
            self.oblige("key-present", z3.Select(self.dict_dom(dct), kt), "implicit")
        vty = dct.ty[2]
        if vty[0] == "opt":
            kd, kv, kn = self.dict_keys(dct.ty)
            ks = sort_of(dct.ty[1])
            nn = self.harr(kn, lambda: z3.ArraySort(REF, z3.ArraySort(ks, z3.BoolSort())))
            v = V(vty, z3.Select(self.dict_val(dct), kt), none=z3.Select(z3.Select(nn, dct.term), kt))
        else:
            v = V(vty, z3.Select(self.dict_val(dct), kt))
        self.assume_alloc(v, self.dict_arrays(dct.ty)[1])
        return v

    def dict_set(self, dct, key, val):
        kd, kv, kn = self.dict_keys(dct.ty)
        d, v = self.dict_arrays(dct.ty)
        kt = coerce(key, dct.ty[1])
        self.heap[kd] = z3.Store(d, dct.term, z3.Store(z3.Select(d, dct.term), kt, z3.BoolVal(True)))
        vty = dct.ty[2]
        if vty[0] == "opt":
            ks = sort_of(dct.ty[1])
            nn = self.harr(kn, lambda: z3.ArraySort(REF, z3.ArraySort(ks, z3.BoolSort())))
            flag = z3.BoolVal(True) if val.ty[0] == "none" else (val.none if val.ty[0] == "opt" else z3.BoolVal(False))
            self.heap[kn] = z3.Store(nn, dct.term, z3.Store(z3.Select(nn, dct.term), kt, flag))
            if val.ty[0] == "none":
                return
        self.heap[kv] = z3.Store(v, dct.term, z3.Store(z3.Select(v, dct.term), kt, coerce(val, vty)))

    def dict_del(self, dct, key, check=True):
        kd, kv, kn = self.dict_keys(dct.ty)
        d, v = self.dict_arrays(dct.ty)
        kt = coerce(key, dct.ty[1])
        if check:
            self.oblige("del-key-present", z3.Select(z3.Select(d, dct.term), kt), "implicit")
        self.heap[kd] = z3.Store(d, dct.term, z3.Store(z3.Select(d, dct.term), kt, z3.BoolVal(False)))

    def new_dict(self, dty, hint="dict"):
        r = self.new_ref(hint)
        kd, kv, kn = self.dict_keys(dty)
        d, v = self.dict_arrays(dty)
        self.heap[kd] = z3.Store(d, r, z3.K(sort_of(dty[1]), z3.BoolVal(False)))
        return V(dty, r)

    # ---- ghost maps living in the heap (so loops can havoc them)
    def gh(self, name, sort_fn=None):
        return self.harr("g:" + name, sort_fn or (lambda: z3.ArraySort(REF, z3.IntSort())))

    def set_gh(self, name, arr):
        self.heap["g:" + name] = arr

    def havoc(self, keys):
        """replace heap maps by fresh ones. `keys` may name a field map without the '?' suffix: both parts are havocked"""
        for key in keys:
            for k in (key, key + "?"):
                if k in self.heap or k == key:
                    if k not in self.heap:
                        if k.startswith("f:"):
                            cls, field = k[2:].split(".")
                            self.farr(cls, field)
                            if field_type(cls, field)[0] == "opt":
                                self.farr(cls, field, "none")
                        elif k.startswith("len:"):
                            self.harr(k, lambda: z3.ArraySort(REF, z3.IntSort()))
                        elif k in ("len", "mem", "heapok", "alloc", "nodup"):
                            {"len": self.len_arr, "mem": self.mem_arr, "heapok": self.heapok_arr, "alloc": self.alloc_arr, "nodup": self.nodup_arr}[k]()
                        else:
                            continue
                    if k in self.heap:
                        self.heap[k] = z3.FreshConst(self.heap[k].sort(), "hv_" + k.replace(":", "_").replace("?", "n"))


def sym_obj(cls, name):
    return V(("ref", cls), z3.Const(name, REF))


def has_quant(e, memo=None):
    """does the term contain a quantifier? (memo is per call: z3 ast ids are reused after garbage collection)"""
    if memo is None:
        memo = {}
    i = e.get_id()
    if i not in memo:
        memo[i] = z3.is_quantifier(e) or any(has_quant(c, memo) for c in e.children())
    return memo[i]


FEAS_STATS = {"calls": 0, "unsat": 0}


def feasible(pc):
    """path pruning only: uses the quantifier-free part of the path condition (over-approximates feasibility => sound)"""
    FEAS_STATS["calls"] += 1
    s = z3.Solver()
    s.set("rlimit", 2000000)
    memo = {}
    s.add(*[c for c in pc if not has_quant(c, memo)])
    r = s.check()
    if r == z3.unsat:
        FEAS_STATS["unsat"] += 1
    return r != z3.unsat
