"""Symbolic executor, part 3: statements and loops."""
import ast
import z3

from .core import *   # noqa
from .src import parse_type
from .symex import to_load


def loops_in_order(fn):
    """For/While nodes of a function in source order (nested functions excluded)"""
    out = []

    def rec(stmts):
        for s in stmts:
            if isinstance(s, (ast.For, ast.While)):
                out.append(s)
            if isinstance(s, (ast.FunctionDef, ast.ClassDef)):
                continue
            for fld in ("body", "orelse", "finalbody"):
                if hasattr(s, fld):
                    rec(getattr(s, fld))
            if isinstance(s, ast.Try):
                for h in s.handlers:
                    rec(h.body)
    rec(fn.body)
    return out


def assigned_names(stmts):
    names = set()
    for s in stmts:
        for n in ast.walk(s):
            if isinstance(n, ast.Name) and isinstance(n.ctx, ast.Store):
                names.add(n.id)
    return names



def norm_test(n):
    """canonical form of a branch test: operands of and / or sorted; == / != / is / is not with sorted operands; > and >= mirrored to < and <="""
    if isinstance(n, ast.BoolOp):
        return (type(n.op).__name__,) + tuple(sorted((norm_test(v) for v in n.values), key=repr))
    if isinstance(n, ast.UnaryOp) and isinstance(n.op, ast.Not):
        return ("Not", norm_test(n.operand))
    if isinstance(n, ast.Compare) and len(n.ops) == 1:
        a, b, op = ast.unparse(n.left), ast.unparse(n.comparators[0]), type(n.ops[0]).__name__
        if op in ("Eq", "NotEq", "Is", "IsNot"):
            a, b = sorted((a, b))
        elif op in ("Gt", "GtE"):
            a, b, op = b, a, {"Gt": "Lt", "GtE": "LtE"}[op]
        return (op, a, b)
    return ast.unparse(n)


class StmtsMixin:
    # ------------------------------------------------------------------ statements -> [(state, kind, value)]
    def run(self, stmts, st, d=0):
        work = [(st, 0)]
        out = []
        # iterative to keep recursion shallow on long bodies
        while work:
            s0, i = work.pop()
            if i >= len(stmts):
                out.append((s0, "fall", None)); continue
            s = stmts[i]
            m = getattr(self, "st_" + type(s).__name__, None)
            if m is None:
                raise Unsupported(f"stmt {type(s).__name__} line {s.lineno}")
            res = m(s, s0, d)
            gh = None
            if getattr(self, "ghost_after", None):
                gh = self.ghost_after.get(ast.unparse(s).split("\n")[0])
                if gh is None and isinstance(s, (ast.Assign, ast.AnnAssign)):
                    tg = s.targets[0] if isinstance(s, ast.Assign) else s.target
                    if isinstance(tg, ast.Name):
                        gh = self.ghost_after.get("assign:" + tg.id)
                if gh is None and getattr(s, "_pyvc_ghost_key", None):
                    gh = self.ghost_after.get(s._pyvc_ghost_key)
            if gh is not None:
                for s1, kind, val in res:
                    if kind == "fall":
                        gh(self, s1)
            nxt = []
            for s1, kind, val in res:
                if kind == "fall":
                    nxt.append((s1, i + 1))
                else:
                    out.append((s1, kind, val))
            work.extend(reversed(nxt))
        return out

    def st_Expr(self, s, st, d):
        if isinstance(s.value, ast.Constant):
            return [(st, "fall", None)]
        return [(s1, "fall", None) for s1, _ in self.ev(s.value, st, d)]

    def st_Pass(self, s, st, d):
        return [(st, "fall", None)]

    def st_Break(self, s, st, d):
        return [(st, "break", None)]

    def st_Continue(self, s, st, d):
        return [(st, "continue", None)]

    def st_Return(self, s, st, d):
        if s.value is None:
            return [(st, "return", NONE)]
        fn = self.fn_stack[-1][2] if self.fn_stack and len(self.fn_stack[-1]) > 2 else None
        self.pending_ann = parse_type(fn.returns) if fn is not None and getattr(fn, "returns", None) is not None else None
        try:
            vals = self.ev(s.value, st, d)
        finally:
            self.pending_ann = None
        return [(s1, "return", v) for s1, v in vals]

    def st_Raise(self, s, st, d):
        if s.exc is None:
            return [(st, "raise", ("reraise", s.lineno))]
        if isinstance(s.exc, ast.Call):
            name = s.exc.func.id if isinstance(s.exc.func, ast.Name) else "?"
        else:
            name = getattr(s.exc, "id", "?")
        return [(st, "raise", (name, s.lineno))]

    def st_Assert(self, s, st, d):
        out = []
        for s1, c in self.ev(s.test, st, d):
            t = truth(c, s1)
            sa = s1.copy(); sa.assume_branch(z3.Not(t))
            if feasible(sa.pc):
                out.append((sa, "raise", ("AssertionError", s.lineno)))
            sb = s1.copy(); sb.assume_branch(t); out.append((sb, "fall", None))
        return out

    def st_FunctionDef(self, s, st, d):
        st = st.copy()
        fv = V(("func",), py=("def", s, st.env))      # closure over the live environment (late binding, like Python)
        st.env[s.name] = fv
        return [(st, "fall", None)]

    def st_Delete(self, s, st, d):
        states = [st]
        for t in s.targets:
            if not isinstance(t, ast.Subscript):
                raise Unsupported("del of non-subscript")
            nxt = []
            for s0 in states:
                for s1, base in self.ev(t.value, s0, d):
                    for s2, key in self.ev(t.slice, s1, d):
                        s2 = s2.copy()
                        b = base
                        if b.ty[0] == "dyn":
                            s2.oblige("json-value-is-dict", dyn_is_dict(b.term), "implicit")
                            b = V(("dict", ("str",), ("dyn",)), dyn_ref(b.term))
                        if b.ty[0] != "dict":
                            raise Unsupported("del on non-dict")
                        s2.dict_del(b, key)
                        nxt.append(s2)
            states = nxt
        return [(s1, "fall", None) for s1 in states]

    def retype_fresh_list(self, val, want, st):
        """a literal `[]` stored into a typed slot adopts the slot's element type"""
        if val.ty == ("list", ("dyn",)) and want and want[0] == "list" and want[1] != ("dyn",):
            nv = V(want, val.term, py=val.py)
            st.set_len(val.term, z3.IntVal(0), want[1])
            if strip_opt(want[1])[0] == "ref":
                st.set_mem(val.term, z3.K(REF, z3.BoolVal(False))); st.set_nodup(val.term, True)
            return nv
        return val

    def assign(self, target, val, st, d):
        if isinstance(target, ast.Name):
            st = st.copy()
            decl = st.ghost.get("@decl:" + target.id)
            if decl is not None:
                val = self.adapt_to_annotation(val, decl, st)
            st.env[target.id] = val
            return [st]
        if isinstance(target, ast.Attribute):
            out = []
            for s1, o in self.ev(target.value, st, d):
                s1 = s1.copy()
                o = self.deref(o, s1, "attr-store")
                if o.ty[0] != "ref":
                    raise Unsupported(f"attribute store on {o.ty}")
                if ("hook", "store", o.ty[1], target.attr) in self.specs:
                    self.specs[("hook", "store", o.ty[1], target.attr)](self, s1, o, val)
                try:
                    val = self.retype_fresh_list(val, strip_opt(field_type(o.ty[1], target.attr)), s1)
                except Unsupported:
                    pass
                s1.write(o, target.attr, val)
                out.append(s1)
            return out
        if isinstance(target, ast.Subscript):
            out = []
            for s1, base in self.ev(target.value, st, d):
                for s2, idx in self.ev(target.slice, s1, d):
                    s2 = s2.copy()
                    b = self.deref(base, s2, "subscript-store") if base.ty[0] == "opt" else base
                    if b.ty[0] == "list":
                        s2.list_set(b, self.as_int(idx, s2), val)
                    elif b.ty[0] == "dict":
                        s2.dict_set(b, idx, self.retype_fresh_list(val, strip_opt(b.ty[2]), s2))
                    elif b.ty[0] == "dyn":
                        s2.oblige("json-value-is-dict", dyn_is_dict(b.term), "implicit")
                        s2.dict_set(V(("dict", ("str",), ("dyn",)), dyn_ref(b.term)), idx, val)
                    else:
                        raise Unsupported(f"subscript store on {b.ty}")
                    out.append(s2)
            return out
        if isinstance(target, ast.Tuple):
            if val.ty[0] != "tuple" or len(val.py) != len(target.elts):
                raise Unsupported("tuple unpacking of a non-tuple")
            states = [st]
            for t, v in zip(target.elts, val.py):
                states = [s2 for s1 in states for s2 in self.assign(t, v, s1, d)]
            return states
        raise Unsupported("assign target")

    def st_Assign(self, s, st, d):
        out = []
        decl = st.ghost.get("@decl:" + s.targets[0].id) if len(s.targets) == 1 and isinstance(s.targets[0], ast.Name) else None
        if decl is not None:
            # `x: T` declared earlier without a value: the assignment is read like `x: T = value`
            self.pending_ann = decl
            try:
                vals = self.ev(s.value, st, d)
            finally:
                self.pending_ann = None
        else:
            vals = self.ev(s.value, st, d)
        for s1, v in vals:
            states = [s1]
            for t in s.targets:
                states = [s3 for s2 in states for s3 in self.assign(t, v, s2, d)]
            out += [(s2, "fall", None) for s2 in states]
        return out

    def st_AnnAssign(self, s, st, d):
        ann = parse_type(s.annotation)
        if s.value is None:
            if isinstance(s.target, ast.Name) and s.target.id not in st.env:
                st = st.copy(); st.env[s.target.id] = None     # declared, unbound
                st.ghost["@decl:" + s.target.id] = ann
            return [(st, "fall", None)]
        out = []
        if isinstance(s.target, ast.Attribute) and isinstance(s.target.value, ast.Name) and ann is not None and ann[0] == "dict":
            # `self.f: Dict[K, V] = {...}`: the literal is built with the field's own type (the sort hints of the field, e.g. Optional[int] keys), not the re-parsed annotation
            ov = st.env.get(s.target.value.id)
            if ov is not None and ov.ty[0] == "ref":
                try:
                    fty = strip_opt(field_type(ov.ty[1], s.target.attr))
                    if fty[0] == "dict":
                        ann = fty
                except Unsupported:
                    pass
        self.pending_ann = ann
        try:
            vals = self.ev(s.value, st, d)
        finally:
            self.pending_ann = None
        for s1, v in vals:
            if isinstance(s.target, ast.Name):
                v = self.adapt_to_annotation(v, ann, s1)
            out += [(s2, "fall", None) for s2 in self.assign(s.target, v, s1, d)]
        return out

    def adapt_to_annotation(self, v, ann, st):
        """a local declared Optional[T] keeps an Optional view; JSON values assigned to typed locals are projected"""
        if ann is None:
            return v
        try:
            if ann[0] == "opt" and v.ty[0] == "none":
                return V(ann, z3.FreshConst(sort_of(ann), "noneval"), none=z3.BoolVal(True))
            if ann[0] == "opt" and v.ty[0] not in ("opt", "dyn") and v.term is not None and sort_of(ann) == sort_of(v.ty) and v.ty[0] not in ("list", "dict", "tuple"):
                return V(ann, v.term, none=z3.BoolVal(False), py=v.py)
            if v.ty[0] == "dyn" and ann[0] in ("int", "real", "bool", "str"):
                return V(ann, coerce(v, ann))
            if v.ty[0] == "dyn" and ann[0] in ("dict", "list"):
                return V(ann if ann[0] == "list" else ("dict", ("str",), ("dyn",)), dyn_ref(v.term))
            if v.ty[0] == "list" and v.ty[1] == ("dyn",) and ann[0] == "list":
                return self.retype_fresh_list(v, ann, st) if ann[1] != ("dyn",) else V(ann, v.term, py=v.py)
        except Unsupported:
            return v
        return v

    def st_AugAssign(self, s, st, d):
        load = ast.BinOp(left=to_load(s.target), op=s.op, right=s.value)
        ast.copy_location(load, s); ast.fix_missing_locations(load)
        a = ast.Assign(targets=[s.target], value=load, lineno=s.lineno)
        return self.st_Assign(a, st, d)

    def isinstance_narrowing(self, test):
        """(name, class, positive?) if the test is `isinstance(name, Class)` or its negation"""
        pos = True
        if isinstance(test, ast.UnaryOp) and isinstance(test.op, ast.Not):
            test, pos = test.operand, False
        if isinstance(test, ast.Call) and isinstance(test.func, ast.Name) and test.func.id == "isinstance" and len(test.args) == 2 \
                and isinstance(test.args[0], ast.Name) and isinstance(test.args[1], ast.Name) and test.args[1].id in self.src.classes:
            return test.args[0].id, test.args[1].id, pos
        return None

    def st_If(self, s, st, d):
        out = []
        nar = self.isinstance_narrowing(s.test)
        opaque = None
        if getattr(self, "opaque_branches", None):
            # a declared-opaque branch is recognised by its test up to the order of the operands of and / or / == / is and the direction of a comparison
            fname = self.fn_stack[-1][0] if self.fn_stack else "?"
            for (fn_, text_), ob_ in self.opaque_branches.items():
                if fn_ == fname and norm_test(ast.parse(text_, mode="eval").body) == norm_test(s.test):
                    opaque = ob_
        for s1, c in self.ev(s.test, st, d):
            t = truth(c, s1)
            for body, cond, branch in ((s.body, t, True), (s.orelse, z3.Not(t), False)):
                s2 = s1.copy(); s2.assume_branch(cond)
                if feasible(s2.pc):
                    if opaque is not None and opaque["branch"] == branch:
                        # stated abstraction: this branch is not modelled; its outcomes are over-approximated
                        out += opaque["outcomes"](self, s2)
                        continue
                    if nar and nar[2] == branch:
                        v = s2.env.get(nar[0])
                        if v is not None and v.ty[0] == "ref" and v.ty[1] in self.src.mro(nar[1]) and v.ty[1] != nar[1]:
                            s2.env = dict(s2.env); s2.env[nar[0]] = V(("ref", nar[1]), v.term)      # static type narrowed by the test
                    out += self.run(body, s2, d)
        return out

    def st_Try(self, s, st, d):
        # only `try: X except Exception as e: print(...); raise e` occurs: the handler re-raises, so the try body's behaviour is the statement's
        for h in s.handlers:
            last = h.body[-1]
            if not isinstance(last, ast.Raise):
                raise Unsupported("try with a handler that does not re-raise")
        if s.finalbody or s.orelse:
            raise Unsupported("try/finally/else")
        return self.run(s.body, st, d)

    # ------------------------------------------------------------------ loops
    def loop_key(self, s):
        return getattr(s, "_pyvc_key", None)

    def st_While(self, s, st, d):
        spec = self.loops.get(self.loop_key(s))
        if spec is None:
            raise Unsupported(f"while loop without invariant (line {s.lineno}) in {self.current}")
        return spec.run_while(self, s, st, d)

    def st_For(self, s, st, d):
        spec = self.loops.get(self.loop_key(s))
        if spec is None:
            # tiny constant iteration spaces are unrolled (e.g. `for m in [market1, market2]`)
            if isinstance(s.iter, (ast.List, ast.Tuple)) and len(s.iter.elts) <= 4:
                return self.unroll_for(s, st, d)
            if isinstance(s.iter, ast.Set) and len(s.iter.elts) == 2:
                return self.unroll_set2(s, st, d)
            raise Unsupported(f"for loop without invariant (line {s.lineno}: for {ast.unparse(s.target)} in {ast.unparse(s.iter)[:50]}) in {self.current}")
        return spec.run_for(self, s, st, d)

    def unroll_set2(self, s, st, d):
        """`for x in {a, b}`: one iteration if a == b, else two (iteration order of a set of two is unspecified; both orders are explored)"""
        out = []
        a_node, b_node = s.iter.elts
        for s1, a in self.ev(a_node, st, d):
            for s2, b in self.ev(b_node, s1, d):
                eqs = self.equals(a, b, s2.copy(), d)
                if len(eqs) != 1:
                    raise Unsupported("set literal with a branching equality")
                same = eqs[0][1]
                for cond, elems in ((same, [a_node]), (z3.Not(same), [a_node, b_node]), (z3.Not(same), [b_node, a_node])):
                    s3 = s2.copy(); s3.assume_branch(cond)
                    if feasible(s3.pc):
                        fake = ast.copy_location(ast.For(target=s.target, iter=ast.List(elts=elems, ctx=ast.Load()), body=s.body, orelse=[]), s)
                        ast.fix_missing_locations(fake)
                        out += self.unroll_for(fake, s3, d)
        return out

    def unroll_for(self, s, st, d):
        states = [(st, "fall", None)]
        for el in s.iter.elts:
            nxt = []
            for s0, kind, val in states:
                if kind != "fall":
                    nxt.append((s0, kind, val)); continue
                for s1, v in self.ev(el, s0, d):
                    for s2 in self.assign(s.target, v, s1, d):
                        for s3, k3, v3 in self.run(s.body, s2, d):
                            if k3 in ("fall", "continue"):
                                nxt.append((s3, "fall", None))
                            elif k3 == "break":
                                nxt.append((s3, "broke", None))
                            else:
                                nxt.append((s3, k3, v3))
            states = nxt
        return [(s0, "fall" if k == "broke" else k, v) for s0, k, v in states]
