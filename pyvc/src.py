"""Source index: every function/class of $PAMS_REPO/pams, parsed from the current working tree on every run."""
import ast
import glob
import hashlib
import os

REPO = os.environ.get("PAMS_REPO", "/repo")


def parse_type(a):
    """annotation AST -> type tuple used as sort hint"""
    if a is None:
        return None
    if isinstance(a, ast.Constant) and isinstance(a.value, str):
        try:
            return parse_type(ast.parse(a.value, mode="eval").body)
        except SyntaxError:
            return ("ref", a.value.strip('"'))
    if isinstance(a, ast.Constant) and a.value is None:
        return ("none",)
    if isinstance(a, ast.Name):
        return {"int": ("int",), "float": ("real",), "bool": ("bool",), "str": ("str",), "Any": ("dyn",),
                "Dict": ("dict", ("str",), ("dyn",)), "dict": ("dict", ("str",), ("dyn",)), "object": ("ref", "object"),
                "Type": ("class",), "Callable": ("func",), "OrderKind": ("kind",)}.get(a.id, ("ref", a.id))
    if isinstance(a, ast.Subscript):
        base = a.value.id if isinstance(a.value, ast.Name) else a.value.attr
        if base == "Optional":
            inner = parse_type(a.slice)
            return inner if inner[0] in ("opt", "dyn") else ("opt", inner)
        if base in ("List", "Iterable", "Sequence", "list"):
            return ("list", parse_type(a.slice))
        if base in ("Dict", "dict"):
            k, v = a.slice.elts
            return ("dict", parse_type(k), parse_type(v))
        if base == "Tuple":
            elts = a.slice.elts if isinstance(a.slice, ast.Tuple) else [a.slice]
            return ("tuple", tuple(parse_type(e) for e in elts))
        if base == "Type":
            return ("class",)
        if base == "Union":
            elts = a.slice.elts if isinstance(a.slice, ast.Tuple) else [a.slice]
            non_none = [e for e in elts if not (isinstance(e, ast.Constant) and e.value is None) and not (isinstance(e, ast.Name) and e.id == "None")]
            if len(non_none) == 1 and len(elts) == 2:
                inner = parse_type(non_none[0])
                return inner if inner[0] in ("opt", "dyn") else ("opt", inner)
            members = [parse_type(x) for x in non_none]
            if members and all(m[0] == "ref" for m in members) and len(non_none) == len(elts):
                return members[0]          # Union[Order, Cancel]: analysed with the first member as static type (tasks override where Cancel matters)
            return ("dyn",)
        if base == "Callable":
            return ("func",)
    if isinstance(a, ast.Attribute):
        if a.attr == "Random":
            return ("ref", "Random")
        return ("ref", a.attr)
    return ("dyn",)


class Src:
    def __init__(self, repo=None):
        self.repo = repo or REPO
        self.funcs = {}      # qualname -> (FunctionDef, module, file)
        self.classes = {}    # class name -> (ClassDef, module)
        self.consts = {}     # (module, name) -> ast value
        self.files = {}
        for f in sorted(glob.glob(self.repo + "/pams/**/*.py", recursive=True)):
            modname = f[len(self.repo) + 1:-3].replace("/", ".")
            text = open(f).read()
            self.files[f] = text
            tree = ast.parse(text)
            for n in tree.body:
                if isinstance(n, ast.ClassDef):
                    self.classes[n.name] = (n, modname)
                    for m in n.body:
                        if isinstance(m, ast.FunctionDef):
                            self.funcs[f"{n.name}.{m.name}"] = (m, modname, f)
                elif isinstance(n, ast.FunctionDef):
                    self.funcs[n.name] = (n, modname, f)
                elif isinstance(n, ast.Assign) and len(n.targets) == 1 and isinstance(n.targets[0], ast.Name):
                    self.consts[(modname, n.targets[0].id)] = n.value
        self._ft = {}

    # ---- class structure
    def bases(self, cls):
        if cls not in self.classes:
            return []
        node, _ = self.classes[cls]
        out = []
        for b in node.bases:
            name = b.id if isinstance(b, ast.Name) else (b.attr if isinstance(b, ast.Attribute) else None)
            if name in self.classes:
                out.append(name)
        return out

    def mro(self, cls):
        out = [cls]
        for b in self.bases(cls):
            for c in self.mro(b):
                if c not in out:
                    out.append(c)
        return out

    def subclasses(self, cls):
        return [c for c in self.classes if cls in self.mro(c)]

    def method(self, cls, name):
        for c in self.mro(cls):
            if f"{c}.{name}" in self.funcs:
                return c, self.funcs[f"{c}.{name}"][0]
        return None, None

    def is_property(self, cls, name):
        c, fn = self.method(cls, name)
        return fn is not None and any(isinstance(d, ast.Name) and d.id == "property" for d in fn.decorator_list)

    # ---- field sort hints
    def field_type_local(self, c, field):
        key = (c, field)
        if key in self._ft:
            return self._ft[key]
        res = None
        if c in self.classes:
            node, _ = self.classes[c]
            for n in ast.walk(node):
                if isinstance(n, ast.AnnAssign):
                    t = n.target
                    if isinstance(t, ast.Attribute) and isinstance(t.value, ast.Name) and t.value.id == "self" and t.attr == field:
                        res = parse_type(n.annotation)
                        break
                    if isinstance(t, ast.Name) and t.id == field and n in node.body:
                        res = parse_type(n.annotation)
                        break
            if res is None:
                # self.f = <param> in __init__ with an annotated parameter
                init = self.funcs.get(f"{c}.__init__")
                if init is not None:
                    fn = init[0]
                    ann = {a.arg: a.annotation for a in fn.args.args}
                    for n in ast.walk(fn):
                        if isinstance(n, ast.Assign) and len(n.targets) == 1:
                            t = n.targets[0]
                            if isinstance(t, ast.Attribute) and isinstance(t.value, ast.Name) and t.value.id == "self" and t.attr == field \
                                    and isinstance(n.value, ast.Name) and ann.get(n.value.id) is not None:
                                res = parse_type(ann[n.value.id])
                                break
        self._ft[key] = res
        return res

    def source_hash(self, qual):
        fn, mod, f = self.funcs[qual]
        seg = ast.get_source_segment(self.files[f], fn) or ast.unparse(fn)
        return hashlib.sha256(seg.encode()).hexdigest()[:16]

    def where(self, qual):
        fn, mod, f = self.funcs[qual]
        return f"{f[len(self.repo) + 1:]}:{fn.lineno}"


_SRC = None


def get_src():
    global _SRC
    if _SRC is None:
        _SRC = Src()
    return _SRC
