"""Symbolic executor, part 2: calls (builtins, library models, contracts, inlining)."""
import ast
import z3

from .core import *   # noqa
from .src import parse_type
from .symex import EXC_NAMES



def _uconsts(terms):
    """uninterpreted constants (arity 0) occurring in the given z3 terms, by name"""
    out = {}; seen = set(); stack = [t for t in terms if t is not None]
    while stack:
        t = stack.pop()
        if not z3.is_expr(t):
            continue
        k = t.get_id()
        if k in seen:
            continue
        seen.add(k)
        if z3.is_quantifier(t):
            stack.append(t.body()); continue
        if z3.is_app(t):
            if t.num_args() == 0 and t.decl().kind() == z3.Z3_OP_UNINTERPRETED:
                out[t.decl().name()] = t
            else:
                stack.extend(t.children())
    return out


def _state_consts(st):
    terms = list(st.pc) + [v for v in st.heap.values()]
    for v in st.env.values():
        if v is not None and getattr(v, "term", None) is not None:
            terms.append(v.term)
            if getattr(v, "none", None) is not None and z3.is_expr(v.none):
                terms.append(v.none)
    return _uconsts(terms)


def generalize_fresh(pre_state, var, formulas):
    """the body of a comprehension is evaluated ONCE, for an arbitrary element `var`; values introduced during that evaluation (results of contracted calls, fresh reads)
    are per-element values: every constant that did not exist before is replaced by a function of `var` before the formulas are quantified over the elements"""
    before = _state_consts(pre_state)
    # only run-time fresh values (their names carry a `!` counter); canonical names (entry-heap maps `H0_...`, parameters, spec functions) denote one global object
    new = {n: c for n, c in _uconsts(formulas).items() if n not in before and not c.eq(var) and "!" in n}
    if not new:
        return formulas
    subs = []
    for n, c in new.items():
        f = z3.Function(fresh_name("per_elem_" + n.replace("!", "_")), var.sort(), c.sort())
        subs.append((c, f(var)))
    return [z3.substitute(f_, *subs) for f_ in formulas]


class CallsMixin:
    # ------------------------------------------------------------------ argument evaluation
    def eval_args(self, e, st, d):
        states = [(st, [], {})]
        for a in e.args:
            if isinstance(a, ast.Starred):
                # *args forwarding of the current function's own varargs (a static, python-level list of values)
                nxt = []
                for s1, pos, kw in states:
                    for s2, v in self.ev(a.value, s1, d):
                        if v.ty[0] != "pylist" or v.py is None:
                            raise Unsupported("starred call argument that is not the forwarded *args")
                        nxt.append((s2, pos + list(v.py), kw))
                states = nxt
                continue
            states = [(s2, pos + [v], kw) for s1, pos, kw in states for s2, v in self.ev(a, s1, d)]
        for k in e.keywords:
            if k.arg is None:      # **kwargs
                nxt = []
                for s1, pos, kw in states:
                    for s2, v in self.ev(k.value, s1, d):
                        if v.ty[0] != "kwdict":
                            raise Unsupported("** of a non-literal dict")
                        nxt.append((s2, pos, {**kw, **v.py}))
                states = nxt
            else:
                states = [(s2, pos, {**kw, k.arg: v}) for s1, pos, kw in states for s2, v in self.ev(k.value, s1, d)]
        return states

    def ev_Call(self, e, st, d):
        f = e.func
        if isinstance(f, ast.Name):
            return self.call_name(e, f.id, st, d)
        if isinstance(f, ast.Attribute):
            return self.call_attr(e, f, st, d)
        raise Unsupported(f"call form {ast.unparse(e)[:60]}")

    # ------------------------------------------------------------------ f(...)
    def call_name(self, e, n, st, d):
        if n == "cast":
            return self.ev(e.args[1], st, d)
        if n in ("isinstance", "issubclass"):
            return self.call_isinstance(e, n, st, d)
        if n == "print":
            return [(st, NONE)]
        if n == "super":
            raise Unsupported("bare super()")
        if n in ("list", "sum", "sorted", "any", "all") and e.args and isinstance(e.args[0], (ast.ListComp, ast.GeneratorExp, ast.Call)):
            r = self.call_idiom(e, n, st, d)
            if r is not None:
                return r
        if n == "len" and len(e.args) == 1 and isinstance(e.args[0], ast.Call) and isinstance(e.args[0].func, ast.Name) and e.args[0].func.id == "set" \
                and len(e.args[0].args) == 1 and isinstance(e.args[0].args[0], ast.Call) and getattr(e.args[0].args[0].func, "id", "") == "map":
            return self.count_distinct_idiom(e.args[0].args[0], st, d)
        if n == "dict" and len(e.args) == 1 and isinstance(e.args[0], ast.ListComp) and len(e.keywords) == 1 and e.keywords[0].arg is None:
            return self.dict_merge_idiom(e, st, d)
        if n == "filter" and len(e.args) == 2 and isinstance(e.args[0], ast.Lambda):
            return self.filter_list(e.args[0], e.args[1], st, d)
        if n == "map" and len(e.args) == 2 and isinstance(e.args[0], ast.Lambda):
            return self.comprehension_map(e.args[0], e.args[1], st, d)
        if n in st.env and st.env[n] is not None and st.env[n].ty[0] == "func":
            out = []
            for s1, pos, kw in self.eval_args(e, st, d):
                out += self.call_closure(st.env[n], pos, kw, s1, d)
            return out
        if n in st.env and st.env[n] is not None and st.env[n].ty[0] == "class":
            clsv = st.env[n]
            out = []
            for s1, pos, kw in self.eval_args(e, st, d):
                out += self.construct(clsv, pos, kw, s1, d, e)
            return out
        out = []
        for s1, pos, kw in self.eval_args(e, st, d):
            s1 = s1.copy()
            out += self.call_builtin(e, n, pos, kw, s1, d)
        return out

    def call_isinstance(self, e, n, st, d):
        out = []
        for s1, v in self.ev(e.args[0], st, d):
            cls = e.args[1]
            if isinstance(cls, ast.Name):
                cname = cls.id
            elif isinstance(cls, ast.Attribute):
                cname = cls.attr
            else:
                cname = None
            if cname is None or (isinstance(cls, ast.Name) and cls.id in s1.env):
                # isinstance(x, <symbolic class>) -- uninterpreted
                for s2, cv in self.ev(cls, s1, d):
                    if cv.ty[0] == "opt":
                        cv = V(cv.ty[1], cv.term, py=cv.py)
                    if cv.py is not None:
                        out += self._isinst_known(n, v, cv.py, s2)
                    else:
                        fnm = z3.Function("isinstance_dyn", REF, z3.IntSort(), z3.BoolSort())
                        out.append((s2, mkbool(fnm(v.term, cv.term))))
                continue
            out += self._isinst_known(n, v, cname, s1)
        return out

    def _isinst_known(self, n, v, cname, s1):
        if n == "issubclass":
            if v.ty[0] == "opt" and v.ty[1][0] == "class":
                v = V(v.ty[1], v.term, py=v.py)
            if v.ty[0] == "class" and v.py is not None:
                return [(s1, mkbool(cname in self.src.mro(v.py)))]
            if v.ty[0] == "class":
                fnm = z3.Function("issubclass_" + cname, z3.IntSort(), z3.BoolSort())
                return [(s1, mkbool(fnm(v.term)))]
            raise Unsupported("issubclass on non-class")
        if v.ty[0] == "dyn":
            t = {"int": z3.Or(dyn_is_int(v.term), dyn_is_bool(v.term)), "float": dyn_is_real(v.term), "bool": dyn_is_bool(v.term),
                 "str": dyn_is_str(v.term), "list": dyn_is_list(v.term), "dict": dyn_is_dict(v.term), "Dict": dyn_is_dict(v.term)}.get(cname)
            if t is None:
                raise Unsupported("isinstance on JSON value with " + str(cname))
            return [(s1, mkbool(t))]
        ty = strip_opt(v.ty)
        if ty[0] == "ref":
            static = ty[1]
            if cname in self.src.mro(static):
                t = z3.BoolVal(True)
            elif static in self.src.mro(cname) or static == "object":
                t = is_instance(cname, v.term)       # dynamic class test (uninterpreted predicate per class)
            else:
                t = z3.BoolVal(False)
            if v.ty[0] == "opt":
                t = z3.And(z3.Not(v.none), t)
            return [(s1, mkbool(t))]
        if ty[0] in ("int", "real", "bool", "str", "list", "dict"):
            py = {"int": ("int", "bool"), "float": ("real",), "bool": ("bool",), "str": ("str",), "list": ("list",), "dict": ("dict",), "Dict": ("dict",)}.get(cname, ())
            t = z3.BoolVal(ty[0] in py)
            if v.ty[0] == "opt":
                t = z3.And(z3.Not(v.none), t)
            return [(s1, mkbool(t))]
        if ty[0] == "none":
            return [(s1, mkbool(False))]
        raise Unsupported(f"isinstance on {v.ty}")

    def call_builtin(self, e, n, pos, kw, s1, d):
        if n == "abs":
            v = self.unwrap(pos[0], s1)
            if v.ty[0] == "bool":
                v = V(("int",), to_int(v))
            return [(s1, V(v.ty, z3.If(v.term >= 0, v.term, -v.term)))]
        if n in ("min", "max"):
            if len(pos) == 2:
                a, b = self.unwrap(pos[0], s1), self.unwrap(pos[1], s1)
                isint = self.num_kind(a, s1) == "int" and self.num_kind(b, s1) == "int"
                x, y = (to_int(a), to_int(b)) if isint else (to_real(a), to_real(b))
                return [(s1, V(("int",) if isint else ("real",), z3.If((x <= y) if n == "min" else (x >= y), x, y)))]
            if len(pos) == 1 and pos[0].ty[0] == "list":
                return [(s1, self.list_extreme(s1, pos[0], n))]
            raise Unsupported(f"{n} with {len(pos)} args")
        if n == "float":
            v = self.unwrap(pos[0], s1)
            if v.ty[0] == "str":
                if v.py == "nan":
                    return [(s1, V(("real",), z3.Const(fresh_name("nan"), z3.RealSort()), py="nan"))]
                if v.py == "inf":
                    self.used_assumptions.add("A-FINITE: float('inf') is a constant INF larger than every price read from a market (and -INF smaller)")
                    return [(s1, V(("real",), INF, py="inf"))]
                raise Unsupported("float(str)")
            if v.ty[0] == "dyn":
                s1.oblige("float()-of-number-json", z3.Or(dyn_is_int(v.term), dyn_is_real(v.term), dyn_is_bool(v.term)), "implicit")
            return [(s1, V(("real",), to_real(v)))]
        if n == "int":
            v = self.unwrap(pos[0], s1)
            if v.ty[0] == "dyn":
                # int(json number): exact for ints; truncation toward zero for reals
                s1.oblige("int()-of-number-json", z3.Or(dyn_is_int(v.term), dyn_is_real(v.term), dyn_is_bool(v.term)), "implicit")
                r = dyn_real(v.term); fl = FLOOR(r); cl = CEIL(r)
                s1.assume(z3.And(z3.ToReal(fl) <= r, r < z3.ToReal(fl) + 1, z3.ToReal(cl) - 1 < r, r <= z3.ToReal(cl)))
                return [(s1, V(("int",), z3.If(z3.Or(dyn_is_int(v.term), dyn_is_bool(v.term)), dyn_int(v.term), z3.If(r >= 0, fl, cl))))]
            if v.ty[0] in ("int", "bool"):
                return [(s1, V(("int",), to_int(v)))]
            if v.ty[0] == "real":
                r = v.term; fl = FLOOR(r); cl = CEIL(r)
                s1.assume(z3.And(z3.ToReal(fl) <= r, r < z3.ToReal(fl) + 1, z3.ToReal(cl) - 1 < r, r <= z3.ToReal(cl)))
                return [(s1, V(("int",), z3.If(r >= 0, fl, cl)))]
            raise Unsupported(f"int({v.ty})")
        if n == "bool":
            return [(s1, mkbool(truth(pos[0], s1)))]
        if n == "str":
            v = self.unwrap(pos[0], s1)
            if v.ty[0] == "int":
                return [(s1, V(("str",), STR_OF_INT(v.term)))]
            if v.ty[0] == "str":
                return [(s1, v)]
            if v.ty[0] == "dyn":
                fnm = z3.Function("str_of_dyn", DYN, z3.StringSort())
                s1.assume(z3.Implies(dyn_is_str(v.term), fnm(v.term) == dyn_str(v.term)))
                return [(s1, V(("str",), fnm(v.term)))]
            raise Unsupported(f"str({v.ty})")
        if n == "len":
            v = self.deref(pos[0], s1, "len") if pos[0].ty[0] == "opt" else pos[0]
            if v.ty[0] == "list":
                nn = s1.length(v.term, v.ty[1])
                s1.assume(nn >= 0)
                if strip_opt(v.ty[1])[0] == "ref":
                    # view link for duplicate-free reference lists: empty <=> no member
                    s1.assume_link(v.term)
                return [(s1, V(("int",), nn))]
            if v.ty[0] == "ref":
                c, fn = self.src.method(v.ty[1], "__len__")
                if fn is not None:
                    return self.call_method(v, "__len__", [], {}, s1, d, e)
            if v.ty[0] == "dict":
                cnt = z3.Function("dict_size_" + str(sort_of(v.ty[1])), z3.ArraySort(sort_of(v.ty[1]), z3.BoolSort()), z3.IntSort())
                sz = cnt(s1.dict_dom(v)); s1.assume(sz >= 0)
                k = z3.Const(fresh_name("k_sz"), sort_of(v.ty[1]))
                s1.assume((sz == 0) == z3.ForAll([k], z3.Not(z3.Select(s1.dict_dom(v), k))))
                return [(s1, V(("int",), sz))]
            if v.ty[0] in ("pylist", "tuple"):
                return [(s1, mkint(len(v.py)))]
            if v.ty[0] == "dyn":
                s1.oblige("len()-of-json-list-or-dict", z3.Or(dyn_is_list(v.term), dyn_is_dict(v.term)), "implicit")
                ll = s1.length(dyn_ref(v.term), ("dyn",))
                dct = V(("dict", ("str",), ("dyn",)), dyn_ref(v.term))
                cnt = z3.Function("dict_size_String", z3.ArraySort(z3.StringSort(), z3.BoolSort()), z3.IntSort())
                sz = cnt(s1.dict_dom(dct)); k = z3.Const(fresh_name("k_sz"), z3.StringSort())
                s1.assume(z3.And(ll >= 0, sz >= 0, (sz == 0) == z3.ForAll([k], z3.Not(z3.Select(s1.dict_dom(dct), k)))))
                return [(s1, V(("int",), z3.If(dyn_is_list(v.term), ll, sz)))]
            raise Unsupported(f"len of {v.ty}")
        if n == "range":
            args = [self.as_int(p, s1) for p in pos]
            lo = z3.IntVal(0) if len(args) == 1 else args[0].term
            hi = args[0].term if len(args) == 1 else args[1].term
            if len(args) == 3:
                raise Unsupported("range with step")
            return [(s1, V(("range",), py=(lo, hi)))]
        if n == "sum":
            if len(pos) == 2 and pos[1].ty[0] == "list":
                return [(s1, self.sum_lists(s1, pos[0], pos[1]))]
            if len(pos) == 1 and pos[0].ty[0] == "list":
                return [(s1, self.sum_list(s1, pos[0]))]
            raise Unsupported("sum form")
        if n in ("any", "all") and len(pos) == 1 and pos[0].ty[0] == "list" and pos[0].ty[1] == ("bool",):
            lst = pos[0]
            nn = s1.length(lst.term, ("bool",)); el = s1.elems(lst.term, ("bool",)); i = z3.Int(fresh_name("i_" + n))
            f = z3.Exists([i], z3.And(0 <= i, i < nn, z3.Select(el, i))) if n == "any" else z3.ForAll([i], z3.Implies(z3.And(0 <= i, i < nn), z3.Select(el, i)))
            return [(s1, V(("bool",), f))]
        if n == "list":
            if not pos:
                return [(s1, s1.new_list(("dyn",)))]
            v = pos[0]
            if v.ty[0] == "list":
                return [(s1, self.list_concat(s1, v, s1.new_list(v.ty[1]), "listcopy"))]
            if v.ty[0] == "range":
                lo, hi = v.py
                r = s1.new_list(("int",), "rangelist")
                n_ = z3.If(hi - lo > 0, hi - lo, 0)
                s1.set_len(r.term, n_, ("int",))
                i = z3.Int(fresh_name("i_rl")); new = z3.FreshConst(z3.ArraySort(z3.IntSort(), z3.IntSort()), "rl_el")
                s1.assume(z3.ForAll([i], z3.Implies(z3.And(0 <= i, i < n_), z3.Select(new, i) == lo + i)))
                s1.set_elems(r.term, ("int",), new)
                return [(s1, r)]
            raise Unsupported(f"list({v.ty})")
        if n in EXC_NAMES:
            return [(s1, V(("exc", n)))]
        if n in self.src.classes:
            return self.construct(V(("class",), None, py=n), pos, kw, s1, d, e)
        if ("f", n) in self.specs:
            return self.specs[("f", n)](self, s1, None, pos, kw, e)
        if n in self.src.funcs:
            fn = self.src.funcs[n][0]
            if d >= self.max_inline:
                raise Unsupported(f"inline depth at {n}")
            return self.call_function(fn, None, pos, kw, s1, d + 1)
        raise Unsupported(f"call {n} (line {e.lineno})")

    # ------------------------------------------------------------------ sums / extremes over lists (spec folds)
    def sum_list(self, st, lst):
        """sum(xs). Numbers: the canonical prefix-sum fold sum_real/sum_int(elements, len) with its defining equations.
        Booleans (counting idiom sum([c(x) for x in xs])): a fold plus the counting lemma  count > 0 <=> exists"""
        ety = strip_opt(lst.ty[1])
        if lst.ty[1][0] == "opt":
            raise Unsupported("sum over a list of Optional values")
        n = st.length(lst.term, lst.ty[1])
        el = st.elems(lst.term, lst.ty[1])
        if ety[0] in ("int", "real"):
            fn = SUM_REAL if ety[0] == "real" else SUM_INT
            for ax in sum_axioms(el, fn):
                st.assume(ax)
            st.assume(n >= 0)
            v = V(("real",) if ety[0] == "real" else ("int",), fn(el, n))
            v.py = ("sum", lst)
            return v
        if ety[0] != "bool":
            raise Unsupported(f"sum over {lst.ty}")
        res = z3.Const(fresh_name("count"), z3.IntSort())
        fold = z3.Function(fresh_name("fold"), z3.IntSort(), z3.IntSort())
        i = z3.Int(fresh_name("i_sum"))
        st.assume(fold(0) == 0)
        st.assume(z3.ForAll([i], z3.Implies(z3.And(0 <= i, i < n), fold(i + 1) == fold(i) + z3.If(z3.Select(el, i), 1, 0))))
        st.assume(res == fold(n))
        st.assume(z3.ForAll([i], z3.Implies(z3.And(0 <= i, i <= n), z3.And(fold(i) >= 0, fold(i) <= i))))
        st.assume((res > 0) == z3.Exists([i], z3.And(0 <= i, i < n, z3.Select(el, i))))     # counting lemma (induction on the list, trusted)
        self.used_assumptions.add("counting lemma: sum([c(x) for x in xs]) > 0 <=> some element satisfies c")
        v = V(("int",), res)
        v.py = ("count", lst, fold)
        return v

    def sum_lists(self, st, lists, start):
        """sum(list_of_lists, []) -> concatenation; membership view: x in result <=> exists l in lists: x in l"""
        if lists.ty[1][0] != "list":
            raise Unsupported("sum(xs, []) over non-lists")
        ety = lists.ty[1][1]
        res = st.new_list(ety, "concat")
        n = st.length(lists.term, lists.ty[1])
        nr = z3.Const(fresh_name("n_concat"), z3.IntSort())
        st.assume(nr >= 0); st.set_len(res.term, nr, ety)
        if strip_opt(ety)[0] == "ref":
            x = z3.Const(fresh_name("x_cc"), REF); i = z3.Int(fresh_name("i_cc"))
            outer = st.elems(lists.term, lists.ty[1])
            newmem = z3.FreshConst(z3.ArraySort(REF, z3.BoolSort()), "concat_mem")
            st.assume(z3.ForAll([x], z3.Select(newmem, x) == z3.Or(st.mem(start.term, x), z3.Exists([i], z3.And(0 <= i, i < n, st.mem(z3.Select(outer, i), x))))))
            st.set_mem(res.term, newmem)
            j = z3.Int(fresh_name("j_cc"))
            nd = z3.FreshConst(z3.BoolSort(), "concat_nodup")
            st.assume(z3.Implies(z3.And(st.nodup(start.term), z3.ForAll([i], z3.Implies(z3.And(0 <= i, i < n), st.nodup(z3.Select(outer, i)))),
                                        z3.ForAll([i, j, x], z3.Implies(z3.And(0 <= i, i < j, j < n), z3.Not(z3.And(st.mem(z3.Select(outer, i), x), st.mem(z3.Select(outer, j), x))))),
                                        z3.ForAll([i, x], z3.Implies(z3.And(0 <= i, i < n), z3.Not(z3.And(st.mem(start.term, x), st.mem(z3.Select(outer, i), x)))))), nd))
            st.set_nodup(res.term, nd)
            res.py = ("concat", lists)
        return res

    def list_extreme(self, st, lst, which):
        ety = strip_opt(lst.ty[1])
        n = st.length(lst.term, lst.ty[1])
        st.oblige(f"{which}-of-nonempty", n > 0, "implicit")
        res = z3.Const(fresh_name(which), sort_of(ety))
        el = st.elems(lst.term, lst.ty[1]); i = z3.Int(fresh_name("i_ext"))
        st.assume(z3.Exists([i], z3.And(0 <= i, i < n, z3.Select(el, i) == res)))
        st.assume(z3.ForAll([i], z3.Implies(z3.And(0 <= i, i < n), (res <= z3.Select(el, i)) if which == "min" else (res >= z3.Select(el, i)))))
        return V(ety, res)

    # ------------------------------------------------------------------ comprehension / map / filter idioms
    def call_idiom(self, e, n, st, d):
        a0 = e.args[0]
        if n == "list" and isinstance(a0, ast.Call) and isinstance(a0.func, ast.Name) and a0.func.id == "map":
            lam, seq = a0.args
            if ("idiom", "list-map", self.current) in self.specs:
                return self.specs[("idiom", "list-map", self.current)](self, lam, seq, st, d)
            comp = ast.ListComp(elt=None, generators=[])
            return self.comprehension_map(lam, seq, st, d)
        if n == "list" and isinstance(a0, ast.Call) and isinstance(a0.func, ast.Name) and a0.func.id == "filter":
            lam, seq = a0.args
            return self.filter_list(lam, seq, st, d)
        if n == "sum" and isinstance(a0, ast.Call) and isinstance(a0.func, ast.Name) and a0.func.id == "map" and len(e.args) == 1:
            out = []
            for s1, lst in self.comprehension_map(a0.args[0], a0.args[1], st, d):
                s1 = s1.copy(); out.append((s1, self.sum_list(s1, lst)))
            return out
        if isinstance(a0, ast.GeneratorExp) and n in ("sum", "any", "all", "list"):
            # a generator expression consumed on the spot by sum / any / all / list behaves like the list comprehension
            lc = ast.ListComp(elt=a0.elt, generators=a0.generators); ast.copy_location(lc, a0); ast.fix_missing_locations(lc)
            e2 = ast.Call(func=e.func, args=[lc] + list(e.args[1:]), keywords=e.keywords); ast.copy_location(e2, e); ast.fix_missing_locations(e2)
            if n == "list":
                return self.ev(lc, st, d)
            return self.call_idiom(e2, n, st, d)
        if n in ("any", "all") and isinstance(a0, ast.ListComp) and len(a0.generators) == 1 and not a0.generators[0].ifs and len(e.args) == 1:
            out = []
            for s1, lst in self.ev(a0, st, d):
                if lst.ty[0] != "list" or lst.ty[1] != ("bool",):
                    raise Unsupported(f"{n}() over non-boolean elements")
                s1 = s1.copy()
                nn = s1.length(lst.term, ("bool",)); el = s1.elems(lst.term, ("bool",)); i = z3.Int(fresh_name("i_" + n))
                f = z3.Exists([i], z3.And(0 <= i, i < nn, z3.Select(el, i))) if n == "any" else z3.ForAll([i], z3.Implies(z3.And(0 <= i, i < nn), z3.Select(el, i)))
                out.append((s1, V(("bool",), f)))
            return out
        if n == "sum" and isinstance(a0, ast.ListComp) and len(e.args) == 2 and isinstance(e.args[1], ast.List) and not e.args[1].elts \
                and ("sumcomp", self.current) in self.loops:
            # sum([f(x) for x in xs], []) with an effectful f: by the definition of sum and of list `+` this is
            #     acc = [];  for x in xs: acc = acc + f(x)
            # and since every intermediate `acc` is a new list nobody else holds, `acc.extend(f(x))` gives the same final list.
            # The loop is run under the LoopSpec registered for it (key ("sumcomp", <function>): the function's one such expression); the accumulator is the local `__sum_acc`.
            g = a0.generators[0]
            if len(a0.generators) != 1 or g.ifs:
                raise Unsupported("sum over a filtered / nested comprehension with effects")
            ety = getattr(self.loops[("sumcomp", self.current)], "acc_type", None)
            if ety is None:
                raise Unsupported("sum-comprehension loop spec without acc_type")
            s0 = st.copy(); s0.env = dict(s0.env)
            s0.env["__sum_acc"] = s0.new_list(ety, "sumacc")
            body = ast.Expr(value=ast.Call(func=ast.Attribute(value=ast.Name(id="__sum_acc", ctx=ast.Load()), attr="extend", ctx=ast.Load()), args=[a0.elt], keywords=[]))
            loop = ast.For(target=g.target, iter=g.iter, body=[body], orelse=[])
            ast.copy_location(loop, e); ast.fix_missing_locations(loop)
            out = []
            body._pyvc_ghost_key = "sumcomp-extend"
            for s1, kind, val in self.loops[("sumcomp", self.current)].run_for(self, loop, s0, d):
                if kind == "fall":
                    acc = s1.env["__sum_acc"]
                    s1.env = dict(s1.env); s1.env.pop("__sum_acc", None)
                    for nn in ast.walk(g.target):
                        if isinstance(nn, ast.Name) and nn.id not in st.env:
                            s1.env.pop(nn.id, None)       # comprehension variables do not leak
                    out.append((s1, acc))
                else:
                    self.escaped.append((s1, kind, val))
            return out
        if n == "sum" and isinstance(a0, ast.ListComp):
            out = []
            rest = e.args[1:]
            for s1, lst in self.ev(a0, st, d):
                if rest:
                    for s2, start in self.ev(rest[0], s1, d):
                        s2 = s2.copy(); out.append((s2, self.sum_lists(s2, lst, start)))
                else:
                    s1 = s1.copy(); out.append((s1, self.sum_list(s1, lst)))
            return out
        return None

    def bind_target(self, target, val, env):
        if isinstance(target, ast.Name):
            env[target.id] = val
        elif isinstance(target, ast.Tuple) and val.ty[0] == "tuple":
            for t, v in zip(target.elts, val.py):
                self.bind_target(t, v, env)
        else:
            raise Unsupported("comprehension target")

    def iter_view(self, st, it):
        """(length term, element-at(i) -> V, element type) of an iterable value"""
        if it.ty[0] == "opt":
            it = self.deref(it, st, "iterate")
        if it.ty[0] == "list":
            lst = it
            def at(s, i):
                s2 = s.peek()
                return s2.list_get(lst, V(("int",), i))
            return st.length(lst.term, lst.ty[1]), at, lst.ty[1]
        if it.ty[0] == "range":
            lo, hi = it.py
            return z3.If(hi - lo > 0, hi - lo, 0), (lambda s, i: V(("int",), lo + i)), ("int",)
        if it.ty[0] == "dictvalues":
            # iteration over D.values(): some fixed enumeration of the keys (keyat / idxof are mutually inverse between [0, n) and the domain);
            # the i-th value is D[keyat(i)], read in the state at hand (the loop body is expected not to write D: frame obligations check it)
            dct = it.py
            kty, vty = dct.ty[1], dct.ty[2]
            ks = sort_of(kty)
            cnt = z3.Function("dict_size_" + str(ks), z3.ArraySort(ks, z3.BoolSort()), z3.IntSort())
            dom = st.dict_dom(dct); n = cnt(dom)
            keyat = z3.Function(fresh_name("keyat"), z3.IntSort(), ks); idxof = z3.Function(fresh_name("idxof"), ks, z3.IntSort())
            i = z3.Int(fresh_name("i_dv")); k = z3.Const(fresh_name("k_dv"), ks)
            st.assume(n >= 0)
            st.assume(z3.ForAll([i], z3.Implies(z3.And(0 <= i, i < n), z3.And(z3.Select(dom, keyat(i)), idxof(keyat(i)) == i))))
            st.assume(z3.ForAll([k], z3.Implies(z3.Select(dom, k), z3.And(0 <= idxof(k), idxof(k) < n, keyat(idxof(k)) == k))))
            st.assume((n == 0) == z3.ForAll([k], z3.Not(z3.Select(dom, k))))

            def at(s, j):
                v = V(vty, z3.Select(s.dict_val(dct), keyat(j)))
                s.assume_alloc(v, s.dict_arrays(dct.ty)[1])
                return v
            return n, at, vty
        if it.ty[0] == "dictitems":
            raise Unsupported("generic iteration over dict items")
        if it.ty[0] == "dyn":
            st.oblige("json-value-is-list", dyn_is_list(it.term), "implicit")
            lst = V(("list", ("dyn",)), dyn_ref(it.term))
            return self.iter_view(st, lst)
        raise Unsupported(f"iteration over {it.ty}")

    def ev_ListComp(self, e, st, d):
        if len(e.generators) != 1:
            raise Unsupported("nested comprehension")
        g = e.generators[0]
        key = ("idiom", "listcomp", ast.unparse(e))
        if key in self.specs:
            return self.specs[key](self, e, st, d)
        if g.ifs:
            # filter comprehension over dict items handled by dedicated idioms; generic filter -> characterised by membership
            return self.comp_filter(e, g, st, d)
        out = []
        for s1, it in self.ev(g.iter, st, d):
            s1 = s1.copy()
            n, at, ety = self.iter_view(s1, it)
            i = z3.Int(fresh_name("i_lc"))
            sb = s1.peek(); sb.env = dict(s1.env)
            self.bind_target(g.target, at(sb, i), sb.env)
            sb.obl = []; sb.quiet = False; nesc = len(self.escaped)
            res = self.ev(e.elt, sb, d)
            if len(res) != 1 or len(self.escaped) != nesc:
                raise Unsupported(f"comprehension body branches: {ast.unparse(e)[:60]}")
            s2, v = res[0]
            # the element expression is evaluated once, for an arbitrary index, on a scratch state: that is only an account of the comprehension
            # when the expression has no effect on the heap (a call that writes, allocates or draws would be dropped silently)
            for hk, hv in s2.heap.items():
                if hk not in sb.heap or not sb.heap[hk].eq(hv):
                    if hk in sb.heap or not hv.eq(z3.Const("H0_" + hk, hv.sort())):
                        raise Unsupported(f"comprehension element with a heap effect ({hk}): {ast.unparse(e)[:60]}")
            # values introduced while the body was evaluated (results of contracted calls) are per-element values; this generic rule has no per-element functions for them
            _terms = [t_ for t_ in ([v.term] if getattr(v, "term", None) is not None else []) + list(s2.pc[len(s1.pc):]) if t_ is not None]
            _before = _state_consts(s1)
            _new = [n_ for n_, c_ in _uconsts(_terms).items() if n_ not in _before and "!" in n_ and not c_.eq(i)]
            if _new:
                raise Unsupported(f"comprehension element introduces per-element values ({_new[0]}): {ast.unparse(e)[:60]}")
            # obligations of the body hold for every index
            for ob in sb.obl:
                s1.oblige("forall-elem:" + ob["name"], z3.ForAll([i], z3.Implies(z3.And(0 <= i, i < n, *ob["pc"][len(s1.pc):]), ob["goal"])), ob["kind"])
            extra = s2.pc[len(s1.pc):]
            rty = v.ty if v.ty[0] != "none" else ("opt", ("real",))
            ann = getattr(self, "pending_ann", None)
            if ann and ann[0] == "list" and (v.ty[0] == "none" or ann[1][0] == "opt" or v.ty[0] == "dyn"):
                rty = ann[1]
            r = s1.new_list(rty, "comp")
            s1.set_len(r.term, n, rty)
            new = z3.FreshConst(z3.ArraySort(z3.IntSort(), sort_of(rty)), "comp_el")
            if extra:
                s1.assume(z3.ForAll([i], z3.Implies(z3.And(0 <= i, i < n), z3.And(*extra))))
            if v.ty[0] != "none":
                s1.assume(z3.ForAll([i], z3.Implies(z3.And(0 <= i, i < n), z3.Select(new, i) == coerce(v, rty))))
            s1.set_elems(r.term, rty, new)
            if rty[0] == "opt":
                nn = z3.FreshConst(z3.ArraySort(z3.IntSort(), z3.BoolSort()), "comp_none")
                flag = z3.BoolVal(True) if v.ty[0] == "none" else (v.none if v.ty[0] == "opt" else z3.BoolVal(False))
                s1.assume(z3.ForAll([i], z3.Implies(z3.And(0 <= i, i < n), z3.Select(nn, i) == flag)))
                s1.set_elems(r.term, rty, nn, "none")
            if strip_opt(rty)[0] == "ref":
                x = z3.Const(fresh_name("x_lc"), REF)
                newmem = z3.FreshConst(z3.ArraySort(REF, z3.BoolSort()), "comp_mem")
                s1.assume(z3.ForAll([x], z3.Select(newmem, x) == z3.Exists([i], z3.And(0 <= i, i < n, z3.Select(new, i) == x))))
                s1.set_mem(r.term, newmem)
            r.py = ("map", it, i, v)
            out.append((s1, r))
        return out

    def comp_filter(self, e, g, st, d):
        """[key|value for key, value in D.items() if c(key)]: a fresh list in bijection with the selected keys (Skolem functions keyof/idxof)"""
        tgt = g.target
        if isinstance(tgt, ast.Name) and isinstance(e.elt, ast.Name) and e.elt.id == tgt.id and len(g.ifs) == 1:
            return self.comp_filter_list(e, g, st, d)
        if not (isinstance(tgt, ast.Tuple) and len(tgt.elts) == 2 and all(isinstance(t, ast.Name) for t in tgt.elts) and isinstance(e.elt, ast.Name)
                and e.elt.id in (tgt.elts[0].id, tgt.elts[1].id) and len(g.ifs) == 1):
            raise Unsupported(f"filter comprehension without a registered idiom: {ast.unparse(e)[:80]}")
        out = []
        for s1, it in self.ev(g.iter, st, d):
            if it.ty[0] != "dictitems":
                raise Unsupported("filter comprehension over a non-dict")
            s1 = s1.copy(); dct = it.py
            kty, vty = dct.ty[1], dct.ty[2]
            k = z3.Const(fresh_name("k_cf"), sort_of(kty)); i = z3.Int(fresh_name("i_cf"))
            sb = s1.peek(); sb.env = dict(s1.env)
            sb.env[tgt.elts[0].id] = V(kty, k)
            sb.env[tgt.elts[1].id] = V(vty, z3.Select(s1.dict_val(dct), k))
            res = self.ev(g.ifs[0], sb, d)
            if len(res) != 1:
                raise Unsupported("filter condition branches")
            cond_k = truth(res[0][1], res[0][0])
            want_key = e.elt.id == tgt.elts[0].id
            rty = kty if want_key else vty
            r = s1.new_list(rty, "filtercomp")
            n = z3.Const(fresh_name("n_cf"), z3.IntSort()); s1.assume(n >= 0); s1.set_len(r.term, n, rty)
            keyof = z3.Function(fresh_name("keyof"), z3.IntSort(), sort_of(kty)); idxof = z3.Function(fresh_name("idxof"), sort_of(kty), z3.IntSort())
            new = z3.FreshConst(z3.ArraySort(z3.IntSort(), sort_of(rty)), "cf_el")
            sel = lambda kk: z3.And(z3.Select(s1.dict_dom(dct), kk), z3.substitute(cond_k, (k, kk)))
            elem_i = keyof(i) if want_key else z3.Select(s1.dict_val(dct), keyof(i))
            s1.assume(z3.ForAll([i], z3.Implies(z3.And(0 <= i, i < n), z3.And(sel(keyof(i)), z3.Select(new, i) == elem_i, idxof(keyof(i)) == i))))
            s1.assume(z3.ForAll([k], z3.Implies(sel(k), z3.And(0 <= idxof(k), idxof(k) < n, keyof(idxof(k)) == k))))
            s1.set_elems(r.term, rty, new)
            r.py = ("dictfilter", dct, keyof, idxof, cond_k, k, want_key)
            out.append((s1, r))
        return out

    def comp_filter_list(self, e, g, st, d):
        """[x for x in xs if c(x)] over a list of references: a fresh list; src(i) / dst(j) are Skolem functions between result and source
        positions (strictly increasing: the order of the source is kept); the result holds exactly the source elements satisfying c"""
        out = []
        for s1, it in self.ev(g.iter, st, d):
            s1 = s1.copy()
            if it.ty[0] != "list" or strip_opt(it.ty[1])[0] != "ref":
                raise Unsupported(f"filter comprehension over a non-reference list: {ast.unparse(e)[:80]}")
            ety = it.ty[1]
            n = s1.length(it.term); sel = s1.elems(it.term, ety)
            x = z3.Const(fresh_name("x_fl"), REF)
            sb = s1.peek(); sb.env = dict(s1.env); sb.env[g.target.id] = V(ety, x)
            sb.obl = []; sb.quiet = False; nesc = len(self.escaped)
            res = self.ev(g.ifs[0], sb, d)
            if len(res) != 1 or len(self.escaped) != nesc:
                raise Unsupported("filter condition branches or raises")
            c = truth(res[0][1], res[0][0])
            extra = res[0][0].pc[len(s1.pc):]
            gen = generalize_fresh(s1, x, [c] + list(extra))
            c, extra = gen[0], gen[1:]
            i, j = z3.Int(fresh_name("i_fl")), z3.Int(fresh_name("j_fl"))
            for ob in sb.obl:       # preconditions of calls in the condition hold for every element
                s1.oblige("forall-elem:" + ob["name"], z3.ForAll([j], z3.Implies(z3.And(0 <= j, j < n), z3.substitute(z3.Implies(z3.And(*ob["pc"][len(s1.pc):]), ob["goal"]), (x, z3.Select(sel, j))))), ob["kind"])
            cx = lambda t: z3.substitute(z3.And(c, *extra) if extra else c, (x, t))
            cond = lambda t: z3.substitute(c, (x, t))
            if extra:
                s1.assume(z3.ForAll([j], z3.Implies(z3.And(0 <= j, j < n), z3.substitute(z3.And(*extra), (x, z3.Select(sel, j))))))
            r = s1.new_list(ety, "filtered")
            nr = z3.Const(fresh_name("n_fl"), z3.IntSort()); s1.assume(z3.And(nr >= 0, nr <= n)); s1.set_len(r.term, nr)
            new = z3.FreshConst(z3.ArraySort(z3.IntSort(), REF), "fl_el")
            src = z3.Function(fresh_name("fl_src"), z3.IntSort(), z3.IntSort()); dst = z3.Function(fresh_name("fl_dst"), z3.IntSort(), z3.IntSort())
            s1.assume(z3.ForAll([i], z3.Implies(z3.And(0 <= i, i < nr), z3.And(0 <= src(i), src(i) < n, z3.Select(new, i) == z3.Select(sel, src(i)), cond(z3.Select(sel, src(i))), dst(src(i)) == i))))
            s1.assume(z3.ForAll([j], z3.Implies(z3.And(0 <= j, j < n, cond(z3.Select(sel, j))), z3.And(0 <= dst(j), dst(j) < nr, src(dst(j)) == j))))
            i2 = z3.Int(fresh_name("i2_fl"))
            s1.assume(z3.ForAll([i, i2], z3.Implies(z3.And(0 <= i, i < i2, i2 < nr), src(i) < src(i2))))
            s1.set_elems(r.term, ety, new)
            newmem = z3.FreshConst(z3.ArraySort(REF, z3.BoolSort()), "fl_mem")
            s1.assume(z3.ForAll([x], z3.Select(newmem, x) == z3.Exists([i], z3.And(0 <= i, i < nr, z3.Select(new, i) == x))))
            s1.set_mem(r.term, newmem)
            r.py = ("filterlist", it, src, dst)
            out.append((s1, r))
        return out

    def comprehension_map(self, lam, seq, st, d):
        comp = ast.ListComp(elt=lam.body, generators=[ast.comprehension(target=ast.Name(id=lam.args.args[0].arg, ctx=ast.Store()), iter=seq, ifs=[], is_async=0)])
        ast.copy_location(comp, lam); ast.fix_missing_locations(comp)
        return self.ev_ListComp(comp, st, d)

    def filter_list(self, lam, seq, st, d):
        """list(filter(lambda x: c(x), xs)) over a reference list: membership view; order-preserving (subsequence)"""
        out = []
        for s1, it in self.ev(seq, st, d):
            s1 = s1.copy()
            if it.ty[0] != "list" or strip_opt(it.ty[1])[0] != "ref":
                raise Unsupported("filter over non-reference list")
            x = z3.Const(fresh_name("x_flt"), REF)
            sb = s1.peek(); sb.env = dict(s1.env); sb.env[lam.args.args[0].arg] = V(it.ty[1], x)
            res = self.ev(lam.body, sb, d)
            if len(res) != 1:
                raise Unsupported("filter predicate branches")
            c = truth(res[0][1], res[0][0])
            r = s1.new_list(it.ty[1], "filtered")
            nr = z3.Const(fresh_name("n_flt"), z3.IntSort()); s1.assume(z3.And(nr >= 0, nr <= s1.length(it.term))); s1.set_len(r.term, nr)
            newmem = z3.FreshConst(z3.ArraySort(REF, z3.BoolSort()), "flt_mem")
            s1.assume(z3.ForAll([x], z3.Select(newmem, x) == z3.And(s1.mem(it.term, x), c)))
            s1.set_mem(r.term, newmem)
            r.py = ("filter", it, x, c)
            out.append((s1, r))
        return out

    # ------------------------------------------------------------------ obj.f(...)
    def call_attr(self, e, f, st, d):
        if isinstance(f.value, ast.Name) and f.value.id not in st.env:
            mod = f.value.id
            if mod == "math":
                return self.call_math(e, f.attr, st, d)
            if mod == "heapq":
                return self.call_heapq(e, f.attr, st, d)
            if mod == "warnings":
                return [(st, NONE)]
            if mod == "json" and f.attr == "dumps":
                return [(s1, V(("str",), z3.Const(fresh_name("json_text"), z3.StringSort()))) for s1, _p, _k in self.eval_args(e, st, d)]
            if mod == "random" and f.attr == "Random":
                out = []
                for s1, pos, kw in self.eval_args(e, st, d):
                    s1 = s1.copy(); r = s1.new_ref("prng")
                    s1.trace = s1.trace + [("NewRandom", r, pos[0].term if pos else None)]
                    out.append((s1, V(("ref", "Random"), r)))
                return out
            if mod in ("np", "numpy"):
                raise Unsupported("numpy expression")
            if mod == "dict" and f.attr == "fromkeys" and len(e.args) == 1:
                return self.dict_fromkeys(e, st, d)
        # super().__init__(...) / super(C, self).m(...)
        if isinstance(f.value, ast.Call) and isinstance(f.value.func, ast.Name) and f.value.func.id == "super":
            cls = self.fn_stack[-1][1] if self.fn_stack else None
            if cls is None:
                raise Unsupported("super() outside a method")
            bases = self.src.mro(cls)[1:]
            for b in bases:
                if ("m", b, f.attr) in self.specs:
                    out = []
                    for s1, pos, kw in self.eval_args(e, st, d):
                        out += self.specs[("m", b, f.attr)](self, s1.copy(), s1.env["self"], pos, kw, e)
                    return out
                if f"{b}.{f.attr}" in self.src.funcs:
                    fn = self.src.funcs[f"{b}.{f.attr}"][0]
                    out = []
                    for s1, pos, kw in self.eval_args(e, st, d):
                        out += self.call_function(fn, b, [s1.env["self"]] + pos, kw, s1, d + 1)
                    return out
            return [(st, NONE)]       # ABC / object __init__
        out = []
        for s0, recv in self.ev(f.value, st, d):
            for s1, pos, kw in self.eval_args(e, s0, d):
                out += self.call_method(recv, f.attr, pos, kw, s1.copy(), d, e)
        return out

    def dict_fromkeys(self, e, st, d):
        """dict.fromkeys(xs), used only as an iterable: its keys are the elements of xs without repetition, in first-occurrence order.
        Modelled as a fresh list of pairwise distinct elements with the same membership as xs (order of first occurrence not modelled)."""
        out = []
        self.used_assumptions.add("dict.fromkeys(xs) iterates over the distinct elements of xs (CPython dict semantics)")
        for s1, xs in self.ev(e.args[0], st, d):
            s1 = s1.copy()
            if xs.ty[0] == "opt":
                xs = self.deref(xs, s1, "fromkeys")
            if xs.ty[0] != "list" or strip_opt(xs.ty[1])[0] not in ("int", "real", "bool"):
                raise Unsupported(f"dict.fromkeys over {xs.ty}")
            ety = xs.ty[1]
            r = s1.new_list(ety, "distinct_keys")
            n = z3.Const(fresh_name("n_dk"), z3.IntSort()); nx = s1.length(xs.term, ety)
            s1.assume(z3.And(n >= 0, n <= nx, (n == 0) == (nx <= 0))); s1.set_len(r.term, n, ety)
            i, j = z3.Int(fresh_name("i_dk")), z3.Int(fresh_name("j_dk"))
            el = z3.FreshConst(z3.ArraySort(z3.IntSort(), sort_of(ety)), "dk_el"); xel = s1.elems(xs.term, ety)
            s1.set_elems(r.term, ety, el)
            if ety[0] == "opt":
                nn = z3.FreshConst(z3.ArraySort(z3.IntSort(), z3.BoolSort()), "dk_none"); xnn = s1.elems(xs.term, ety, "none")
                s1.set_elems(r.term, ety, nn, "none")
                same = lambda a_, an, b_, bn: z3.And(an == bn, z3.Or(an, a_ == b_))
                eq_ij = same(z3.Select(el, i), z3.Select(nn, i), z3.Select(el, j), z3.Select(nn, j))
                eq_ix = same(z3.Select(el, i), z3.Select(nn, i), z3.Select(xel, j), z3.Select(xnn, j))
            else:
                eq_ij = z3.Select(el, i) == z3.Select(el, j)
                eq_ix = z3.Select(el, i) == z3.Select(xel, j)
            s1.assume(z3.ForAll([i, j], z3.Implies(z3.And(0 <= i, i < j, j < n), z3.Not(eq_ij))))
            s1.assume(z3.ForAll([i], z3.Implies(z3.And(0 <= i, i < n), z3.Exists([j], z3.And(0 <= j, j < nx, eq_ix)))))
            s1.assume(z3.ForAll([j], z3.Implies(z3.And(0 <= j, j < nx), z3.Exists([i], z3.And(0 <= i, i < n, eq_ix)))))
            out.append((s1, r))
        return out

    def count_distinct_idiom(self, mapcall, st, d):
        """len(set(map(f, xs))): the number of distinct values -- characterised by: 0 <= d <= len, d == 0 iff empty, d <= 1 iff all values equal"""
        out = []
        for s1, lst in self.comprehension_map(mapcall.args[0], mapcall.args[1], st, d):
            s1 = s1.copy()
            ety = lst.ty[1]; n = s1.length(lst.term, ety)
            el = s1.elems(lst.term, ety)
            i, j = z3.Int(fresh_name("i_cd")), z3.Int(fresh_name("j_cd"))
            if ety[0] == "opt":
                nn = s1.elems(lst.term, ety, "none")
                same = z3.And(z3.Select(nn, i) == z3.Select(nn, j), z3.Or(z3.Select(nn, i), z3.Select(el, i) == z3.Select(el, j)))
            else:
                same = z3.Select(el, i) == z3.Select(el, j)
            dcount = z3.Const(fresh_name("distinct"), z3.IntSort())
            s1.assume(z3.And(dcount >= 0, dcount <= n, (dcount == 0) == (n <= 0),
                             (dcount <= 1) == z3.ForAll([i, j], z3.Implies(z3.And(0 <= i, i < n, 0 <= j, j < n), same))))
            out.append((s1, V(("int",), dcount)))
        return out

    def dict_merge_idiom(self, e, st, d):
        """dict([(key, value) for key, value in X.items() if c(key)], **Y): a fresh dict; keys of Y override:
        dom = dom(Y) U {k in dom(X) | c(k)},  val(k) = Y[k] if k in Y else X[k]"""
        comp = e.args[0]; g = comp.generators[0]
        ok = (len(comp.generators) == 1 and isinstance(comp.elt, ast.Tuple) and len(comp.elt.elts) == 2 and isinstance(g.target, ast.Tuple) and len(g.target.elts) == 2
              and all(isinstance(t, ast.Name) for t in g.target.elts) and all(isinstance(t, ast.Name) for t in comp.elt.elts)
              and [t.id for t in comp.elt.elts] == [t.id for t in g.target.elts] and len(g.ifs) <= 1
              and isinstance(g.iter, ast.Call) and isinstance(g.iter.func, ast.Attribute) and g.iter.func.attr == "items")
        if not ok:
            raise Unsupported(f"dict(...) idiom not recognised: {ast.unparse(e)[:80]}")
        out = []
        for s1, xit in self.ev(g.iter, st, d):
            for s2, y in self.ev(e.keywords[0].value, s1, d):
                s2 = s2.copy()
                x = xit.py
                if y.ty[0] == "dyn":
                    y = V(("dict", ("str",), ("dyn",)), dyn_ref(y.term))
                if x.ty[0] != "dict" or y.ty[0] != "dict" or sort_of(x.ty[1]) != sort_of(y.ty[1]):
                    raise Unsupported("dict merge over incompatible dicts")
                k = z3.Const(fresh_name("k_dm"), sort_of(x.ty[1]))
                cond = z3.BoolVal(True)
                if g.ifs:
                    sb = s2.peek(); sb.env = dict(s2.env); sb.env[g.target.elts[0].id] = V(x.ty[1], k); sb.env[g.target.elts[1].id] = V(x.ty[2], z3.Select(s2.dict_val(x), k))
                    rr = self.ev(g.ifs[0], sb, d)
                    if len(rr) != 1:
                        raise Unsupported("dict merge filter branches")
                    cond = truth(rr[0][1], rr[0][0])
                r = s2.new_dict(y.ty, "merged")
                kd, kv, kn = s2.dict_keys(y.ty)
                dd, dv = s2.dict_arrays(y.ty)
                newdom = z3.FreshConst(z3.ArraySort(sort_of(y.ty[1]), z3.BoolSort()), "dm_dom"); newval = z3.FreshConst(z3.ArraySort(sort_of(y.ty[1]), sort_of(y.ty[2])), "dm_val")
                s2.assume(z3.ForAll([k], z3.Select(newdom, k) == z3.Or(z3.Select(s2.dict_dom(y), k), z3.And(z3.Select(s2.dict_dom(x), k), cond))))
                s2.assume(z3.ForAll([k], z3.Select(newval, k) == z3.If(z3.Select(s2.dict_dom(y), k), z3.Select(s2.dict_val(y), k), z3.Select(s2.dict_val(x), k))))
                s2.heap[kd] = z3.Store(dd, r.term, newdom); s2.heap[kv] = z3.Store(dv, r.term, newval)
                out.append((s2, r))
        return out

    def call_math(self, e, name, st, d):
        out = []
        for s1, pos, kw in self.eval_args(e, st, d):
            s1 = s1.copy()
            x = to_real(self.unwrap(pos[0] if pos else list(kw.values())[0], s1))
            if name == "floor":
                k = FLOOR(x); s1.assume(z3.And(z3.ToReal(k) <= x, x < z3.ToReal(k) + 1)); out.append((s1, V(("int",), k)))
            elif name == "ceil":
                k = CEIL(x); s1.assume(z3.And(z3.ToReal(k) - 1 < x, x <= z3.ToReal(k))); out.append((s1, V(("int",), k)))
            elif name == "log":
                s1.oblige("log-of-positive", x > 0, "implicit")
                s1.assume(z3.And((LOG(x) <= 0) == (x <= 1), (LOG(x) == 0) == (x == 1)))
                out.append((s1, V(("real",), LOG(x))))
            elif name == "exp":
                s1.assume(z3.And(EXP(x) > 0, (EXP(x) > 1) == (x > 0), (EXP(x) == 1) == (x == 0)))
                out.append((s1, V(("real",), EXP(x))))
            elif name in ("isnan", "isinf"):
                out.append((s1, mkbool(False)))      # A-FINITE
                self.used_assumptions.add("A-FINITE: math.isnan/isinf are False (NaN/inf excluded by precondition)")
            elif name == "sqrt":
                s1.oblige("sqrt-of-nonnegative", x >= 0, "implicit")
                r = z3.Const(fresh_name("sqrt"), z3.RealSort()); s1.assume(z3.And(r >= 0, r * r == x)); out.append((s1, V(("real",), r)))
            else:
                raise Unsupported("math." + name)
        return out

    def call_heapq(self, e, name, st, d):
        """trusted heapq contracts over the views (DESIGN.md App. B)"""
        out = []
        self.used_assumptions.add("heapq: heappush/heappop/heapify keep the heap shape and the multiset; heappop returns index 0")
        for s1, pos, kw in self.eval_args(e, st, d):
            s1 = s1.copy(); q = pos[0]
            if q.ty[0] != "list":
                raise Unsupported("heapq on non-list")
            ety = q.ty[1]; qt = q.term
            def havoc_elems():
                k, a = s1.el_arr(ety)
                s1.heap[k] = z3.Store(a, qt, z3.FreshConst(z3.ArraySort(z3.IntSort(), sort_of(ety)), "heap_el"))
            if name == "heappop":
                s1.assume_link(qt)
                s1.oblige("heappop:heap-shape", s1.heapok(qt), "pre@lib")
                s1.oblige("heappop:non-empty", s1.length(qt) > 0, "pre@lib")
                s1.oblige("heappop:duplicate-free list (mem view)", s1.nodup(qt), "pre@lib")
                top = z3.Select(s1.elems(qt, ety), 0)
                s1.assume(s1.mem(qt, top))
                s1.set_mem(qt, z3.Store(s1.memset(qt), top, z3.BoolVal(False)))
                s1.set_len(qt, s1.length(qt) - 1)
                havoc_elems()
                v = V(ety, top); s1.assume_alloc(v)
                if ("lib", "heap-order") in self.specs:
                    self.specs[("lib", "heap-order")](self, s1, q, v, "heappop")
                out.append((s1, v))
            elif name == "heapify":
                havoc_elems(); s1.set_heapok(qt, True)
                n = s1.length(qt)
                # view link kept: q[0] is a member when non-empty
                s1.assume(z3.Implies(n > 0, s1.mem(qt, z3.Select(s1.elems(qt, ety), 0))))
                if ("lib", "heap-order") in self.specs:
                    self.specs[("lib", "heap-order")](self, s1, q, None, "heapify")
                out.append((s1, NONE))
            elif name == "heappush":
                x = pos[1]
                s1.oblige("heappush:heap-shape", s1.heapok(qt), "pre@lib")
                s1.set_nodup(qt, z3.And(s1.nodup(qt), z3.Not(s1.mem(qt, x.term))))
                s1.set_mem(qt, z3.Store(s1.memset(qt), x.term, z3.BoolVal(True)))
                s1.set_len(qt, s1.length(qt) + 1)
                havoc_elems()
                s1.assume(s1.mem(qt, z3.Select(s1.elems(qt, ety), 0)))
                if ("lib", "heap-order") in self.specs:
                    self.specs[("lib", "heap-order")](self, s1, q, None, "heappush")
                out.append((s1, NONE))
            else:
                raise Unsupported("heapq." + name)
        return out

    # ------------------------------------------------------------------ methods
    def call_method(self, recv, name, pos, kw, st, d, node):
        if recv.ty[0] == "opt":
            recv = self.deref(recv, st, "call")
        k = recv.ty[0]
        if k == "list":
            return self.list_method(recv, name, pos, kw, st, d, node)
        if k == "dict":
            return self.dict_method(recv, name, pos, kw, st, d, node)
        if k == "dyn":
            if name in ("copy", "items", "keys", "values", "pop", "get"):
                st.oblige("json-value-is-dict", dyn_is_dict(recv.term), "implicit")
                return self.dict_method(V(("dict", ("str",), ("dyn",)), dyn_ref(recv.term)), name, pos, kw, st, d, node)
            raise Unsupported(f"method {name} on JSON value")
        if k == "func":
            raise Unsupported("method on function")
        if k != "ref":
            raise Unsupported(f"method {name} on {recv.ty} (line {getattr(node, 'lineno', '?')})")
        cls = recv.ty[1]
        for c in self.src.mro(cls):
            if ("m", c, name) in self.specs:
                return self.specs[("m", c, name)](self, st, recv, pos, kw, node)
        if cls == "Random":
            return self.random_method(recv, name, pos, kw, st, node)
        c, fn = self.src.method(cls, name)
        if fn is None:
            # bound function stored in a field?
            raise Unsupported(f"no method {cls}.{name} (line {getattr(node, 'lineno', '?')})")
        if d >= self.max_inline:
            raise Unsupported(f"inline depth at {cls}.{name}")
        return self.call_function(fn, c, [recv] + pos, kw, st, d + 1)

    def random_method(self, recv, name, pos, kw, st, node):
        self.used_assumptions.add("random.Random: random() in [0,1); randint(a,b) in [a,b]; sample(xs,len(xs)) is a permutation; gauss/uniform/choices fresh values")
        if name == "random":
            u = z3.Const(fresh_name("u"), z3.RealSort()); st.assume(z3.And(0 <= u, u < 1))
            st.trace = st.trace + [("Draw", None, (recv.term, u))]
            return [(st, V(("real",), u))]
        if name in ("gauss", "normalvariate", "expovariate"):
            g = z3.Const(fresh_name(name), z3.RealSort())
            st.trace = st.trace + [("Draw", None, (recv.term, g))]
            return [(st, V(("real",), g))]
        st.trace = st.trace + [("Draw", None, (recv.term,))]
        if name == "randint":
            a, b = self.as_int(pos[0], st).term, self.as_int(pos[1], st).term
            n = z3.Const(fresh_name("randint"), z3.IntSort()); st.assume(z3.And(a <= n, n <= b)); return [(st, V(("int",), n))]
        if name == "uniform":
            a, b = to_real(pos[0]), to_real(pos[1])
            u = z3.Const(fresh_name("unif"), z3.RealSort())
            st.assume(z3.Or(z3.And(a <= u, u <= b), z3.And(b <= u, u <= a))); return [(st, V(("real",), u))]
        if name in ("gauss", "normalvariate", "expovariate"):
            g = z3.Const(fresh_name(name), z3.RealSort()); return [(st, V(("real",), g))]
        if name == "sample":
            xs = pos[0]; k = self.as_int(pos[1], st).term
            if xs.ty[0] != "list":
                raise Unsupported("sample of non-list")
            st.oblige("sample:k==len", k == st.length(xs.term, xs.ty[1]), "pre@lib")
            ety = xs.ty[1]
            r = st.new_list(ety, "perm")
            n = st.length(xs.term, ety); st.set_len(r.term, n, ety)
            # permutation: bijection sigma on [0,n)
            sig = z3.Function(fresh_name("sigma"), z3.IntSort(), z3.IntSort()); inv = z3.Function(fresh_name("sigma_inv"), z3.IntSort(), z3.IntSort())
            i = z3.Int(fresh_name("i_perm"))
            new = z3.FreshConst(z3.ArraySort(z3.IntSort(), sort_of(ety)), "perm_el")
            st.assume(z3.ForAll([i], z3.Implies(z3.And(0 <= i, i < n), z3.And(0 <= sig(i), sig(i) < n, inv(sig(i)) == i, z3.Select(new, i) == z3.Select(st.elems(xs.term, ety), sig(i))))))
            st.assume(z3.ForAll([i], z3.Implies(z3.And(0 <= i, i < n), z3.And(0 <= inv(i), inv(i) < n, sig(inv(i)) == i))))
            st.set_elems(r.term, ety, new)
            if strip_opt(ety)[0] in ("ref", "list"):
                st.set_mem(r.term, st.memset(xs.term))
            r.py = ("perm", xs, sig, inv)
            return [(st, r)]
        if name == "choices":
            xs = pos[0]
            if xs.ty[0] != "list":
                raise Unsupported("choices of non-list")
            ety = xs.ty[1]; n = st.length(xs.term, ety)
            st.oblige("choices:non-empty", n > 0, "pre@lib")
            j = z3.Const(fresh_name("choice_idx"), z3.IntSort()); st.assume(z3.And(0 <= j, j < n))
            r = st.new_list(ety, "choices"); st.set_len(r.term, z3.IntVal(1), ety)
            s2 = st.peek(); el = s2.list_get(xs, V(("int",), j))
            st.list_set(r, mkint(0), el, check=False)
            if strip_opt(ety)[0] == "ref":
                # the membership view of the one-element result (without it the view axioms of real lists - non-empty <=> has a member - contradict the length 1)
                st.set_mem(r.term, z3.Store(z3.K(REF, z3.BoolVal(False)), el.term, z3.BoolVal(True))); st.set_nodup(r.term, True)
            r.py = ("choice", xs, j)
            return [(st, r)]
        raise Unsupported("Random." + name)

    def list_method(self, recv, name, pos, kw, st, d, node):
        ety = recv.ty[1]; r = recv.term
        isref = strip_opt(ety)[0] in ("ref",)
        if name == "append":
            n = st.length(r, ety)
            st.assume(n >= 0)          # a fact about every real list
            st.set_len(r, n + 1, ety)
            v = pos[0]
            if ety[0] == "dyn" and v.ty[0] != "dyn":
                # untyped fresh list: adopt the element type of the first append (lists created by `[]` without annotation)
                raise Unsupported("append to an untyped list (annotate the list)")
            if v.ty[0] == "tuple":
                for j, comp in enumerate(v.py):
                    try:
                        srt = sort_of(comp.ty)
                    except Unsupported:
                        continue       # components without a first-order value (bound methods, literal dicts) are visible only to ghost hooks
                    g = st.gh(f"tup{j}:{srt}", lambda c=comp: z3.ArraySort(REF, z3.ArraySort(z3.IntSort(), sort_of(c.ty))))
                    st.set_gh(f"tup{j}:{srt}", z3.Store(g, r, z3.Store(z3.Select(g, r), n, comp.term)))
                if ("hook", "tuple-append", self.current) in self.specs:
                    self.specs[("hook", "tuple-append", self.current)](self, st, recv, n, v)
                return [(st, NONE)]
            st.list_set(recv, V(("int",), n), v, check=False)
            if isref:
                st.set_nodup(r, z3.And(st.nodup(r), z3.Not(st.mem(r, v.term))))
                st.set_mem(r, z3.Store(st.memset(r), v.term, z3.BoolVal(True)))
                st.set_heapok(r, z3.FreshConst(z3.BoolSort(), "heapok_app"))
            if ("hook", "append", self.current) in self.specs:
                self.specs[("hook", "append", self.current)](self, st, recv, n, v)
            return [(st, NONE)]
        if name == "extend":
            other = pos[0]
            res = self.list_concat(st, recv, other, "ext")
            # in-place: copy views of the concatenation onto the receiver
            st.set_len(r, st.length(res.term, ety), ety)
            for part in (("val", "none") if ety[0] == "opt" else ("val",)):
                st.set_elems(r, ety, st.elems(res.term, ety, part), part)
            if isref:
                st.set_mem(r, st.memset(res.term))
            return [(st, NONE)]
        if name == "remove":
            x = pos[0]
            if not isref:
                if x.ty[0] == "none" and ety[0] == "opt":
                    # keys.remove(None): length - 1, contents otherwise abstracted
                    st.set_len(r, st.length(r, ety) - 1, ety)
                    k, a = st.el_arr(ety); st.heap[k] = z3.Store(a, r, z3.FreshConst(z3.ArraySort(z3.IntSort(), sort_of(ety)), "rm_el"))
                    return [(st, NONE)]
                raise Unsupported("remove on a non-reference list")
            st.contains_note = True
            self.contains(st, recv, x, d)      # records the eq-identity assumption where relevant
            st.oblige("list.remove:element-present", st.mem(r, x.term), "pre@lib")
            st.oblige("list.remove:duplicate-free list (mem view)", st.nodup(r), "pre@lib")
            st.set_mem(r, z3.Store(st.memset(r), x.term, z3.BoolVal(False)))
            st.set_len(r, st.length(r) - 1)
            k, a = st.el_arr(ety); st.heap[k] = z3.Store(a, r, z3.FreshConst(z3.ArraySort(z3.IntSort(), sort_of(ety)), "rm_el"))
            st.set_heapok(r, z3.FreshConst(z3.BoolSort(), "heapok_rm"))
            return [(st, NONE)]
        if name == "index":
            x = pos[0]
            if isref:
                st.oblige("list.index:element-present", st.mem(r, x.term), "pre@lib")
                j = z3.Const(fresh_name("idx"), z3.IntSort())
                st.assume(z3.And(0 <= j, j < st.length(r), z3.Select(st.elems(r, ety), j) == x.term))
                return [(st, V(("int",), j))]
            j = z3.Const(fresh_name("idx"), z3.IntSort())
            st.oblige("list.index:element-present", self.contains(st, recv, x, d), "pre@lib")
            st.assume(z3.And(0 <= j, j < st.length(r, ety), z3.Select(st.elems(r, ety), j) == x.term))
            return [(st, V(("int",), j))]
        if name == "copy":
            return [(st, self.list_concat(st, recv, st.new_list(ety), "copy"))]
        if name in ("sort", "insert", "pop"):
            raise Unsupported(f"list.{name}")
        raise Unsupported(f"list.{name}")

    def dict_method(self, recv, name, pos, kw, st, d, node):
        if name == "values":
            return [(st, V(("dictvalues", recv.ty), recv.term, py=recv))]
        if name == "keys":
            return [(st, V(("dictkeys", recv.ty), recv.term, py=recv))]
        if name == "items":
            return [(st, V(("dictitems", recv.ty), recv.term, py=recv))]
        if name == "copy":
            r = st.new_dict(recv.ty, "dictcopy")
            kd, kv, kn = st.dict_keys(recv.ty)
            d_, v_ = st.dict_arrays(recv.ty)
            st.heap[kd] = z3.Store(d_, r.term, z3.Select(d_, recv.term))
            st.heap[kv] = z3.Store(v_, r.term, z3.Select(v_, recv.term))
            if kn in st.heap:
                st.heap[kn] = z3.Store(st.heap[kn], r.term, z3.Select(st.heap[kn], recv.term))
            return [(st, r)]
        if name == "pop":
            key = pos[0]
            if len(pos) == 1:
                v = st.dict_get(recv, key)           # KeyError obligation
                st.dict_del(recv, key, check=False)
                return [(st, v)]
            raise Unsupported("dict.pop with default")
        if name == "get":
            # d.get(k[, default]): two paths, present / absent
            key = pos[0]
            dflt = pos[1] if len(pos) > 1 else kw.get("default", NONE)
            has = st.dict_has(recv, key)
            out = []
            s_in = st.copy(); s_in.assume_branch(has) if hasattr(s_in, "assume_branch") else s_in.assume(has)
            if feasible(s_in.pc):
                out.append((s_in, s_in.dict_get(recv, key, check=False)))
            s_out = st.copy(); s_out.assume_branch(z3.Not(has)) if hasattr(s_out, "assume_branch") else s_out.assume(z3.Not(has))
            if feasible(s_out.pc):
                out.append((s_out, dflt))
            return out
        if name == "setdefault" and len(pos) == 2:
            key, dflt = pos
            has = st.dict_has(recv, key)
            out = []
            s_in = st.copy(); s_in.assume_branch(has)
            if feasible(s_in.pc):
                out.append((s_in, s_in.dict_get(recv, key, check=False)))
            s_out = st.copy(); s_out.assume_branch(z3.Not(has))
            if feasible(s_out.pc):
                dflt = self.retype_fresh_list(dflt, recv.ty[2], s_out)
                s_out.dict_set(recv, key, dflt)
                out.append((s_out, dflt))
            return out
        raise Unsupported(f"dict.{name}")

    # ------------------------------------------------------------------ construction
    def construct(self, clsv, pos, kw, st, d, node):
        cname = clsv.py
        if cname is None:
            if ("ctor", "*") in self.specs:
                return self.specs[("ctor", "*")](self, st, clsv, pos, kw, node)
            raise Unsupported("construction through a symbolic class without a contract")
        if cname in EXC_NAMES:
            return [(st, V(("exc", cname)))]
        for c in self.src.mro(cname):
            if ("ctor", c) in self.specs:
                return self.specs[("ctor", c)](self, st, V(("class",), None, py=cname), pos, kw, node)
        c, fn = self.src.method(cname, "__init__")
        st = st.copy()
        r = V(("ref", cname), st.new_ref(cname.lower()))
        for sup in self.src.mro(cname):
            st.assume(is_instance(sup, r.term))
        if fn is None:
            return [(st, r)]
        if d >= self.max_inline:
            raise Unsupported(f"inline depth at {cname}.__init__")
        out = []
        for s1, _ in self.call_function(fn, c, [r] + pos, kw, st, d + 1):
            out.append((s1, r))
        return out

    # ------------------------------------------------------------------ inlining
    def call_closure(self, fv, pos, kw, st, d):
        kind = fv.py[0]
        if kind == "lambda":
            _, lam, cenv = fv.py
            env = dict(cenv)
            for a, v in zip(lam.args.args, pos):
                env[a.arg] = v
            s0 = st.copy(); saved = s0.env; s0.env = env
            out = []
            for s1, v in self.ev(lam.body, s0, d + 1):
                s1.env = saved; out.append((s1, v))
            return out
        if kind == "def":
            _, fn, cenv = fv.py
            return self.call_function(fn, None, pos, kw, st, d + 1, closure_env=cenv)
        raise Unsupported("closure kind")

    def call_function(self, fn, cls, pos, kw, st, d, closure_env=None):
        params = [a.arg for a in fn.args.args]
        env = dict(closure_env) if closure_env else {}
        for p, v in zip(params, pos):
            env[p] = v
        if len(pos) > len(params) and fn.args.vararg is None:
            raise Unsupported(f"too many positional args for {fn.name}")
        for k, v in kw.items():
            if k in params:
                env[k] = v
            elif fn.args.kwarg is None:
                raise Unsupported(f"unexpected keyword {k} for {fn.name}")
        if fn.args.vararg is not None:
            env[fn.args.vararg.arg] = V(("pylist",), py=list(pos[len(params):]))
        if fn.args.kwarg is not None:
            env[fn.args.kwarg.arg] = V(("kwdict",), py={k: v for k, v in kw.items() if k not in params})
        ndef = len(fn.args.defaults)
        for p, dflt in zip(params[len(params) - ndef:], fn.args.defaults):
            if p not in env:
                env[p] = self.ev(dflt, State(), d)[0][1]
        missing = [p for p in params if p not in env]
        if missing:
            raise Unsupported(f"missing args {missing} for {fn.name}")
        # Optional-typed parameters: wrap plain values so `is None` tests work on them uniformly
        ann = {a.arg: parse_type(a.annotation) for a in fn.args.args if a.annotation is not None}
        for p, t in ann.items():
            v = env.get(p)
            if v is not None and t and t[0] == "opt" and v.ty[0] not in ("opt", "none", "dyn") and v.term is not None and t[1][0] == v.ty[0]:
                env[p] = V(("opt", v.ty), v.term, none=z3.BoolVal(False), py=v.py)
            elif v is not None and t and t[0] == "opt" and v.ty[0] == "none":
                try:
                    env[p] = V(t, z3.FreshConst(sort_of(t), "none_" + p), none=z3.BoolVal(True))
                except Unsupported:
                    pass
        s0 = st.copy(); saved = s0.env; s0.env = env
        self.fn_stack.append((fn.name, cls, fn))
        if len(self.fn_stack) > 12:
            raise Unsupported("inline recursion")
        out = []
        try:
            for s1, kind, val in self.run(fn.body, s0, d):
                s1.env = saved
                if kind in ("return", "fall"):
                    out.append((s1, val if kind == "return" else NONE))
                elif kind == "raise":
                    self.escaped.append((s1, kind, val))
                else:
                    raise Unsupported(f"{kind} escaping function {fn.name}")
        finally:
            self.fn_stack.pop()
        return out
