"""pyvc -- a small contract-based deductive verifier for the Python subset used by masanorihirano/pams.

The verified text is the source under $PAMS_REPO (default /repo), re-read with `ast` on every run.
See /verif/DESIGN.md section 2 for the encoding and its assumptions.
"""
