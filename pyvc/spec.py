"""Contracts: function specs (verified once, used at call sites), loop specs, and the task registry."""
import ast
import z3

from .core import *   # noqa
from .src import get_src, parse_type
from .symex import Exec as _ExecBase
from .symex_calls import CallsMixin
from .symex_stmts import StmtsMixin, loops_in_order, assigned_names


class Executor(CallsMixin, StmtsMixin, _ExecBase):
    pass


def ref_indexed(arr):
    return arr.sort().kind() == z3.Z3_ARRAY_SORT and arr.sort().domain() == REF


def frame_formula(alloc0, old, new, idxs):
    """forall r allocated before and not among idxs: new[r] == old[r]"""
    r = z3.Const(fresh_name("r_fr"), REF)
    guard = [z3.Select(alloc0, r)] + [r != i for i in idxs]
    return z3.ForAll([r], z3.Implies(z3.And(*guard), z3.Select(new, r) == z3.Select(old, r)))


def norm_modifies(mods):
    """-> dict key -> None (whole map) | list of index terms"""
    out = {}
    for m in mods or ():
        if isinstance(m, str):
            out[m] = None
        else:
            key, idxs = m
            if key in out and out[key] is None:
                continue
            out.setdefault(key, [])
            out[key] = out[key] + list(idxs)
    return out


def expand_keys(st, key):
    """a field key names both parts (value and none-flag)"""
    ks = [key]
    if key.startswith("f:") and not key.endswith("?"):
        cls, field = key[2:].split(".")
        if field_type(cls, field)[0] == "opt":
            ks.append(key + "?")
    if key.startswith("el:") and not key.endswith("?"):
        ks.append(key + "?")          # lists of Optional[number]: the none-flags are part of the element view
    if key.startswith("dv:") and not key.endswith("?"):
        ks.append(key + "?")
    return ks


def expanded_modifies(st, mods):
    """heap map name -> None (whole map) | list of index terms; a key that names a value map also names its none-flag map; several entries for one map add up"""
    out = {}
    for key, idxs in norm_modifies(mods).items():
        for k in expand_keys(st, key):
            if k in out and out[k] is None:
                continue
            out[k] = None if idxs is None else (out.get(k) or []) + list(idxs)
    return out


def touch(st, k):
    """make sure the heap map named k exists in st.heap"""
    if k in st.heap:
        return True
    if k.startswith("f:"):
        cls, field = k[2:].rstrip("?").split(".")
        st.farr(cls, field, "none" if k.endswith("?") else "val")
        return True
    if k in ("len", "mem", "heapok", "alloc", "nodup"):
        {"len": st.len_arr, "mem": st.mem_arr, "heapok": st.heapok_arr, "alloc": st.alloc_arr, "nodup": st.nodup_arr}[k]()
        return True
    if k.startswith("g:"):
        return False          # a ghost map that nobody has read or written yet has no sort; nothing can depend on it
    # list / dict view maps are created lazily; a modifies clause naming one that this path has not touched yet must still
    # havoc it (skipping it would keep the canonical entry constant, i.e. silently treat the map as unchanged)
    srt = _kind_sort
    if k.startswith("len:"):
        st.harr(k, lambda: z3.ArraySort(REF, z3.IntSort()))
        return True
    if k.startswith("el:"):
        kind = k[3:].rstrip("?")
        st.harr(k, lambda: z3.ArraySort(REF, z3.ArraySort(z3.IntSort(), z3.BoolSort() if k.endswith("?") else srt(kind))))
        return True
    if k.startswith("dd:") or k.startswith("dv:"):
        kk, vk = k[3:].rstrip("?").split("_", 1)
        if k.startswith("dd:") or k.endswith("?"):
            st.harr(k, lambda: z3.ArraySort(REF, z3.ArraySort(srt(kk), z3.BoolSort())))
        else:
            st.harr(k, lambda: z3.ArraySort(REF, z3.ArraySort(srt(kk), srt(vk))))
        return True
    raise Unsupported(f"modifies clause names an unknown heap map `{k}`")


def _kind_sort(kind):
    from .core import DYN, OptInt
    table = {"Int": z3.IntSort(), "Real": z3.RealSort(), "Bool": z3.BoolSort(), "String": z3.StringSort(), "Ref": REF, "Dyn": DYN, "OptInt": OptInt}
    if kind in table:
        return table[kind]
    from .core import KIND_SORTS
    if kind in KIND_SORTS:
        return KIND_SORTS[kind]
    raise Unsupported(f"modifies clause names a heap map of unknown element kind `{kind}`")


def havoc_with_frame(st, mods, allow_fresh=True, alloc_base=None):
    """havoc the heap maps named in `mods`; index-restricted entries keep everything else (at previously allocated refs;
    `alloc_base` = allocation map relative to which `previously` is meant, default: now)"""
    mods = expanded_modifies(st, mods)
    alloc0 = alloc_base if alloc_base is not None else st.alloc_arr()
    for k, idxs in mods.items():
        if True:
            if not touch(st, k):
                continue
            old = st.heap[k]
            new = z3.FreshConst(old.sort(), "hv_" + k.replace(":", "_").replace("?", "n").replace(".", "_"))
            if idxs is not None and ref_indexed(old):
                st.assume(frame_formula(alloc0, old, new, idxs))
            st.heap[k] = new
    # allocation only grows
    new_alloc = z3.FreshConst(alloc0.sort(), "hv_alloc")
    r = z3.Const(fresh_name("r_al"), REF)
    st.assume(z3.ForAll([r], z3.Implies(z3.Select(alloc0, r), z3.Select(new_alloc, r))))
    st.heap["alloc"] = new_alloc
    return alloc0


def frame_obligations(st0_heap, alloc0, st, mods, prefix):
    """after executing a body: every heap map differs from its entry value only where `mods` allows (checked on refs allocated at entry)"""
    if any(m == "*" for m in mods):
        return          # no frame claimed: such a contract may be verified but not used at call sites (handler() refuses it)
    allowed = expanded_modifies(st, mods)
    for k, new in st.heap.items():
        if k == "alloc" or k.startswith("g:"):
            continue
        old = st0_heap.get(k)
        if old is None:
            old = z3.Const("H0_" + k, new.sort())
        if old.eq(new):
            continue
        if k in allowed and allowed[k] is None:
            continue
        if not ref_indexed(new):
            st.oblige(f"{prefix}frame:{k}", new == old, "frame")
            continue
        st.oblige(f"{prefix}frame:{k}", frame_formula(alloc0, old, new, allowed.get(k) or []), "frame")


def cover(st, what):
    """reachability canary: an obligation `False` under the path condition reached here.  Canaries of one group are satisfied when at
    least ONE of them cannot be proved (some path of the group is reachable); a group whose members are all provable means the
    hypotheses collected on every such path are contradictory, i.e. everything `proved` below them is vacuous."""
    grp = "/".join(st.labels) + "/cover:" + what
    st.obl.append({"name": grp, "pc": list(st.pc), "goal": z3.BoolVal(False), "kind": "canary", "expect": "fail", "group": grp})


class FSpec:
    """contract of one real function. pre/post return lists of (label, formula)."""

    def __init__(self, qual, pre=None, post=None, modifies=None, raises=None, result=None, param_types=None, fresh_result=False,
                 effect=None, props=(), may_raise_unspecified=False, axioms=None, trace=None):
        self.axioms = axioms or (lambda st, a: [])
        self.trace = trace            # trace(st0, st1, a, res) -> events appended by one call
        self.may_raise = {}           # exc -> condition under which raising is permitted but not required
        self.qual = qual
        self.pre = pre or (lambda st, a: [])
        self.post = post or (lambda st0, st1, a, res: [])
        self.modifies = modifies or (lambda st, a: [])
        self.raises = raises or {}
        self.result = result
        self.param_types = param_types or {}
        self.fresh_result = fresh_result
        self.effect = effect
        self.props = props
        src = get_src()
        if qual not in src.funcs:
            raise Unsupported(f"anchor-lost: function {qual} not found in {src.repo}")
        self.fn = src.funcs[qual][0]
        self.cls = qual.split(".")[0] if "." in qual else None

    # ---- parameters
    def param_names(self):
        return [a.arg for a in self.fn.args.args]

    def param_type(self, p):
        if p in self.param_types:
            return self.param_types[p]
        if p == "self":
            return ("ref", self.cls)
        for a in self.fn.args.args:
            if a.arg == p and a.annotation is not None:
                return parse_type(a.annotation)
        raise Unsupported(f"no type for parameter {p} of {self.qual}")

    def result_type(self):
        if self.result is not None and not callable(self.result):
            return self.result
        if self.fn.returns is not None:
            return parse_type(self.fn.returns)
        return ("none",)

    def symbolic_args(self, st):
        a = {}
        for p in self.param_names():
            ty = self.param_type(p)
            if ty[0] == "opt":
                v = V(ty, z3.Const("arg_" + p, sort_of(ty)), none=z3.Bool("arg_" + p + "?"))
            elif ty[0] in ("func",):
                v = V(ty, None)
            else:
                v = V(ty, z3.Const("arg_" + p, sort_of(ty)))
            st.assume_alloc(v)
            a[p] = v
        return a

    def bind(self, ex, recv, pos, kw):
        names = self.param_names()
        a = {}
        vals = ([recv] if recv is not None and names and names[0] == "self" else []) + list(pos)
        for p, v in zip(names, vals):
            a[p] = v
        for k, v in kw.items():
            a[k] = v
        ndef = len(self.fn.args.defaults)
        for p, dflt in zip(names[len(names) - ndef:], self.fn.args.defaults):
            if p not in a:
                a[p] = ex.ev(dflt, State(), 0)[0][1]
        # normalise to the declared Optional view
        for p in names:
            if p not in a:
                raise Unsupported(f"missing argument {p} in call to {self.qual}")
            ty = self.param_type(p)
            v = a[p]
            if ty[0] == "opt" and v.ty[0] == "none":
                a[p] = V(ty, z3.FreshConst(sort_of(ty), "none_" + p), none=z3.BoolVal(True))
            elif ty[0] == "opt" and v.ty[0] != "opt" and v.term is not None:
                a[p] = V(ty, coerce(v, ty[1]), none=z3.BoolVal(False), py=v.py)
            elif ty[0] in ("int", "real", "bool") and v.ty[0] in ("int", "real", "bool", "dyn") and v.ty != ty:
                a[p] = V(ty, coerce(v, ty))
        return a

    # ---- use at a call site
    def handler(self):
        def h(ex, st, recv, pos, kw, node):
            return self.apply(ex, st, recv, pos, kw, node)
        return h

    def apply(self, ex, st, recv, pos, kw, node):
        a = self.bind(ex, recv, pos, kw)
        st0 = st.copy()
        sp = st0.peek()
        for label, f in self.pre(sp, a):
            st.oblige(f"pre@{self.qual}:{label}", f, "pre@callsite")
        for f in self.axioms(st0.peek(), a):
            st.assume(f)
        out = []
        # raising exits permitted by the contract
        for exc, cond in list(self.raises.items()) + list(self.may_raise.items()):
            c = cond(st0.peek(), a)
            sr = st.copy(); sr.assume(c)
            if feasible(sr.pc):
                ex.escaped.append((sr, "raise", (exc, f"in {self.qual}")))
        st1 = st.copy()
        for exc, cond in self.raises.items():
            st1.assume(z3.Not(cond(st0.peek(), a)))
        mods = self.modifies(st0.peek(), a)
        if any(m == "*" for m in mods):
            raise Unsupported(f"contract of {self.qual} claims no frame and cannot be used at a call site")
        if mods or self.fresh_result:
            havoc_with_frame(st1, mods)
        rty = self.result_type()
        if callable(self.result):
            res = self.result(st1, a)
        elif rty[0] == "none":
            res = NONE
        elif self.fresh_result:
            res = V(rty, st1.new_ref("res_" + self.qual.split(".")[-1]))
        else:
            res = fresh(rty, "res_" + self.qual.split(".")[-1])
            st1.assume_alloc(res)
        for f in self.axioms(st1.peek(), a):
            st1.assume(f)
        for label, f in self.post(st0.peek(), st1.peek(), a, res):
            st1.assume(f)
        if self.effect:
            self.effect(st0, st1, a, res)
        states = [st1]
        if self.trace:
            append_events(states, self.trace(st0.peek(), st1.peek(), a, res))
        for sx in states:
            out.append((sx, res))
        return out

    # ---- verification of the function body against the contract
    def verify(self, specs=None, loops=None, setup=None, max_inline=5, extra_goals=None, allow_escape_states=False):
        """returns (obligations, info)"""
        ex = Executor(specs=dict(specs or {}), loops={}, max_inline=max_inline, current=self.qual)
        attach_loops(self.qual, self.fn, loops or {}, ex)
        st = State()
        st.labels = [self.qual]
        a = self.symbolic_args(st)
        st.env = dict(a)
        if self.fn.args.vararg is not None:      # the function under contract is verified for calls without extra arguments
            st.env[self.fn.args.vararg.arg] = V(("pylist",), py=[])
        if self.fn.args.kwarg is not None:
            st.env[self.fn.args.kwarg.arg] = V(("kwdict",), py={})
        for label, f in self.pre(st.peek(), a):
            st.assume(f)
        for f in self.axioms(st.peek(), a):
            st.assume(f)
        if setup:
            setup(ex, st, a)
        st0 = st.copy()
        ex.fn_entry = st0
        alloc0 = st0.alloc_arr()
        st.obl.append({"name": f"{self.qual}/canary:precondition-not-contradictory", "pc": list(st.pc), "goal": z3.BoolVal(False), "kind": "canary", "expect": "fail"})
        ex.fn_stack.append((self.fn.name, self.cls, self.fn))
        outs = ex.run(self.fn.body, st)
        ex.fn_stack.pop()
        n_paths = 0
        mods = self.modifies(st0.peek(), a)
        for s1, kind, val in outs + ex.escaped:
            n_paths += 1
            if kind == "raise":
                exc = val[0]
                if exc in self.raises or exc in self.may_raise:
                    conds = [d[exc](st0.peek(), a) for d in (self.raises, self.may_raise) if exc in d]
                    s1.oblige(f"raises:{exc}-only-when-allowed", z3.Or(*conds), "raises")
                else:
                    s1.oblige(f"no-raise:{exc}@{val[1]}", z3.BoolVal(False), "no-raise")
                continue
            if kind not in ("return", "fall"):
                raise Unsupported(f"{kind} escapes {self.qual}")
            res = val if kind == "return" else NONE
            for f in self.axioms(s1.peek(), a):
                s1.assume(f)
            cover(s1, "some path reaches a normal exit")
            for exc, cond in self.raises.items():
                s1.oblige(f"raises:{exc}-whenever-required", z3.Not(cond(st0.peek(), a)), "raises")
            for label, f in self.post(st0.peek(), s1.peek(), a, res):
                s1.oblige(f"post:{label}", f, "post")
            frame_obligations(st0.heap, alloc0, s1, mods, "")
            if self.trace:
                match_trace(s1, s1.trace[len(st0.trace):], self.trace(st0.peek(), s1.peek(), a, res), self.qual)
            if extra_goals:
                extra_goals(ex, st0, s1, a, res)
        info = {"paths": n_paths, "assumptions": sorted(ex.used_assumptions), "function": self.qual,
                "source_sha": get_src().source_hash(self.qual), "where": get_src().where(self.qual)}
        return st.obl, info


def attach_loops(qual, fn, loops, ex):
    """loops: {ordinal: LoopSpec}. Anchors are (function, ordinal in source order) and, if given, the header text."""
    nodes = loops_in_order(fn)
    for ordn, spec in loops.items():
        if isinstance(ordn, tuple):
            # a loop that is not a statement: ("sumcomp",) = the function's one sum([f(x) for x in xs], []), read as an accumulation loop
            hits = [n for n in ast.walk(fn) if isinstance(n, ast.Call) and isinstance(n.func, ast.Name) and n.func.id == "sum" and len(n.args) == 2 and isinstance(n.args[0], ast.ListComp)]
            if len(hits) != 1:
                raise Unsupported(f"anchor-lost: {qual} has {len(hits)} expressions sum([...], start), contract expects one")
            if spec.header is not None and ast.unparse(hits[0].args[0].generators[0].iter) != spec.header:
                raise Unsupported(f"anchor-lost: the comprehension of {qual} iterates over `{ast.unparse(hits[0].args[0].generators[0].iter)}`, contract expects `{spec.header}`")
            ex.loops[("sumcomp", qual)] = spec
            continue
        if ordn >= len(nodes):
            raise Unsupported(f"anchor-lost: loop #{ordn} of {qual} not found")
        node = nodes[ordn]
        head = ast.unparse(node.iter) if isinstance(node, ast.For) else ast.unparse(node.test)
        if spec.header is not None and spec.header != head:
            raise Unsupported(f"anchor-lost: loop #{ordn} of {qual} has header `{head}`, contract expects `{spec.header}`")
        node._pyvc_key = (qual, ordn)
        ex.loops[(qual, ordn)] = spec


class LoopSpec:
    """inv(st, ctx) -> [(label, formula)];  ctx = {'i': index term (for-loops), 'n': length term, 'entry': state at loop entry, 'at': element view}
       modifies: heap keys (or (key, idxs)) the body may change; locals are found syntactically."""

    def __init__(self, inv, modifies=(), decreases=None, header=None, name="loop", on_exit=None, on_iter=None, hide_after=False, keep_locals=(), frame_since_entry=False):
        self.frame_since_entry = frame_since_entry    # index-restricted modifies are meant relative to the objects that existed at FUNCTION entry
        self.inv, self.modifies, self.decreases, self.header, self.name = inv, modifies, decreases, header, name
        self.on_exit = on_exit        # on_exit(ex, st, ctx): ghost code / cut at loop exit (may oblige + assume)
        self.on_iter = on_iter        # on_iter(ex, st, ctx): ghost code at the start of an iteration
        self.keep_locals = keep_locals

    def _havoc_locals(self, ex, body, st, extra=()):
        for nme in sorted(assigned_names(body) | set(extra)):
            if nme in self.keep_locals:
                continue
            v = st.env.get(nme)
            if v is None:
                continue
            if v.ty[0] in ("tuple", "func", "class", "pylist", "kwdict", "range", "dictvalues", "dictitems", "dictkeys", "none", "exc"):
                if v.ty[0] == "none":
                    raise Unsupported(f"loop-carried local {nme} has static type None; annotate it")
                continue
            nv = fresh(v.ty, nme)
            st.assume_alloc(nv)
            st.env[nme] = nv

    def run_for(self, ex, s, st, d):
        out = []
        for s1, it in ex.ev(s.iter, st, d):
            s1 = s1.copy()
            n, at, ety = ex.iter_view(s1, it)
            entry = s1.copy()
            ctx = {"i": z3.IntVal(0), "n": n, "entry": entry, "at": at, "iter": it, "fn_entry": getattr(ex, "fn_entry", None)}
            s1.labels = s1.labels + [self.name]
            for label, f in self.inv(s1.peek(), ctx):
                s1.oblige(f"inv-init:{label}", f, "inv-init")
            h = s1.copy()
            mods = self.modifies(entry.peek(), ctx) if callable(self.modifies) else self.modifies
            base = ctx["fn_entry"].alloc_arr() if (self.frame_since_entry and ctx.get("fn_entry") is not None) else None
            alloc0 = havoc_with_frame(h, mods, alloc_base=base)
            tnames = [nn.id for nn in ast.walk(s.target) if isinstance(nn, ast.Name)]
            self._havoc_locals(ex, s.body, h, ())
            i = z3.Const(fresh_name("i_" + self.name), z3.IntSort())
            hctx = dict(ctx); hctx["i"] = i
            h.assume(z3.And(0 <= i, i <= n))
            for label, f in self.inv(h.peek(), hctx):
                h.assume(f)
            # one iteration
            hb = h.copy(); hb.assume(i < n)
            for tn in tnames:
                hb.env.pop(tn, None)
            hb2 = hb.peek()
            elem = at(hb2, i)
            hb.assume_alloc(elem)
            ex.bind_target(s.target, elem, hb.env)
            if self.on_iter:
                self.on_iter(ex, hb, hctx)
            body_heap0 = dict(hb.heap); body_alloc0 = base if base is not None else hb.alloc_arr()
            nctx = dict(ctx); nctx["i"] = i + 1
            for s2, kind, val in ex.run(s.body, hb, d):
                if kind in ("fall", "continue"):
                    cover(s2, "some path reaches the end of the loop body")
                    for label, f in self.inv(s2.peek(), nctx):
                        s2.oblige(f"inv-step:{label}", f, "inv-step")
                    frame_obligations(body_heap0, body_alloc0, s2, mods, "loop-")
                elif kind == "break":
                    s2.labels = s2.labels[:-1]
                    bctx = dict(hctx); bctx["broke"] = True
                    if self.on_exit:
                        self.on_exit(ex, s2, bctx)
                    out.append((s2, "fall", None))
                else:
                    s2.labels = s2.labels[:-1]
                    out.append((s2, kind, val))
            # exit by exhaustion
            he = h.copy(); he.assume(i == n)
            he.labels = he.labels[:-1]
            ectx = dict(hctx); ectx["broke"] = False
            if self.on_exit:
                he.labels = he.labels + [self.name]
                self.on_exit(ex, he, ectx)
                he.labels = he.labels[:-1]
            if feasible(he.pc):
                out.append((he, "fall", None))
        return out

    def run_while(self, ex, s, st, d):
        out = []
        s1 = st.copy()
        entry = s1.copy()
        ctx = {"entry": entry, "fn_entry": getattr(ex, "fn_entry", None)}
        s1.labels = s1.labels + [self.name]
        for label, f in self.inv(s1.peek(), ctx):
            s1.oblige(f"inv-init:{label}", f, "inv-init")
        h = s1.copy()
        mods = self.modifies(entry.peek(), ctx) if callable(self.modifies) else self.modifies
        base = ctx["fn_entry"].alloc_arr() if (self.frame_since_entry and ctx.get("fn_entry") is not None) else None
        havoc_with_frame(h, mods, alloc_base=base)
        self._havoc_locals(ex, s.body, h)
        for label, f in self.inv(h.peek(), ctx):
            h.assume(f)
        for hs, c in ex.ev(s.test, h, d):
            t = truth(c, hs)
            hb = hs.copy(); hb.assume(t)
            if feasible(hb.pc):
                dec0 = self.decreases(hb.peek(), ctx) if self.decreases else None
                body_heap0 = dict(hb.heap); body_alloc0 = base if base is not None else hb.alloc_arr()
                if self.on_iter:
                    self.on_iter(ex, hb, ctx)
                for s2, kind, val in ex.run(s.body, hb, d):
                    if kind in ("fall", "continue"):
                        cover(s2, "some path reaches the end of the loop body")
                        for label, f in self.inv(s2.peek(), ctx):
                            s2.oblige(f"inv-step:{label}", f, "inv-step")
                        if dec0 is not None:
                            dec1 = self.decreases(s2.peek(), ctx)
                            s2.oblige("decreases", z3.And(dec1 < dec0, dec0 >= 0), "decreases")
                        frame_obligations(body_heap0, body_alloc0, s2, mods, "loop-")
                    elif kind == "break":
                        s2.labels = s2.labels[:-1]
                        if self.on_exit:
                            s2.labels = s2.labels + [self.name]
                            self.on_exit(ex, s2, dict(ctx, broke=True))
                            s2.labels = s2.labels[:-1]
                        out.append((s2, "fall", None))
                    else:
                        s2.labels = s2.labels[:-1]
                        out.append((s2, kind, val))
            he = hs.copy(); he.assume(z3.Not(t))
            if feasible(he.pc):
                he.labels = he.labels[:-1]
                if self.on_exit:
                    he.labels = he.labels + [self.name]
                    self.on_exit(ex, he, dict(ctx, broke=False))
                    he.labels = he.labels[:-1]
                out.append((he, "fall", None))
        return out


# ----------------------------------------------------------------------------- task registry
TASKS = {}


class Task:
    def __init__(self, tid, props, build, functions=(), doc="", replay=None, heavy=False):
        self.id, self.props, self.build, self.functions, self.doc, self.replay, self.heavy = tid, tuple(props), build, tuple(functions), doc, replay, heavy


def task(tid, props, functions=(), replay=None, heavy=False):
    def deco(fn):
        def build():
            WF_FACTS.clear()
            r = fn()
            facts = list(WF_FACTS.values())
            if facts:
                for o in r["obligations"]:
                    if o.get("kind") == "pin":
                        continue
                    have = {c.get_id() for c in o["pc"]}
                    o["pc"] = list(o["pc"]) + [c for c in facts if c.get_id() not in have]
            return r
        build.__doc__ = fn.__doc__
        TASKS[tid] = Task(tid, props, build, functions, fn.__doc__ or "", replay, heavy)
        return fn
    return deco


def goal(obl, name, pc, formula, kind="lemma"):
    obl.append({"name": name, "pc": list(pc), "goal": formula, "kind": kind})


def eval_call(ex, st, recv, name, pos, kw=None):
    """call a real method symbolically and fold the paths into one formula: (bool formula of the result, [(state, exc)] raising paths)"""
    nesc = len(ex.escaped)
    base = len(st.pc)
    outs = ex.call_method(recv, name, list(pos), dict(kw or {}), st.copy(), 0, None)
    parts = [z3.And(*s.pc[base:], truth(v, s)) for s, v in outs]
    raises = [(s, val) for s, kind, val in ex.escaped[nesc:]]
    del ex.escaped[nesc:]
    return (z3.Or(*parts) if parts else z3.BoolVal(False)), raises


def pin(obl, qual, expected, what):
    """obligation: the (docstring-free) AST of `qual` is the one a trusted summary was written for"""
    import ast as _ast, hashlib
    src = get_src()
    fn = src.funcs[qual][0]
    body = [s for s in fn.body if not (isinstance(s, _ast.Expr) and isinstance(s.value, _ast.Constant) and isinstance(s.value.value, str))]
    h = hashlib.sha256("\n".join(_ast.unparse(s) for s in body).encode()).hexdigest()[:12]
    obl.append({"name": f"{qual}/pin:{what}", "pc": [], "goal": z3.BoolVal(h == expected), "kind": "pin", "hints": {"actual": h, "expected": expected}})
    return h


# ----------------------------------------------------------------------------- ghost event traces (DESIGN App. C)
ELEM = z3.Const("ELEM", REF)          # canonical element of a for-each template


def event(kind, *args, guard=None):
    return (kind, guard, tuple(a.term if isinstance(a, V) else a for a in args))


def implied(pc, f):
    s = z3.Solver(); s.set("rlimit", 3000000)
    memo = {}
    s.add(*[c for c in pc if not has_quant(c, memo)]); s.add(z3.Not(f))
    return s.check() == z3.unsat


def append_events(states, events):
    """append (possibly guarded) events to each state, splitting a state when a guard is undetermined on its path"""
    for ev in events:
        kind, g, args = ev
        if g is None:
            for s in states:
                s.trace = s.trace + [(kind, None, args)]
            continue
        nxt = []
        for s in states:
            if implied(s.pc, g):
                s.trace = s.trace + [(kind, None, args)]; nxt.append(s)
            elif implied(s.pc, z3.Not(g)):
                nxt.append(s)
            else:
                sa = s.copy(); sa.assume(g); sa.trace = sa.trace + [(kind, None, args)]
                sb = s.copy(); sb.assume(z3.Not(g))
                nxt += [sa, sb]
        states[:] = nxt
    return states


def emit(kind, result=None, fresh_result=False, with_recv=True):
    """contract of a callback / announced call that is visible only through the ghost trace: appends `kind(recv, args..., result)`"""
    def h(ex, st, recv, pos, kw, node):
        args = ([recv] if (with_recv and recv is not None) else []) + list(pos) + [kw[k] for k in kw]
        st = st.copy()
        if result is None:
            res = NONE
        elif fresh_result:
            res = V(result, st.new_ref("res_" + kind))
        else:
            res = fresh(result, "res_" + kind); st.assume_alloc(res)
        targs = [a.term for a in args if a.term is not None] + ([res.term] if result is not None else [])
        st.trace = st.trace + [(kind, None, tuple(targs))]
        return [(st, res)]
    return h


def match_trace(st, actual, expected, label):
    """obligations: on this path the trace suffix `actual` is exactly `expected` (guards resolved against the path condition)"""
    exp = []
    for kind, g, args in expected:
        if g is None or implied(st.pc, g):
            exp.append((kind, args))
        elif implied(st.pc, z3.Not(g)):
            continue
        else:
            st.oblige(f"trace:{label}: guard of {kind} decided on every path", z3.Or(g, z3.Not(g)) if False else z3.BoolVal(False), "trace")
            return
    act = [(k, a) for k, g, a in actual]
    shape_ok = len(act) == len(exp) and all(x[0] == y[0] and len(x[1]) == len(y[1]) for x, y in zip(act, exp))
    if not shape_ok:
        st.oblige(f"trace:{label}: events are exactly {[k for k, _ in exp]} (got {[k for k, _ in act]})", z3.BoolVal(False), "trace")
        return
    eqs = []
    for (k, aa), (_, ea) in zip(act, exp):
        for x, y in zip(aa, ea):
            if y is None:                                          # wildcard in the expected event
                continue
            if isinstance(x, tuple) or isinstance(y, tuple):      # for-each template
                if not (isinstance(x, tuple) and isinstance(y, tuple)) or [t[0] for t in x] != [t[0] for t in y]:
                    st.oblige(f"trace:{label}: for-each body pattern of {k}", z3.BoolVal(False), "trace"); return
                for (k1, g1, a1), (k2, g2, a2) in zip(x, y):
                    if len(a1) != len(a2):
                        st.oblige(f"trace:{label}: for-each body pattern of {k}", z3.BoolVal(False), "trace"); return
                    eqs += [p == q for p, q in zip(a1, a2) if q is not None]
                    if (g1 is None) != (g2 is None):
                        eqs.append((g1 if g1 is not None else z3.BoolVal(True)) == (g2 if g2 is not None else z3.BoolVal(True)))
                    elif g1 is not None:
                        eqs.append(g1 == g2)
            else:
                eqs.append(x == y)
    st.oblige(f"trace:{label}: events {[k for k, _ in exp]} with the right arguments", z3.And(*eqs) if eqs else z3.BoolVal(True), "trace")


class ForEachTrace:
    """for-each fragment: `for x in xs: BODY` where BODY has no heap effect of its own and no break/continue/return;
    summarised as one event ForEach(xs, template) -- the for-each rule gives: BODY's events once per element, in order."""

    def __init__(self, header=None, name="foreach", elem_facts=None, elem_type=None, modifies=()):
        self.header, self.name, self.elem_facts, self.elem_type = header, name, elem_facts, elem_type
        self.modifies = list(modifies)      # heap maps the body may change (through callee contracts); havocked after the loop

    def run_for(self, ex, s, st, d):
        import ast as _ast
        for nn in _ast.walk(s):
            if isinstance(nn, (_ast.Break, _ast.Continue, _ast.Return)):
                raise Unsupported(f"loop `{self.name}` is not in the for-each fragment (break/continue/return)")
        out = []
        for s1, it in ex.ev(s.iter, st, d):
            s1 = s1.copy()
            n, at, ety = ex.iter_view(s1, it)
            ety = self.elem_type or ety
            if strip_opt(ety)[0] != "ref":
                raise Unsupported("for-each template over non-reference elements")
            sb = s1.copy(); sb.trace = []
            elem = V(ety, ELEM)
            sb.assume(sb.is_alloc(ELEM))
            if self.elem_facts:
                for f in self.elem_facts(sb.peek(), elem, it):
                    sb.assume(f)
            ex.bind_target(s.target, elem, sb.env)
            base = len(sb.pc); heap0 = dict(sb.heap); nbr = len(sb.branches)
            template = []
            body_outs = ex.run(s.body, sb, d)
            single = len([1 for _s, kk, _v in body_outs if kk == "fall"]) == 1
            for s2, kind, val in body_outs:
                if kind != "fall":
                    out.append((s2, kind, val)) if kind == "raise" else None
                    if kind != "raise":
                        raise Unsupported("for-each body leaves the loop")
                    continue
                s2.labels = s2.labels + [self.name]
                cover(s2, "some path reaches the end of the for-each body")
                s2.labels = s2.labels[:-1]
                allowed = set()
                for mk in self.modifies:
                    allowed |= {mk, mk + "?"}
                for k, v in s2.heap.items():
                    untouched = (k in heap0 and heap0[k].eq(v)) or (k not in heap0 and z3.is_const(v) and v.decl().name() == "H0_" + k)
                    if k != "alloc" and not untouched and not k.startswith("g:") and k not in allowed:
                        raise Unsupported(f"for-each body of `{self.name}` has a heap effect on {k}; use an invariant")
                qf = [c for c in s2.branches[nbr:] if not has_quant(c)]
                g = z3.And(*qf) if (qf and not single) else None
                for k_, g_, a_ in s2.trace:
                    gg = g if g_ is None else (z3.And(g, g_) if g is not None else g_)
                    template.append((k_, gg, a_))
            seq_term = it.term if it.term is not None else z3.IntVal(-1)
            s1.trace = s1.trace + [("ForEach", None, (seq_term, tuple(template)))]
            if self.modifies:
                havoc_with_frame(s1, self.modifies)
            # loop-carried locals assigned in the body are unknown afterwards
            for nme in assigned_names(s.body):
                v = s1.env.get(nme)
                if v is not None and v.term is not None and v.ty[0] in ("ref", "int", "real", "bool", "opt"):
                    s1.env[nme] = fresh(v.ty, nme)
            out.append((s1, "fall", None))
        return out


class GuardedSingleton:
    """`for m in D.values(): if m == X: BODY` (D a dict whose values are pairwise distinct -- stated assumption):
    BODY runs once with m := X if X is a value of D, otherwise the loop does nothing. The loop shape is checked on the AST."""

    def __init__(self, header=None, name="guarded-singleton"):
        self.header, self.name = header, name

    def run_for(self, ex, s, st, d):
        import ast as _ast
        ok = (len(s.body) == 1 and isinstance(s.body[0], _ast.If) and not s.body[0].orelse and isinstance(s.body[0].test, _ast.Compare)
              and len(s.body[0].test.ops) == 1 and isinstance(s.body[0].test.ops[0], _ast.Eq) and isinstance(s.target, _ast.Name) and not s.orelse)
        other = None
        if ok:
            # the loop variable may stand on either side of `==` (the compared objects do not define __eq__: identity, symmetric)
            lft, rgt = s.body[0].test.left, s.body[0].test.comparators[0]
            if isinstance(lft, _ast.Name) and lft.id == s.target.id:
                other = rgt
            elif isinstance(rgt, _ast.Name) and rgt.id == s.target.id:
                other = lft
            ok = other is not None and not any(isinstance(nn, _ast.Name) and nn.id == s.target.id for nn in _ast.walk(other))
        if not ok:
            raise Unsupported(f"anchor-lost: loop `{self.name}` is no longer of the shape `for m in D.values(): if m == X: BODY`")
        for nn in _ast.walk(s):
            if isinstance(nn, (_ast.Break, _ast.Continue, _ast.Return)):
                raise Unsupported(f"loop `{self.name}`: break/continue/return in a guarded-singleton loop")
        ex.used_assumptions.add("values of a name->market dict are pairwise distinct (market names are unique), so `for m in D.values(): if m == X` runs its body at most once")
        out = []
        for s1, it in ex.ev(s.iter, st, d):
            if it.ty[0] != "dictvalues":
                raise Unsupported("guarded-singleton loop over a non-dict")
            for s2, x in ex.ev(other, s1, d):
                isval = ex.contains(s2, it, x, d)
                sa = s2.copy(); sa.assume(isval)
                if feasible(sa.pc):
                    sa.env[s.target.id] = V(x.ty, x.term)
                    out += ex.run(s.body[0].body, sa, d)
                sb = s2.copy(); sb.assume(z3.Not(isval))
                if feasible(sb.pc):
                    out.append((sb, "fall", None))
        return out


# ----------------------------------------------------------------------------- verifying a block of a function (loop bodies under the for-each rule)
def find_loops(fn, target_name=None, kind=None):
    import ast as _ast
    out = []
    for n in loops_in_order(fn):
        if kind and not isinstance(n, kind):
            continue
        if target_name and not (isinstance(n, _ast.For) and isinstance(n.target, _ast.Name) and n.target.id == target_name):
            continue
        out.append(n)
    return out


def run_block(qual, stmts, env, specs=None, loops=None, setup=None, assume=None, label=None, max_inline=5):
    """symbolically execute a statement list taken from the real AST of `qual` in a symbolic environment.
    Returns (executor, entry state, [(state, kind, value)] including raising paths)."""
    src = get_src()
    fn = src.funcs[qual][0]
    cls = qual.split(".")[0] if "." in qual else None
    ex = Executor(specs=dict(specs or {}), loops={}, max_inline=max_inline, current=qual)
    if loops:
        nodes = loops_in_order(fn)
        for node, spec in loops:
            node._pyvc_key = (qual, id(node))
            ex.loops[(qual, id(node))] = spec
    st = State(); st.labels = [label or qual]
    st.env = dict(env)
    for v in env.values():
        if isinstance(v, V):
            st.assume_alloc(v)
    for f in (assume(st.peek()) if assume else []):
        st.assume(f)
    if setup:
        setup(ex, st)
    st0 = st.copy()
    ex.fn_entry = st0
    ex.fn_stack.append((fn.name, cls, fn))
    outs = ex.run(stmts, st)
    ex.fn_stack.pop()
    return ex, st0, outs + ex.escaped, st.obl
