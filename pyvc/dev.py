"""developer driver: python3-vt -m pyvc.dev <task-id-substring> [...]   -- runs tasks and prints obligation verdicts"""
import importlib
import os
import pkgutil
import sys
import time
import traceback

sys.setrecursionlimit(20000)


def load_specs():
    import specs
    for m in pkgutil.iter_modules(specs.__path__):
        importlib.import_module("specs." + m.name)


def main():
    from pyvc.spec import TASKS
    from pyvc import solve
    from pyvc.core import Unsupported, FEAS_STATS
    load_specs()
    pats = sys.argv[1:]
    verbose = os.environ.get("V") == "1"
    for tid, t in TASKS.items():
        if pats and not any(p in tid for p in pats):
            continue
        t0 = time.time()
        try:
            r = t.build()
        except Unsupported as e:
            print(f"[UNSUPPORTED] {tid}: {e}")
            if verbose:
                traceback.print_exc()
            continue
        except Exception as e:     # noqa
            print(f"[ERROR] {tid}: {type(e).__name__}: {e}"); traceback.print_exc(); continue
        obl = r["obligations"]
        t1 = time.time()
        res = solve.discharge_all(obl)
        groups = {}
        for x in res:
            g = obl[x["idx"]].get("group")
            if g:
                groups.setdefault(g, []).append(x["verdict"] != "proved")
        okgrp = {g for g, v in groups.items() if any(v)}
        bad = [x for x in res if (x["verdict"] != "proved") != (obl[x["idx"]].get("expect") == "fail") and obl[x["idx"]].get("group") not in okgrp]
        by = {}
        for x in res:
            by[x["backend"]] = by.get(x["backend"], 0) + 1
        print(f"[{'OK ' if not bad else 'RED'}] {tid}: {len(obl)} obligations, {len(bad)} not as expected; symex {t1 - t0:.1f}s solve {time.time() - t1:.1f}s; backends {by}; paths {[i.get('paths') for i in r['info']]}")
        seen = set()
        for x in bad:
            if x["name"] in seen and not verbose:
                continue
            seen.add(x["name"])
            print("     -", x["verdict"], x["name"], x["backend"], x["reason"] or "", (x["model"] or "")[:300].replace("\n", " ") if verbose else "")
        if verbose:
            slow = sorted(res, key=lambda x: -x["time"])[:5]
            print("     slowest:", [(x["name"][-50:], x["time"], x["backend"], x.get("trail")) for x in slow])
            for i in r["info"]:
                print("     assumptions:", i.get("assumptions"))


if __name__ == "__main__":
    main()
