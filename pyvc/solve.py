"""Discharging obligations: z3 (rlimit budget) -> purified z3 -> cvc5 on the SMT-LIB export -> z3 with other seeds.
Obligations live in this process; a fork pool solves them by index (z3 terms are not picklable)."""
import multiprocessing as mp
import os
import subprocess
import tempfile
import time

import z3

from .purify import purify

OBLIGATIONS = []      # filled before the pool is forked

RLIMIT_1 = int(os.environ.get("PYVC_RLIMIT1", "12000000"))
RLIMIT_2 = int(os.environ.get("PYVC_RLIMIT2", "36000000"))
WALL_MS = int(os.environ.get("PYVC_WALL_MS", "90000"))
CVC5_S = int(os.environ.get("PYVC_CVC5_S", "30"))


def _mk_solver(rlimit, seed=None):
    s = z3.Solver()
    s.set("rlimit", rlimit)
    s.set("timeout", WALL_MS)
    if seed is not None:
        s.set("random_seed", seed)
    return s


def _query(ob):
    return list(ob["pc"]) + [z3.Not(ob["goal"])]


def cvc5_check(smt2_text, seconds):
    with tempfile.NamedTemporaryFile("w", suffix=".smt2", delete=False, dir=os.environ.get("PYVC_TMP") or None) as f:
        f.write("(set-logic ALL)\n" + smt2_text)
        fn = f.name
    try:
        p = subprocess.run(["cvc5", f"--tlimit={seconds * 1000}", "--strings-exp", fn], capture_output=True, text=True, timeout=seconds + 20)
        out = (p.stdout or "").strip().splitlines()
        return out[0] if out else "error"
    except Exception as e:      # noqa
        return "error"
    finally:
        try:
            os.unlink(fn)
        except OSError:
            pass


def symbols(e, memo):
    """names of the uninterpreted constants / functions occurring in a term"""
    i = e.get_id()
    if i in memo:
        return memo[i]
    out = set()
    if z3.is_quantifier(e):
        out |= symbols(e.body(), memo)
    elif z3.is_app(e):
        d = e.decl()
        if d.kind() == z3.Z3_OP_UNINTERPRETED:
            out.add(d.name())
        for c in e.children():
            out |= symbols(c, memo)
    memo[i] = out
    return out


def _has_quant(e, memo):
    i = e.get_id()
    if i not in memo:
        memo[i] = z3.is_quantifier(e) or any(_has_quant(c, memo) for c in e.children())
    return memo[i]


def hypothesis_levels(pc, goal):
    """increasing hypothesis sets (dropping hypotheses is sound for `unsat`): quantifier-free only; + quantified hypotheses that share
    a symbol with the goal; + one more round of sharing; everything"""
    sm, qm = {}, {}
    qf = [c for c in pc if not _has_quant(c, qm)]
    qs = [c for c in pc if _has_quant(c, qm)]
    if not qs:
        return [list(pc)]
    levels = [qf]
    rel = set(symbols(goal, sm))
    chosen = []
    remaining = list(qs)
    for _ in range(2):
        add = [c for c in remaining if symbols(c, sm) & rel]
        if not add:
            break
        chosen += add
        remaining = [c for c in remaining if not any(c is a for a in add)]
        for c in add:
            rel |= symbols(c, sm)
        levels.append(qf + list(chosen))
        if not remaining:
            break
    if remaining:
        levels.append(list(pc))
    return levels


def solve_one(idx):
    ob = OBLIGATIONS[idx]
    t0 = time.time()
    res = {"idx": idx, "name": ob["name"], "kind": ob.get("kind", "check"), "verdict": "unknown", "backend": None, "model": None, "reason": None}
    expect_fail = ob.get("expect") == "fail"     # canaries / cover checks: must NOT be provable
    neg = z3.Not(ob["goal"])
    try:
        if expect_fail:
            s = _mk_solver(min(RLIMIT_1, 4000000)); s.add(*ob["pc"]); s.add(neg)
            r = s.check()
            res.update(verdict={z3.unsat: "proved", z3.sat: "failed"}.get(r, "unknown"), backend="z3")
            res["time"] = round(time.time() - t0, 3)
            return res
        levels = hypothesis_levels(ob["pc"], ob["goal"])
        small = max(RLIMIT_1 // 4, 1000000)
        last = None
        trail = []

        def attempt(hyps, rlimit, backend, purified=False, seed=None, want_model=False):
            nonlocal last
            s = _mk_solver(rlimit, seed)
            fs = list(hyps) + [neg]
            s.add(*(purify(fs) if purified else fs))
            t1 = time.time(); r = s.check(); trail.append((backend, str(r), round(time.time() - t1, 2)))
            if not purified:
                last = s
            if r == z3.unsat:
                res.update(verdict="proved", backend=backend); return True
            if r == z3.sat and want_model:
                res.update(verdict="failed", backend=backend, model=str(s.model())[:6000]); return True
            if want_model:
                res["reason"] = s.reason_unknown()
            return False
        done = False
        for li, hyps in enumerate(levels[:-1]):
            if attempt(hyps, small, f"z3-relevance{li}"):
                done = True; break
            if li == 0 and attempt(hyps, small, "z3-purified-qf", purified=True):
                done = True; break
        if not done:
            done = attempt(levels[-1], RLIMIT_1, "z3", want_model=True)
        if not done and ob.get("unfinished"):
            done = True       # declared unfinished proof: tried with the plain ladder only
        if not done and z3.is_false(ob["goal"]):
            done = True       # a structurally false goal (e.g. trace shape mismatch) on a path the solver cannot refute: no point in the rest of the ladder
        if not done:
            out = cvc5_check(last.to_smt2(), CVC5_S)
            trail.append(("cvc5", out, None))
            if out.startswith("unsat"):
                res.update(verdict="proved", backend="cvc5"); done = True
            else:
                res["reason"] = (res["reason"] or "") + f"; cvc5: {out}"
        if not done:
            done = attempt(levels[-1], RLIMIT_1, "z3-purified", purified=True)
        if not done:
            done = attempt(levels[-1], RLIMIT_2, "z3-seed7", seed=7, want_model=True)
        res["trail"] = trail
        if res["verdict"] != "proved" and ob.get("region") is not None:
            # known-finding support: is the obligation discharged once the recorded failing region is excluded?
            s4 = _mk_solver(RLIMIT_1); s4.add(*ob["pc"]); s4.add(*ob["region"]); s4.add(neg)
            res["proved_outside_region"] = s4.check() == z3.unsat
    except Exception as e:      # noqa
        import traceback
        res.update(verdict="error", reason=f"{type(e).__name__}: {e} | " + traceback.format_exc()[-900:].replace("\n", " / "))
    res["time"] = round(time.time() - t0, 3)
    return res


def model_values(idx, terms):
    """re-solve obligation idx in-process and evaluate `terms` (dict name -> z3 term) in the counter-model"""
    ob = OBLIGATIONS[idx]
    s = _mk_solver(RLIMIT_1)
    s.add(*_query(ob))
    for extra in ob.get("model_hints", []):
        s.add(extra)
    if s.check() != z3.sat:
        return None
    m = s.model()
    out = {}
    for k, t in terms.items():
        try:
            v = m.eval(t, model_completion=True)
            out[k] = _pyval(v)
        except Exception:
            out[k] = None
    return out


def _pyval(v):
    if z3.is_int_value(v):
        return v.as_long()
    if z3.is_rational_value(v):
        return v.numerator_as_long() / v.denominator_as_long()
    if z3.is_true(v):
        return True
    if z3.is_false(v):
        return False
    if z3.is_string_value(v):
        return v.as_string()
    if z3.is_algebraic_value(v):
        return float(v.approx(10).as_decimal(10).rstrip("?"))
    return str(v)


def discharge_all(obligations, workers=None):
    """solve all obligations with a fork pool; returns list of result dicts (same order)"""
    global OBLIGATIONS
    OBLIGATIONS = obligations
    n = len(obligations)
    if n == 0:
        return []
    workers = workers or int(os.environ.get("PYVC_WORKERS", str(os.cpu_count() or 4)))
    workers = max(1, min(workers, n))
    if workers == 1:
        return [solve_one(i) for i in range(n)]
    ctx = mp.get_context("fork")
    with ctx.Pool(workers) as pool:
        res = pool.map(solve_one, range(n), chunksize=1)
    return res
