"""Discharging obligations: z3 (rlimit budget) -> purified z3 -> cvc5 on the SMT-LIB export -> z3 with other seeds.
Obligations live in this process; a fork pool solves them by index (z3 terms are not picklable)."""
import multiprocessing as mp
import os
import subprocess
import tempfile
import time

import z3

from .purify import purify

OBLIGATIONS = []      # filled before the pool is forked

RLIMIT_1 = int(os.environ.get("PYVC_RLIMIT1", "12000000"))
RLIMIT_2 = int(os.environ.get("PYVC_RLIMIT2", "36000000"))
WALL_MS = int(os.environ.get("PYVC_WALL_MS", "240000"))
CVC5_S = int(os.environ.get("PYVC_CVC5_S", "30"))


def _mk_solver(rlimit, seed=None):
    s = z3.Solver()
    s.set("rlimit", rlimit)
    s.set("timeout", WALL_MS)
    if seed is not None:
        s.set("random_seed", seed)
    return s


def _query(ob):
    return list(ob["pc"]) + [z3.Not(ob["goal"])]


def cvc5_check(smt2_text, seconds):
    with tempfile.NamedTemporaryFile("w", suffix=".smt2", delete=False, dir=os.environ.get("PYVC_TMP") or None) as f:
        f.write("(set-logic ALL)\n" + smt2_text)
        fn = f.name
    try:
        p = subprocess.run(["cvc5", f"--tlimit={seconds * 1000}", "--strings-exp", fn], capture_output=True, text=True, timeout=seconds + 20)
        out = (p.stdout or "").strip().splitlines()
        return out[0] if out else "error"
    except Exception as e:      # noqa
        return "error"
    finally:
        try:
            os.unlink(fn)
        except OSError:
            pass


def solve_one(idx):
    ob = OBLIGATIONS[idx]
    t0 = time.time()
    q = _query(ob)
    res = {"idx": idx, "name": ob["name"], "kind": ob.get("kind", "check"), "verdict": "unknown", "backend": None, "model": None, "reason": None}
    expect_fail = ob.get("expect") == "fail"     # canaries / cover checks: must NOT be provable
    try:
        s = _mk_solver(RLIMIT_1 if not expect_fail else min(RLIMIT_1, 4000000))
        s.add(*q)
        r = s.check()
        if r == z3.unsat:
            res.update(verdict="proved", backend="z3")
        elif r == z3.sat:
            m = s.model()
            res.update(verdict="failed", backend="z3", model=str(m)[:6000])
            res["model_obj_idx"] = idx
        else:
            res["reason"] = s.reason_unknown()
            if expect_fail:
                pass
            else:
                # 2. purified query
                s2 = _mk_solver(RLIMIT_1)
                s2.add(*purify(q))
                if s2.check() == z3.unsat:
                    res.update(verdict="proved", backend="z3-purified")
                else:
                    # 3. cvc5
                    out = cvc5_check(s.to_smt2(), CVC5_S)
                    if out.startswith("unsat"):
                        res.update(verdict="proved", backend="cvc5")
                    else:
                        res["reason"] = (res["reason"] or "") + f"; cvc5: {out}"
                        # 4. other seeds, larger budget
                        for seed in (7,):
                            s3 = _mk_solver(RLIMIT_2, seed)
                            s3.add(*q)
                            r3 = s3.check()
                            if r3 == z3.unsat:
                                res.update(verdict="proved", backend=f"z3-seed{seed}")
                                break
                            if r3 == z3.sat:
                                res.update(verdict="failed", backend=f"z3-seed{seed}", model=str(s3.model())[:6000])
                                break
    except Exception as e:      # noqa
        res.update(verdict="error", reason=f"{type(e).__name__}: {e}")
    res["time"] = round(time.time() - t0, 3)
    return res


def model_values(idx, terms):
    """re-solve obligation idx in-process and evaluate `terms` (dict name -> z3 term) in the counter-model"""
    ob = OBLIGATIONS[idx]
    s = _mk_solver(RLIMIT_1)
    s.add(*_query(ob))
    for extra in ob.get("model_hints", []):
        s.add(extra)
    if s.check() != z3.sat:
        return None
    m = s.model()
    out = {}
    for k, t in terms.items():
        try:
            v = m.eval(t, model_completion=True)
            out[k] = _pyval(v)
        except Exception:
            out[k] = None
    return out


def _pyval(v):
    if z3.is_int_value(v):
        return v.as_long()
    if z3.is_rational_value(v):
        return v.numerator_as_long() / v.denominator_as_long()
    if z3.is_true(v):
        return True
    if z3.is_false(v):
        return False
    if z3.is_string_value(v):
        return v.as_string()
    if z3.is_algebraic_value(v):
        return float(v.approx(10).as_decimal(10).rstrip("?"))
    return str(v)


def discharge_all(obligations, workers=None):
    """solve all obligations with a fork pool; returns list of result dicts (same order)"""
    global OBLIGATIONS
    OBLIGATIONS = obligations
    n = len(obligations)
    if n == 0:
        return []
    workers = workers or int(os.environ.get("PYVC_WORKERS", str(os.cpu_count() or 4)))
    workers = max(1, min(workers, n))
    if workers == 1:
        return [solve_one(i) for i in range(n)]
    ctx = mp.get_context("fork")
    with ctx.Pool(workers) as pool:
        res = pool.map(solve_one, range(n), chunksize=1)
    return res
