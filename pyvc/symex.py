"""Symbolic executor / VC generator over the real AST of pams functions (part 1: expressions)."""
import ast
import z3

from .core import *   # noqa
from .core import _fresh
from .src import get_src, parse_type


def to_load(t):
    return ast.parse(ast.unparse(t), mode="eval").body


EXC_NAMES = ("AssertionError", "ValueError", "NotImplementedError", "AttributeError", "Exception", "KeyError", "TypeError")


class Exec:
    """specs: dict  ("m", Class, method) | ("f", name) | ("ctor", Class) -> handler(ex, st, recv, pos, kw, node) -> [(st, V)]
       loops: dict  (qualname, ordinal) -> LoopSpec-like handler(ex, node, st, d) -> [(st, kind, val)]"""

    def __init__(self, specs=None, loops=None, max_inline=5, current="?"):
        self.specs = specs or {}
        self.loops = loops or {}
        self.max_inline = max_inline
        self.current = current
        self.escaped = []          # (state, "raise", exc) produced while evaluating expressions
        self.src = get_src()
        self.fn_stack = []
        self.eq_identity = set()   # classes whose __eq__ is used as identity (justified by a separately proved lemma; recorded)
        self.used_assumptions = set()

    # ------------------------------------------------------------------ expressions -> [(state, V)]
    def ev(self, e, st, d=0):
        m = getattr(self, "ev_" + type(e).__name__, None)
        if m is None:
            raise Unsupported(f"expr {type(e).__name__} line {getattr(e, 'lineno', '?')}: {ast.unparse(e)[:80]}")
        return m(e, st, d)

    def ev_Constant(self, e, st, d):
        v = e.value
        if v is None:
            return [(st, NONE)]
        if isinstance(v, bool):
            return [(st, mkbool(v))]
        if isinstance(v, int):
            return [(st, mkint(v))]
        if isinstance(v, float):
            return [(st, V(("real",), z3.RealVal(repr(v))))]
        if isinstance(v, str):
            return [(st, V(("str",), z3.StringVal(v), py=v))]
        raise Unsupported(f"constant {v!r}")

    def ev_JoinedStr(self, e, st, d):
        # f-strings only occur in exception messages / repr: opaque
        return [(st, V(("str",), z3.Const(fresh_name("fstr"), z3.StringSort())))]

    def ev_Name(self, e, st, d):
        if e.id in st.env:
            v = st.env[e.id]
            if v is None:
                raise Unsupported(f"local {e.id} read before assignment")
            return [(st, v)]
        if e.id in KIND:
            return [(st, V(("kind",), z3.IntVal(KIND[e.id])))]
        if e.id in self.src.classes:
            return [(st, V(("class",), None, py=e.id))]
        if e.id in EXC_NAMES:
            return [(st, V(("class",), None, py=e.id))]
        if e.id in ("int", "float", "bool", "str", "list", "dict"):
            return [(st, V(("class",), None, py=e.id))]
        cands = [val for (mod, name), val in self.src.consts.items() if name == e.id]
        if cands and all(ast.unparse(c) == ast.unparse(cands[0]) for c in cands) and isinstance(cands[0], (ast.Constant, ast.UnaryOp)):
            return self.ev(cands[0], st, d)          # module-level constant (e.g. MARGIN_FIXED = 0)
        raise Unsupported(f"name {e.id} (line {e.lineno})")

    def deref(self, o, st, what):
        """strip Optional from a reference, generating the None-obligation"""
        if o.ty[0] == "opt":
            st.oblige(f"{what}-on-None", z3.Not(o.none), "implicit")
            return V(o.ty[1], o.term)
        if o.ty[0] == "none":
            st.oblige(f"{what}-on-None", z3.BoolVal(False), "implicit")
            raise Unsupported(f"{what} on the constant None")
        return o

    def ev_Attribute(self, e, st, d):
        out = []
        for s1, o in self.ev(e.value, st, d):
            s1 = s1.copy()
            o = self.deref(o, s1, "attr")
            if o.ty[0] == "dyn":
                raise Unsupported(f"attribute {e.attr} on a JSON value")
            if o.ty[0] != "ref":
                raise Unsupported(f"attribute {e.attr} on {o.ty} (line {e.lineno})")
            cls = o.ty[1]
            if e.attr == "__class__":
                out.append((s1, V(("class",), CLASS_OF(o.term))))
                continue
            mc, mfn = self.src.method(cls, e.attr)
            if mfn is not None and not self.src.is_property(cls, e.attr):
                out.append((s1, V(("func",), py=("bound", o, e.attr))))       # bound method used as a value
                continue
            if self.src.is_property(cls, e.attr):
                c, fn = self.src.method(cls, e.attr)
                out += self.call_function(fn, c, [o], {}, s1, d + 1)
            else:
                v = s1.read(o, e.attr)
                s1.assume_alloc(v, s1.farr(o.ty[1], e.attr)[1])
                rh = self.specs.get(("hook", "read", field_owner(cls, e.attr), e.attr))
                if rh is not None:
                    rh(self, s1, o, v)
                out.append((s1, v))
        return out

    def ev_Subscript(self, e, st, d):
        out = []
        for s1, base in self.ev(e.value, st, d):
            if isinstance(e.slice, ast.Slice):
                out += self.ev_slice(e, base, s1, d)
                continue
            if base.ty[0] == "tuple":
                if not isinstance(e.slice, ast.Constant):
                    raise Unsupported("tuple index must be constant")
                out.append((s1, base.py[e.slice.value]))
                continue
            for s2, idx in self.ev(e.slice, s1, d):
                s2 = s2.copy()
                b = self.deref(base, s2, "subscript")
                if b.ty[0] == "list":
                    out.append((s2, s2.list_get(b, self.as_int(idx, s2))))
                elif b.ty[0] == "dict":
                    out.append((s2, self.dict_get(s2, b, idx)))
                elif b.ty[0] == "dyn":
                    out.append((s2, self.dyn_get(s2, b, idx)))
                else:
                    raise Unsupported(f"subscript on {b.ty} (line {e.lineno})")
        return out

    def as_int(self, v, st):
        v = self.unwrap(v, st)
        if v.ty[0] == "int":
            return v
        if v.ty[0] == "bool":
            return V(("int",), to_int(v))
        if v.ty[0] == "dyn":
            st.oblige("index-is-int", z3.Or(dyn_is_int(v.term), dyn_is_bool(v.term)), "implicit")
            return V(("int",), dyn_int(v.term))
        raise Unsupported(f"index of type {v.ty}")

    def dict_get(self, st, dct, key):
        return st.dict_get(dct, key)

    def dyn_get(self, st, dv, key):
        """settings[...][key] on a JSON value that must be a dict (str keys) or list (int index)"""
        if key.ty[0] == "str":
            st.oblige("json-value-is-dict", dyn_is_dict(dv.term), "implicit")
            dct = V(("dict", ("str",), ("dyn",)), dyn_ref(dv.term))
            return st.dict_get(dct, key)
        if key.ty[0] in ("int", "bool"):
            st.oblige("json-value-is-list", dyn_is_list(dv.term), "implicit")
            return st.list_get(V(("list", ("dyn",)), dyn_ref(dv.term)), V(("int",), to_int(key)))
        raise Unsupported("subscript on JSON value with non-string key")

    def ev_slice(self, e, base, st, d):
        """xs[:k] / xs[a:] -> fresh list view (prefix/suffix)"""
        sl = e.slice
        if sl.step is not None:
            raise Unsupported("slice step")
        if base.ty[0] != "list":
            raise Unsupported(f"slice of {base.ty}")
        out = []
        lows = [(st, None)] if sl.lower is None else self.ev(sl.lower, st, d)
        for s1, lo in lows:
            highs = [(s1, None)] if sl.upper is None else self.ev(sl.upper, s1, d)
            for s2, hi in highs:
                s2 = s2.copy()
                n = s2.length(base.term, base.ty[1])
                lo_t = z3.IntVal(0) if lo is None else self.as_int(lo, s2).term
                hi_t = n if hi is None else self.as_int(hi, s2).term
                lo_c = z3.If(lo_t < 0, z3.If(lo_t + n < 0, 0, lo_t + n), z3.If(lo_t > n, n, lo_t))
                hi_c = z3.If(hi_t < 0, z3.If(hi_t + n < 0, 0, hi_t + n), z3.If(hi_t > n, n, hi_t))
                ety = base.ty[1]
                r = s2.new_list(ety, "slice")
                ln = z3.If(hi_c - lo_c > 0, hi_c - lo_c, 0)
                s2.set_len(r.term, ln, ety)
                if sl.lower is None:
                    # prefix slice: same element array, shorter length (exact on the indices below the new length)
                    s2.set_elems(r.term, ety, s2.elems(base.term, ety))
                    if ety[0] == "opt":
                        s2.set_elems(r.term, ety, s2.elems(base.term, ety, "none"), "none")
                    r.py = ("slice", base, lo_c, hi_c)
                    out.append((s2, r))
                    continue
                i = z3.Int(fresh_name("i_sl"))
                src_el = s2.elems(base.term, ety); new_el = z3.FreshConst(src_el.sort(), "slice_el")
                s2.assume(z3.ForAll([i], z3.Implies(z3.And(0 <= i, i < ln), z3.Select(new_el, i) == z3.Select(src_el, i + lo_c))))
                s2.set_elems(r.term, ety, new_el)
                if ety[0] == "opt":
                    src_n = s2.elems(base.term, ety, "none"); new_n = z3.FreshConst(src_n.sort(), "slice_none")
                    s2.assume(z3.ForAll([i], z3.Implies(z3.And(0 <= i, i < ln), z3.Select(new_n, i) == z3.Select(src_n, i + lo_c))))
                    s2.set_elems(r.term, ety, new_n, "none")
                r.py = ("slice", base, lo_c, hi_c)
                out.append((s2, r))
        return out

    def ev_UnaryOp(self, e, st, d):
        out = []
        for s1, v in self.ev(e.operand, st, d):
            if isinstance(e.op, ast.Not):
                out.append((s1, mkbool(z3.Not(truth(v, s1)))))
            elif isinstance(e.op, ast.USub):
                s1 = s1.copy(); v = self.unwrap(v, s1)
                if v.ty[0] == "bool":
                    v = V(("int",), to_int(v))
                out.append((s1, V(v.ty, -v.term)))
            elif isinstance(e.op, ast.UAdd):
                out.append((s1, v))
            else:
                raise Unsupported("unary op")
        return out

    def ev_BinOp(self, e, st, d):
        out = []
        for s1, l in self.ev(e.left, st, d):
            for s2, r in self.ev(e.right, s1, d):
                s2 = s2.copy()
                out.append((s2, self.binop(e.op, l, r, s2, e)))
        return out

    def unwrap(self, v, st, what="operand"):
        if v.ty[0] == "opt":
            st.oblige(f"{what}-not-None", z3.Not(v.none), "implicit")
            return V(v.ty[1], v.term)
        if v.ty[0] == "none":
            st.oblige(f"{what}-not-None", z3.BoolVal(False), "implicit")
            raise Unsupported("arithmetic on the constant None")
        return v

    def num_kind(self, v, st):
        """numeric classification of a value; JSON numbers become reals (int-tagged ones stay exact through to_real)"""
        k = v.ty[0]
        if k in ("int", "bool"):
            return "int"
        if k == "real":
            return "real"
        if k == "dyn":
            st.oblige("json-value-is-number", z3.Or(dyn_is_int(v.term), dyn_is_real(v.term), dyn_is_bool(v.term)), "implicit")
            return "real"
        return None

    def narrow_json_int(self, v, st):
        """a JSON value that the path condition knows to be an integer (after `isinstance(x, int)`) takes part in arithmetic as an int"""
        if v.ty[0] == "dyn" and not feasible(list(st.pc) + [z3.Not(z3.Or(dyn_is_int(v.term), dyn_is_bool(v.term)))]):      # bool is an int in Python; dyn_int covers both tags
            return V(("int",), dyn_int(v.term))
        return v

    def binop(self, op, l, r, st, node=None):
        l, r = self.unwrap(l, st), self.unwrap(r, st)
        l, r = self.narrow_json_int(l, st), self.narrow_json_int(r, st)
        # list concatenation
        if isinstance(op, ast.Add) and l.ty[0] == "list" and r.ty[0] == "list":
            return self.list_concat(st, l, r)
        if isinstance(op, ast.Mult) and l.ty[0] == "list":
            raise Unsupported("list repetition")
        if isinstance(op, ast.Add) and l.ty[0] == "str" and r.ty[0] == "str":
            return V(("str",), z3.Concat(l.term, r.term))
        lk, rk = self.num_kind(l, st), self.num_kind(r, st)
        if lk is None or rk is None:
            raise Unsupported(f"binop {type(op).__name__} on {l.ty} and {r.ty} (line {getattr(node, 'lineno', '?')})")
        if isinstance(op, ast.Div):
            a, b = to_real(l), to_real(r)
            st.oblige("div-by-zero", b != 0, "implicit")
            q = RDIV(a, b); st.assume(q * b == a)
            return V(("real",), q)
        if isinstance(op, ast.Pow):
            if isinstance(node.right, ast.Constant) and isinstance(node.right.value, int) and node.right.value >= 0 and lk == "int" \
                    and isinstance(node.left, ast.Constant):
                return mkint(node.left.value ** node.right.value)
            raise Unsupported("pow")
        if lk == "int" and rk == "int":
            a, b = to_int(l), to_int(r)
            if isinstance(op, ast.Add): return V(("int",), a + b)
            if isinstance(op, ast.Sub): return V(("int",), a - b)
            if isinstance(op, ast.Mult): return V(("int",), a * b)
            if isinstance(op, ast.FloorDiv):
                st.oblige("div-by-zero", b != 0, "implicit")
                # python floor division; z3 int div is euclidean: they agree for b > 0, which is made an obligation
                st.oblige("floordiv-positive-divisor", b > 0, "implicit")
                return V(("int",), a / b)
            if isinstance(op, ast.Mod):
                st.oblige("div-by-zero", b != 0, "implicit")
                st.oblige("mod-positive-divisor", b > 0, "implicit")
                return V(("int",), a % b)
        a, b = to_real(l), to_real(r)
        if isinstance(op, ast.Add): return V(("real",), a + b)
        if isinstance(op, ast.Sub): return V(("real",), a - b)
        if isinstance(op, ast.Mult): return V(("real",), a * b)
        if isinstance(op, ast.Mod):
            st.oblige("mod-positive-divisor", b > 0, "implicit")
            qr = RDIV(a, b); q = FLOOR(qr)
            st.assume(z3.And(qr * b == a, z3.ToReal(q) <= qr, qr < z3.ToReal(q) + 1))
            return V(("real",), a - z3.ToReal(q) * b)
        if isinstance(op, ast.FloorDiv):
            st.oblige("div-by-zero", b != 0, "implicit")
            qr = RDIV(a, b); q = FLOOR(qr)
            st.assume(z3.And(qr * b == a, z3.ToReal(q) <= qr, qr < z3.ToReal(q) + 1))
            return V(("real",), z3.ToReal(q))
        raise Unsupported(f"binop {type(op).__name__}")

    def list_concat(self, st, l, r, hint="cat"):
        ety = l.ty[1]
        res = st.new_list(ety, hint)
        nl, nr = st.length(l.term, ety), st.length(r.term, ety)
        st.set_len(res.term, nl + nr, ety)
        i = z3.Int(fresh_name("i_cat"))
        rty = r.ty[1]
        if kind_name(rty) != kind_name(ety):
            if not (strip_opt(ety)[0] in ("real", "int") and strip_opt(rty)[0] in ("int", "bool", "real")) or rty[0] == "opt":
                raise Unsupported(f"concatenation of {l.ty} and {r.ty}")
            nr = st.length(r.term, rty)
            st.set_len(res.term, nl + nr, ety)
        for part in (("val", "none") if ety[0] == "opt" else ("val",)):
            el = st.elems(l.term, ety, part)
            new = z3.FreshConst(el.sort(), "cat_el")
            st.assume(z3.ForAll([i], z3.Implies(z3.And(0 <= i, i < nl), z3.Select(new, i) == z3.Select(el, i))))
            if kind_name(rty) == kind_name(ety):
                er = st.elems(r.term, ety, part)
                st.assume(z3.ForAll([i], z3.Implies(z3.And(nl <= i, i < nl + nr), z3.Select(new, i) == z3.Select(er, i - nl))))
                # the same fact indexed from the right operand (pattern: an element of the right operand), so that "x is in r" yields a position in the result
                i2 = z3.Int(fresh_name("i_catr"))
                erc = z3.FreshConst(er.sort(), "cat_right")        # a name for the right operand's element view (the view term itself may contain if-then-else, which patterns reject)
                st.assume(erc == er)
                st.assume(z3.ForAll([i2], z3.Implies(z3.And(0 <= i2, i2 < nr), z3.Select(new, i2 + nl) == z3.Select(erc, i2)), patterns=[z3.Select(erc, i2)]))
            elif part == "val":
                er = st.elems(r.term, rty)
                conv = coerce(V(strip_opt(rty), z3.Select(er, i - nl)), strip_opt(ety))
                st.assume(z3.ForAll([i], z3.Implies(z3.And(nl <= i, i < nl + nr), z3.Select(new, i) == conv)))
            else:
                st.assume(z3.ForAll([i], z3.Implies(z3.And(nl <= i, i < nl + nr), z3.Not(z3.Select(new, i)))))
            st.set_elems(res.term, ety, new, part)
        if strip_opt(ety)[0] == "ref":
            y = z3.Const(fresh_name("y_cat"), REF)
            newmem = z3.FreshConst(z3.ArraySort(REF, z3.BoolSort()), "cat_mem")
            st.assume(z3.ForAll([y], z3.Select(newmem, y) == z3.Or(st.mem(l.term, y), st.mem(r.term, y))))
            st.set_mem(res.term, newmem)
            st.set_heapok(res.term, z3.FreshConst(z3.BoolSort(), "cat_heapok"))
            nd = z3.FreshConst(z3.BoolSort(), "cat_nodup")
            st.assume(nd == z3.And(st.nodup(l.term), st.nodup(r.term), z3.ForAll([y], z3.Not(z3.And(st.mem(l.term, y), st.mem(r.term, y))))))
            st.set_nodup(res.term, nd)
        return res

    def ev_BoolOp(self, e, st, d):
        def rec(vals, st):
            if len(vals) == 1:
                return [(s, mkbool(truth(v, s))) for s, v in self.ev(vals[0], st, d)]
            out = []
            for s1, v in self.ev(vals[0], st, d):
                t = truth(v, s1)
                if isinstance(e.op, ast.And):
                    sa = s1.copy(); sa.assume_branch(z3.Not(t)); out.append((sa, mkbool(False)))
                    sb = s1.copy(); sb.assume_branch(t); out += rec(vals[1:], sb)
                else:
                    sa = s1.copy(); sa.assume_branch(t); out.append((sa, mkbool(True)))
                    sb = s1.copy(); sb.assume_branch(z3.Not(t)); out += rec(vals[1:], sb)
            return [(s, v) for s, v in out if feasible(s.pc)]
        return rec(e.values, st)

    def ev_IfExp(self, e, st, d):
        out = []
        for s1, c in self.ev(e.test, st, d):
            t = truth(c, s1)
            for br, cond in ((e.body, t), (e.orelse, z3.Not(t))):
                s2 = s1.copy(); s2.assume_branch(cond)
                if feasible(s2.pc):
                    out += self.ev(br, s2, d)
        return out

    def ev_Compare(self, e, st, d):
        if len(e.ops) != 1:
            parts = []; left = e.left
            for op, right in zip(e.ops, e.comparators):
                parts.append(ast.copy_location(ast.Compare(left=left, ops=[op], comparators=[right]), e)); left = right
            return self.ev(ast.copy_location(ast.BoolOp(op=ast.And(), values=parts), e), st, d)
        out = []
        for s1, l in self.ev(e.left, st, d):
            for s2, r in self.ev(e.comparators[0], s1, d):
                s2 = s2.copy()
                out += self.compare(e.ops[0], l, r, s2, d, e)
        return out

    def is_none_term(self, v):
        if v.ty[0] == "opt":
            return v.none
        if v.ty[0] == "dyn":
            return dyn_is_none(v.term)
        if v.ty[0] == "optint":
            return OptInt.is_onone(v.term)
        return z3.BoolVal(v.ty[0] == "none")

    def compare(self, op, l, r, st, d=0, node=None):
        """returns [(state, V bool)]"""
        if isinstance(op, (ast.Is, ast.IsNot)):
            if r.ty[0] == "none":
                t = self.is_none_term(l)
            elif r.ty[0] == "bool" and z3.is_true(r.term):       # `x is True`
                t = truth(l, st) if l.ty[0] in ("bool",) else None
                if t is None:
                    raise Unsupported("is True on non-bool")
            elif strip_opt(l.ty)[0] == "ref" and strip_opt(r.ty)[0] == "ref":
                t = self.ref_identity(l, r)
            else:
                raise Unsupported(f"is between {l.ty} and {r.ty}")
            return [(st, mkbool(t if isinstance(op, ast.Is) else z3.Not(t)))]
        if isinstance(op, (ast.In, ast.NotIn)):
            t = self.contains(st, r, l, d)
            return [(st, mkbool(t if isinstance(op, ast.In) else z3.Not(t)))]
        if isinstance(op, (ast.Eq, ast.NotEq)):
            res = self.equals(l, r, st, d)
            return [(s, mkbool(t if isinstance(op, ast.Eq) else z3.Not(t))) for s, t in res]
        # ordering
        lo, ro = strip_opt(l.ty), strip_opt(r.ty)
        if lo[0] == "ref" and ro[0] == "ref":
            name = {ast.Lt: "__lt__", ast.Gt: "__gt__", ast.LtE: "__le__", ast.GtE: "__ge__"}[type(op)]
            return self.call_method(self.deref(l, st, "compare"), name, [self.deref(r, st, "compare")], {}, st, d, node)
        l, r = self.unwrap(l, st, "compare"), self.unwrap(r, st, "compare")
        lk, rk = self.num_kind(l, st), self.num_kind(r, st)
        if lk is None or rk is None:
            raise Unsupported(f"ordering between {l.ty} and {r.ty} (line {getattr(node, 'lineno', '?')})")
        if lk == "int" and rk == "int":
            a, b = to_int(l), to_int(r)
        else:
            a, b = to_real(l), to_real(r)
        return [(st, mkbool({ast.Lt: a < b, ast.LtE: a <= b, ast.Gt: a > b, ast.GtE: a >= b}[type(op)]))]

    def ref_identity(self, l, r):
        ln = l.none if l.ty[0] == "opt" else z3.BoolVal(False)
        rn = r.none if r.ty[0] == "opt" else z3.BoolVal(False)
        return z3.Or(z3.And(ln, rn), z3.And(z3.Not(ln), z3.Not(rn), l.term == r.term))

    def equals(self, l, r, st, d=0):
        """python `==`; returns [(state, z3 bool)]"""
        if l.ty[0] == "none" or r.ty[0] == "none":
            o = r if l.ty[0] == "none" else l
            return [(st, self.is_none_term(o))]
        lo, ro = strip_opt(l.ty), strip_opt(r.ty)
        if lo[0] == "ref" and ro[0] == "ref":
            cls = lo[1]
            c, fn = self.src.method(cls, "__eq__")
            if fn is not None and cls not in self.eq_identity and c not in self.eq_identity:
                if l.ty[0] == "opt" or r.ty[0] == "opt":
                    raise Unsupported("== with __eq__ on Optional refs")
                res = self.call_method(l, "__eq__", [r], {}, st, d, None)
                return [(s, truth(v, s)) for s, v in res]
            return [(st, self.ref_identity(l, r))]
        if lo[0] == "class" and ro[0] == "class":
            if l.py is not None and r.py is not None:
                return [(st, z3.BoolVal(l.py == r.py))]
            if l.term is not None and r.term is not None:
                return [(st, l.term == r.term)]
            raise Unsupported("class comparison on symbolic classes")
        if lo[0] in ("list", "dict") and ro[0] == lo[0]:
            raise Unsupported("structural == on collections")
        ln = l.none if l.ty[0] == "opt" else None
        rn = r.none if r.ty[0] == "opt" else None
        base = self.eq_terms(V(lo, l.term, py=l.py), V(ro, r.term, py=r.py), st)
        if ln is not None and rn is not None:
            return [(st, z3.Or(z3.And(ln, rn), z3.And(z3.Not(ln), z3.Not(rn), base)))]
        if ln is not None:
            return [(st, z3.And(z3.Not(ln), base))]
        if rn is not None:
            return [(st, z3.And(z3.Not(rn), base))]
        return [(st, base)]

    def eq_terms(self, l, r, st):
        num = ("int", "real", "bool")
        if l.ty[0] == "dyn" or r.ty[0] == "dyn":
            if l.ty[0] == "dyn" and r.ty[0] == "dyn":
                return l.term == r.term
            dv, o = (l, r) if l.ty[0] == "dyn" else (r, l)
            if o.ty[0] == "str":
                return z3.And(dyn_is_str(dv.term), dyn_str(dv.term) == o.term)
            if o.ty[0] in num:
                return z3.And(z3.Or(dyn_is_int(dv.term), dyn_is_real(dv.term), dyn_is_bool(dv.term)), to_real(dv) == to_real(o))
            raise Unsupported(f"== between JSON value and {o.ty}")
        if l.ty[0] in num and r.ty[0] in num:
            if l.ty == r.ty:
                return l.term == r.term
            if l.ty[0] in ("int", "bool") and r.ty[0] in ("int", "bool"):
                return to_int(l) == to_int(r)
            return to_real(l) == to_real(r)
        if l.ty[0] != r.ty[0]:
            if {l.ty[0], r.ty[0]} <= {"optint", "int"}:
                return coerce(l, ("optint",)) == coerce(r, ("optint",))
            return z3.BoolVal(False)
        return l.term == r.term

    def contains(self, st, coll, x, d=0):
        coll_ = self.deref(coll, st, "in") if coll.ty[0] == "opt" else coll
        k = coll_.ty[0]
        if k == "dict":
            return st.dict_has(coll_, x)
        if k == "dyn":
            st.oblige("json-value-is-dict", dyn_is_dict(coll_.term), "implicit")
            return st.dict_has(V(("dict", ("str",), ("dyn",)), dyn_ref(coll_.term)), x)
        if k == "dictvalues":
            dct = coll_.py
            key = z3.Const(fresh_name("k_in"), sort_of(dct.ty[1]))
            xv = self.unwrap(x, st) if x.ty[0] == "opt" else x
            return z3.Exists([key], z3.And(z3.Select(st.dict_dom(dct), key), z3.Select(st.dict_val(dct), key) == xv.term))
        if k == "list":
            ety = coll_.ty[1]
            if strip_opt(ety)[0] == "ref":
                xo = strip_opt(x.ty)
                if xo[0] != "ref":
                    raise Unsupported(f"`in` with {x.ty} on a list of references")
                cls = ety[1] if ety[0] == "ref" else ety[1][1]
                c, fn = self.src.method(cls, "__eq__")
                if fn is not None:
                    self.used_assumptions.add(f"`in`/remove/index on List[{cls}] uses the mem view: {cls}.__eq__ coincides with identity on the lists concerned (lemma C02/Order/eq-identity + distinct ids)")
                t = st.mem(coll_.term, x.term)
                if x.ty[0] == "opt":
                    t = z3.And(z3.Not(x.none), t)
                return t
            i = z3.Int(fresh_name("i_in"))
            el = st.elems(coll_.term, ety)
            n = st.length(coll_.term, ety)
            if x.ty[0] == "none":
                if ety[0] != "opt":
                    return z3.BoolVal(False)
                return z3.Exists([i], z3.And(0 <= i, i < n, z3.Select(st.elems(coll_.term, ety, "none"), i)))
            xv = x
            cmp_ = self.eq_terms(V(strip_opt(ety), z3.Select(el, i)), V(strip_opt(xv.ty), xv.term), st)
            if ety[0] == "opt":
                cmp_ = z3.And(z3.Not(z3.Select(st.elems(coll_.term, ety, "none"), i)), cmp_)
            if xv.ty[0] == "opt":
                cmp_ = z3.And(z3.Not(xv.none), cmp_)
            return z3.Exists([i], z3.And(0 <= i, i < n, cmp_))
        if k == "tuple" or k == "pylist":
            ts = []
            for el in coll_.py:
                res = self.equals(x, el, st, d)
                if len(res) != 1:
                    raise Unsupported("branching == inside `in` on a literal")
                ts.append(res[0][1])
            return z3.Or(*ts) if ts else z3.BoolVal(False)
        raise Unsupported(f"`in` on {coll.ty}")

    def ev_Tuple(self, e, st, d):
        states = [(st, [])]
        for el in e.elts:
            states = [(s2, vs + [v]) for s1, vs in states for s2, v in self.ev(el, s1, d)]
        return [(s, V(("tuple",), py=vs)) for s, vs in states]

    def ev_List(self, e, st, d):
        if not e.elts:
            s1 = st.copy()
            ety = self.pending_ann[1] if getattr(self, "pending_ann", None) and self.pending_ann[0] == "list" else ("dyn",)
            return [(s1, s1.new_list(ety, "newlist"))]
        if all(isinstance(x, ast.Starred) for x in e.elts):
            states = [(st, [])]
            for el in e.elts:
                states = [(s2, vs + [v]) for s1, vs in states for s2, v in self.ev(el.value, s1, d)]
            out = []
            for s1, vs in states:
                s1 = s1.copy(); acc = vs[0]
                if len(vs) == 1:
                    acc = self.list_concat(s1, vs[0], s1.new_list(vs[0].ty[1]), "copy")
                for v in vs[1:]:
                    acc = self.list_concat(s1, acc, v)
                out.append((s1, acc))
            return out
        # literal with elements
        states = [(st, [])]
        for el in e.elts:
            if isinstance(el, ast.Starred):
                raise Unsupported("mixed starred list literal")
            states = [(s2, vs + [v]) for s1, vs in states for s2, v in self.ev(el, s1, d)]
        out = []
        for s1, vs in states:
            s1 = s1.copy()
            ann = getattr(self, "pending_ann", None)
            if all((v.ty[0] == "str" and v.py is not None) or v.ty[0] == "none" for v in vs) and not (ann and ann[0] == "list"):
                out.append((s1, V(("pylist",), py=vs)))      # literal list of constants: only used with `in`
                continue
            ety = ann[1] if ann and ann[0] == "list" else vs[0].ty
            if ety[0] == "none":
                raise Unsupported("list literal of None without annotation")
            r = s1.new_list(ety, "litlist")
            s1.set_len(r.term, z3.IntVal(len(vs)), ety)
            for i, v in enumerate(vs):
                s1.list_set(r, mkint(i), v, check=False)
                if strip_opt(ety)[0] == "ref" and v.ty[0] != "none":
                    s1.set_mem(r.term, z3.Store(s1.memset(r.term), v.term, z3.BoolVal(True)))
            out.append((s1, r))
        return out

    def ev_Dict(self, e, st, d):
        ann0 = getattr(self, "pending_ann", None)
        if e.keys and ann0 and ann0[0] == "dict" and ann0[1] == ("str",) and all(isinstance(k, ast.Constant) and isinstance(k.value, str) for k in e.keys) \
                and len({k.value for k in e.keys}) == len(e.keys):
            # {"a": v1, "b": v2, ...} assigned to a name / field declared Dict[str, T]: a new dict object holding exactly these (distinct) keys
            states = [(st.copy(), [])]
            for k, v in zip(e.keys, e.values):
                nxt = []
                for s1, vs in states:
                    self.pending_ann = ann0[2]
                    try:
                        res = self.ev(v, s1, d)
                    finally:
                        self.pending_ann = ann0
                    nxt += [(s2, vs + [(k.value, val)]) for s2, val in res]
                states = nxt
            out = []
            for s1, vs in states:
                s1 = s1.copy()
                dct = s1.new_dict(ann0, "dictlit")
                for key, val in vs:
                    s1.dict_set(dct, V(("str",), z3.StringVal(key)), val)
                out.append((s1, dct))
            return out
        if e.keys:
            states = [(st, [])]
            for k, v in zip(e.keys, e.values):
                if not (isinstance(k, ast.Constant) and isinstance(k.value, str)):
                    raise Unsupported("dict literal with non-constant keys")
                states = [(s2, vs + [(k.value, val)]) for s1, vs in states for s2, val in self.ev(v, s1, d)]
            return [(s, V(("kwdict",), py=dict(vs))) for s, vs in states]
        s1 = st.copy()
        ann = getattr(self, "pending_ann", None)
        dty = ann if ann and ann[0] == "dict" else ("dict", ("str",), ("dyn",))
        return [(s1, s1.new_dict(dty, "newdict"))]

    def ev_Lambda(self, e, st, d):
        return [(st, V(("func",), py=("lambda", e, dict(st.env))))]
