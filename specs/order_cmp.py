"""C02 (second sentence): the comparison operators of accepted orders of one side are a strict total order that agrees with the
price-time ranking `before` (market first, better price, earlier acceptance, lower id). Executed from the real AST of
Order._gt_lt (closure included), __lt__, __gt__, __eq__, __ne__, __le__, __ge__, _check_comparability."""
import z3

from pyvc.core import *   # noqa
from pyvc.spec import Executor, eval_call, task, pin
from .vocab import *      # noqa


def cmp_setup():
    st = State(); st.labels = ["Order.compare"]
    a, b, c = sym_obj("Order", "oa"), sym_obj("Order", "ob"), sym_obj("Order", "oc")
    side = z3.Bool("side_is_buy")
    for x in (a, b, c):
        st.assume(wf_order(st, x.term))
        st.assume(O(st, "is_buy")[x.term] == side)
        st.assume(CLASS_OF(x.term) == CLASS_OF(a.term))
    for x, y in ((a, b), (a, c), (b, c)):      # B2 / MarketInv: distinct accepted orders carry distinct ids
        st.assume(z3.Implies(x.term != y.term, O(st, "order_id")[x.term] != O(st, "order_id")[y.term]))
    return st, a, b, c, side


@task("Order.compare", props=["C02", "C01", "C03", "C04"], functions=["Order._gt_lt", "Order.__lt__", "Order.__gt__", "Order.__eq__", "Order.__ne__",
      "Order.__le__", "Order.__ge__", "Order._check_comparability"], replay="order_cmp")
def t_order_compare():
    """strict total order lemmas and agreement with the rank, both sides, from the real comparison code"""
    st, a, b, c, side = cmp_setup()
    ex = Executor(current="Order.compare")
    obl = st.obl
    ops = {}
    for nm in ("__lt__", "__gt__", "__eq__", "__ne__", "__le__", "__ge__"):
        for (x, y, tag) in ((a, b, "ab"), (b, a, "ba"), (b, c, "bc"), (a, c, "ac"), (a, a, "aa")):
            if tag in ("bc", "ac") and nm not in ("__lt__",):
                continue
            f, raises = eval_call(ex, st, x, nm, [y])
            ops[(nm, tag)] = f
            for s, val in raises:
                obl.append({"name": f"Order.compare/no-raise:{nm}({tag}):{val[0]}", "pc": s.pc, "goal": z3.BoolVal(False), "kind": "no-raise"})
    pc = st.pc
    bf = lambda x, y: before(st, x.term, y.term, side)
    G = [("lt agrees with the price-time rank", ops[("__lt__", "ab")] == z3.And(a.term != b.term, bf(a, b))),
         ("gt is the converse of lt", ops[("__gt__", "ab")] == ops[("__lt__", "ba")]),
         ("irreflexive", z3.Not(ops[("__lt__", "aa")])),
         ("asymmetric", z3.Not(z3.And(ops[("__lt__", "ab")], ops[("__lt__", "ba")]))),
         ("transitive", z3.Implies(z3.And(ops[("__lt__", "ab")], ops[("__lt__", "bc")]), ops[("__lt__", "ac")])),
         ("total", z3.Implies(a.term != b.term, z3.Or(ops[("__lt__", "ab")], ops[("__lt__", "ba")]))),
         ("eq iff neither lt", ops[("__eq__", "ab")] == z3.And(z3.Not(ops[("__lt__", "ab")]), z3.Not(ops[("__lt__", "ba")]))),
         ("eq-identity: == on accepted orders of one book is identity", ops[("__eq__", "ab")] == (a.term == b.term)),
         ("ne is not eq", ops[("__ne__", "ab")] == z3.Not(ops[("__eq__", "ab")])),
         ("le is eq or lt", ops[("__le__", "ab")] == z3.Or(ops[("__eq__", "ab")], ops[("__lt__", "ab")])),
         ("ge is eq or gt", ops[("__ge__", "ab")] == z3.Or(ops[("__eq__", "ab")], ops[("__gt__", "ab")])),
         ("rank: market orders precede limit orders", z3.Implies(z3.And(O(st, "price", "none")[a.term], z3.Not(O(st, "price", "none")[b.term])), ops[("__lt__", "ab")])),
         ("rank: better price first (higher bid, lower ask)", z3.Implies(z3.And(z3.Not(O(st, "price", "none")[a.term]), z3.Not(O(st, "price", "none")[b.term]),
              z3.If(side, O(st, "price")[a.term] > O(st, "price")[b.term], O(st, "price")[a.term] < O(st, "price")[b.term])), ops[("__lt__", "ab")])),
         ("rank: earlier acceptance first at equal price", z3.Implies(z3.And(z3.Not(O(st, "price", "none")[a.term]), z3.Not(O(st, "price", "none")[b.term]),
              O(st, "price")[a.term] == O(st, "price")[b.term], O(st, "placed_at")[a.term] < O(st, "placed_at")[b.term]), ops[("__lt__", "ab")])),
         ("rank: lower id first at equal price and time", z3.Implies(z3.And(O(st, "price", "none")[a.term] == O(st, "price", "none")[b.term],
              z3.Or(O(st, "price", "none")[a.term], O(st, "price")[a.term] == O(st, "price")[b.term]), O(st, "placed_at")[a.term] == O(st, "placed_at")[b.term],
              O(st, "order_id")[a.term] < O(st, "order_id")[b.term]), ops[("__lt__", "ab")]))]
    for nm, g in G:
        obl.append({"name": "Order.compare/lemma:" + nm, "pc": pc, "goal": g, "kind": "lemma"})
    obl.append({"name": "Order.compare/canary:false", "pc": pc, "goal": z3.BoolVal(False), "kind": "canary", "expect": "fail"})
    # OrderKind is modelled by its kind_id: its __eq__ compares class and kind_id only (pinned text)
    pin(obl, "OrderKind.__eq__", "560e54243413", "OrderKind equality is kind_id equality")
    src = get_src_()
    info = [{"function": q, "source_sha": src.source_hash(q), "where": src.where(q), "paths": None, "assumptions": sorted(ex.used_assumptions)} for q in
            ("Order._gt_lt", "Order.__lt__", "Order.__gt__", "Order.__eq__", "Order.__ne__", "Order.__le__", "Order.__ge__", "Order._check_comparability")]
    return {"obligations": obl, "info": info}


def get_src_():
    from pyvc.src import get_src
    return get_src()


# ----------------------------------------------------------------------------- Order.__init__ (C04: constructor validation of volume, ttl, kind/price combination)
from pyvc.spec import FSpec      # noqa


def oi_raises(st, a):
    k, p, v, t = a["kind"].term, a["price"], a["volume"].term, a["ttl"]
    return z3.Or(z3.And(k == 0, z3.Not(p.none)), z3.And(k == 1, p.none), v <= 0, z3.And(z3.Not(t.none), t.term <= 0))


def oi_post(st0, st1, a, res):
    o = a["self"].term
    return [("the order carries exactly the given values; not placed unless told so; not cancelled",
             z3.And(O(st1, "agent_id")[o] == a["agent_id"].term, O(st1, "market_id")[o] == a["market_id"].term, O(st1, "is_buy")[o] == a["is_buy"].term, O(st1, "kind")[o] == a["kind"].term,
                    O(st1, "volume")[o] == a["volume"].term, O(st1, "price", "none")[o] == a["price"].none, z3.Implies(z3.Not(a["price"].none), O(st1, "price")[o] == a["price"].term),
                    O(st1, "ttl", "none")[o] == a["ttl"].none, z3.Implies(z3.Not(a["ttl"].none), O(st1, "ttl")[o] == a["ttl"].term),
                    O(st1, "placed_at", "none")[o] == a["placed_at"].none, O(st1, "order_id", "none")[o] == a["order_id"].none, z3.Not(O(st1, "is_canceled")[o]))),
            ("C04 a constructed order has positive volume, a positive or absent time-to-live, and a price exactly when it is a limit order",
             z3.And(O(st1, "volume")[o] >= 1, z3.Or(O(st1, "ttl", "none")[o], O(st1, "ttl")[o] >= 1), (O(st1, "kind")[o] == 0) == O(st1, "price", "none")[o]))]


ORDER_INIT = FSpec("Order.__init__", post=oi_post, raises={"ValueError": oi_raises}, props=("C04",),
                   pre=lambda st, a: [("kind is MARKET_ORDER or LIMIT_ORDER", z3.Or(a["kind"].term == 0, a["kind"].term == 1))],
                   modifies=lambda st, a: [("f:Order." + f, [a["self"].term]) for f in ("agent_id", "market_id", "is_buy", "kind", "volume", "placed_at", "price", "order_id", "ttl", "is_canceled")])


@task("Order.__init__", props=["C04", "C20"], functions=["Order.__init__"], replay="order_cmp")
def t_order_init():
    obl, info = ORDER_INIT.verify()
    return {"obligations": obl, "info": [info]}


# ----------------------------------------------------------------------------- Order.is_expired / check_system_acceptable (C04: the public lifetime / ownership predicates)
# These are the documented predicates a user program may call; the book itself expires through its expiry index (specs/book.py).  Their contracts state the
# same relations the book and the market enforce: "expired at `time`" is exactly placed_at + ttl < time (never, without a ttl), and "acceptable from agent a"
# is exactly: a is the owner, the object has not been placed, the order is not cancelled.
def oe_post(st0, st1, a, res):
    o = a["self"].term
    return [("C04 an order is expired at `time` exactly when it has a time-to-live and placed_at + ttl < time",
             truth_(res) == z3.And(z3.Not(O(st0, "ttl", "none")[o]), O(st0, "placed_at")[o] + O(st0, "ttl")[o] < a["time"].term))]


def truth_(res):
    return res.term if z3.is_bool(res.term) else res.term != 0


ORDER_IS_EXPIRED = FSpec("Order.is_expired", post=oe_post, props=("C04",),
                         raises={"Exception": lambda st, a: O(st, "placed_at", "none")[a["self"].term]}, modifies=lambda st, a: [])

ORDER_ACCEPTABLE = FSpec("Order.check_system_acceptable", props=("C04",), modifies=lambda st, a: [],
                         post=lambda st0, st1, a, res: [("returns normally only for the owner's unplaced, uncancelled order", z3.BoolVal(True))],
                         raises={"AttributeError": lambda st, a: z3.Or(a["agent_id"].term != O(st, "agent_id")[a["self"].term], z3.Not(O(st, "placed_at", "none")[a["self"].term]),
                                                                       O(st, "is_canceled")[a["self"].term])})


def _cancel_bad(st, a):
    c = a["self"].term
    o = st.F("Cancel", "order")[c]
    return z3.Or(a["agent_id"].term != O(st, "agent_id")[o], z3.Not(st.F("Cancel", "placed_at", "none")[c]), O(st, "is_canceled")[o])


CANCEL_ACCEPTABLE = FSpec("Cancel.check_system_acceptable", props=("C04",), modifies=lambda st, a: [],
                          post=lambda st0, st1, a, res: [("returns normally only for an unplaced cancel, by the owner, of an order not yet cancelled", z3.BoolVal(True))],
                          raises={"AttributeError": _cancel_bad})


@task("Order lifetime predicates", props=["C04"], functions=["Order.is_expired", "Order.check_system_acceptable", "Cancel.check_system_acceptable"], replay="order_cmp")
def t_order_predicates():
    obl, info = [], []
    for sp in (ORDER_IS_EXPIRED, ORDER_ACCEPTABLE, CANCEL_ACCEPTABLE):
        o, i = sp.verify()
        obl += o
        info.append(i)
    return {"obligations": obl, "info": info}
