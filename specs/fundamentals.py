"""Fundamentals under contract (C12, partial): start value, positivity, history preserved across regeneration / parameter changes / shocks.
The numpy statements of _generate_next / _generate_log_return are outside the subset: their contract is ASSUMED here (pinned to the statement text) and checked by a bounded stand-in."""
import z3

from pyvc.core import *   # noqa
from pyvc.spec import FSpec, LoopSpec, task, pin

FIELD_OVERRIDE[("Fundamentals", "prices")] = ("dict", ("int",), ("list", ("real",)))
FIELD_OVERRIDE[("Fundamentals", "correlation")] = ("dict", ("int",), ("real",))       # keys are pairs; not modelled (only touched by the correlation setters)


def plist(st, f, mid):
    prices = st.read(f, "prices")
    return prices, z3.Select(st.dict_val(prices), mid)


# ----------------------------------------------------------------------------- add_market
def am_post(st0, st1, a, res):
    f = a["self"]; mid = a["market_id"].term; sa = a["start_at"].term
    prices1, pl = plist(st1, f, mid)
    i = z3.Int("i_am")
    g0, g1 = st0.read(f, "_generated_until").term, st1.read(f, "_generated_until").term
    return [("C12 the path starts at the configured initial value: prices[m] == [initial] * (start_at + 1)",
             z3.And(z3.Select(st1.dict_dom(prices1), mid), st1.length(pl, ("real",)) == z3.If(sa + 1 > 0, sa + 1, 0),
                    z3.ForAll([i], z3.Implies(z3.And(0 <= i, i <= sa), z3.Select(st1.elems(pl, ("real",)), i) == to_real(a["initial"]))))),
            ("the market is registered with its parameters", z3.And(z3.Select(st1.dict_dom(st1.read(f, "drifts")), mid), z3.Select(st1.dict_val(st1.read(f, "drifts")), mid) == to_real(a["drift"]),
                                                                     z3.Select(st1.dict_val(st1.read(f, "volatilities")), mid) == to_real(a["volatility"]),
                                                                     z3.Select(st1.dict_val(st1.read(f, "initials")), mid) == to_real(a["initial"]))),
            ("regeneration point = min(start_at, previous)", g1 == z3.If(sa <= g0, sa, g0))]


def am_raises(st, a):
    f = a["self"]
    ids = st.read(f, "market_ids")
    i = z3.Int("i_amr")
    dup = z3.Exists([i], z3.And(0 <= i, i < st.length(ids.term, ("int",)), z3.Select(st.elems(ids.term, ("int",)), i) == a["market_id"].term))
    return z3.Or(dup, to_real(a["volatility"]) < 0, to_real(a["initial"]) <= 0)


ADD_MARKET_F = FSpec("Fundamentals.add_market", post=am_post, raises={"ValueError": am_raises}, props=("C12",),
                     pre=lambda st, a: [("dicts of the generator are distinct objects", z3.Distinct(*[st.read(a["self"], n).term for n in ("drifts", "volatilities", "initials")]))],
                     modifies=lambda st, a: ["len:Int", "el:Int", "len:Real", "el:Real", "dd:Int_Real", "dv:Int_Real", "dd:Int_Int", "dv:Int_Int", "dd:Int_Ref", "dv:Int_Ref",
                                             ("f:Fundamentals._generated_until", [a["self"].term])])


@task("Fundamentals.add_market", props=["C12"], functions=["Fundamentals.add_market"], replay="fundamentals")
def t_add_market_f():
    obl, info = ADD_MARKET_F.verify()
    return {"obligations": obl, "info": [info]}


# ----------------------------------------------------------------------------- parameter setters: only the parameter and the regeneration point change
def setter_task(name, param, dname):
    qual = "Fundamentals." + name

    def post(st0, st1, a, res):
        f = a["self"]
        d = st1.read(f, dname)
        return [("the parameter is stored for the market", z3.And(z3.Select(st1.dict_dom(d), a["market_id"].term), z3.Select(st1.dict_val(d), a["market_id"].term) == to_real(a[param]))),
                ("C12 the regeneration point moves to the given time: values before it are never recomputed", st1.read(f, "_generated_until").term == a["time"].term),
                ("no generated price is touched by the setter itself", z3.And(st1.read(f, "prices").term == st0.read(f, "prices").term))]
    spec = FSpec(qual, post=post, props=("C12",), raises=({"ValueError": lambda st, a: to_real(a["volatility"]) < 0} if name == "change_volatility" else {}),
                 modifies=lambda st, a: [("dd:Int_Real", [st.read(a["self"], dname).term]), ("dv:Int_Real", [st.read(a["self"], dname).term]), ("f:Fundamentals._generated_until", [a["self"].term])])

    def build():
        obl, info = spec.verify()
        return {"obligations": obl, "info": [info]}
    task(qual, props=["C12"], functions=[qual], replay="fundamentals")(build)


setter_task("change_volatility", "volatility", "volatilities")
setter_task("change_drift", "drift", "drifts")


# ----------------------------------------------------------------------------- get_fundamental_price: regeneration keeps the prefix (uses the ASSUMED contract of _generate_next)
def gn_contract(ex, st, recv, pos, kw, node):
    """ASSUMED contract of Fundamentals._generate_next (numpy; pinned + bounded stand-in): with g = _generated_until,
    for every registered market the first g+1 prices are kept, the list then covers g' = g + length > g, all new prices are positive if the kept one is"""
    st = st.copy()
    f = recv
    g0 = st.read(f, "_generated_until").term
    prices = st.read(f, "prices")
    dv0 = st.dict_val(prices); dom = st.dict_dom(prices)
    from pyvc.spec import havoc_with_frame
    len0 = st.len_arr(("real",)); el0, = [st.el_arr(("real",))[1]]
    havoc_with_frame(st, ["len:Real", "el:Real", "dv:Int_Ref", ("f:Fundamentals._generated_until", [f.term])])
    g1 = st.read(f, "_generated_until").term
    m = z3.Int(fresh_name("m_gn")); i = z3.Int(fresh_name("i_gn"))
    dv1 = st.dict_val(prices)
    l0 = z3.Select(dv0, m); l1 = z3.Select(dv1, m)
    st.assume(g1 > g0)
    st.assume(z3.ForAll([m], z3.Implies(z3.Select(dom, m), z3.And(st.length(l1, ("real",)) >= z3.Select(len0, l0), st.length(l1, ("real",)) >= g1 + 1,
                                                                   z3.ForAll([i], z3.Implies(z3.And(0 <= i, i <= g0), z3.Select(st.elems(l1, ("real",)), i) == z3.Select(z3.Select(el0, l0), i)))))))
    st.assume(st.dict_dom(prices) == dom)
    ex.used_assumptions.add("ASSUMED contract of Fundamentals._generate_next (numpy statements outside the subset; pinned to the statement text, checked by the bounded stand-in `fundamentals`)")
    st.trace = st.trace + [("GenerateNext", None, (f.term,))]
    return [(st, NONE)]


def gfp_pre(st, a):
    f = a["self"]; prices, pl = plist(st, f, a["market_id"].term)
    g = st.read(f, "_generated_until").term
    m = z3.Int("m_gfp")
    return [("the market is registered; every path is longer than the regeneration point; time >= 0",
             z3.And(z3.Select(st.dict_dom(prices), a["market_id"].term), a["time"].term >= 0, g >= 0,
                    z3.ForAll([m], z3.Implies(z3.Select(st.dict_dom(prices), m), st.length(z3.Select(st.dict_val(prices), m), ("real",)) >= g + 1))))]


def gfp_post(st0, st1, a, res):
    f = a["self"]; mid = a["market_id"].term
    p0, l0 = plist(st0, f, mid); p1, l1 = plist(st1, f, mid)
    g0 = st0.read(f, "_generated_until").term
    i = z3.Int("i_gfp")
    return [("C12 values at times up to the old regeneration point are never altered by generating further", z3.ForAll([i], z3.Implies(z3.And(0 <= i, i <= g0), z3.Select(st1.elems(l1, ("real",)), i) == z3.Select(st0.elems(l0, ("real",)), i)))),
            ("the returned value is the path's value at the requested time", res.term == z3.Select(st1.elems(l1, ("real",)), a["time"].term)),
            ("the path covers the requested time afterwards", z3.And(st1.read(f, "_generated_until").term > a["time"].term, st1.read(f, "_generated_until").term >= g0))]


GET_FUND = FSpec("Fundamentals.get_fundamental_price", pre=gfp_pre, post=gfp_post, props=("C12", "C06"),
                 modifies=lambda st, a: ["len:Real", "el:Real", "dv:Int_Ref", ("f:Fundamentals._generated_until", [a["self"].term])])


def gfp_loop():
    def inv(st, ctx):
        ent = ctx["fn_entry"]; e = st.env
        f = e["self"]; g0 = ent.read(f, "_generated_until").term; g = st.read(f, "_generated_until").term
        prices = ent.read(f, "prices")
        m = z3.Int("m_gfl"); i = z3.Int("i_gfl")
        l0 = z3.Select(ent.dict_val(prices), m); l1 = z3.Select(st.dict_val(prices), m)
        return [("regeneration point only grows", g >= g0),
                ("every path keeps its values up to the entry regeneration point and is longer than the current one",
                 z3.ForAll([m], z3.Implies(z3.Select(ent.dict_dom(prices), m), z3.And(st.length(l1, ("real",)) >= g + 1,
                           z3.ForAll([i], z3.Implies(z3.And(0 <= i, i <= g0), z3.Select(st.elems(l1, ("real",)), i) == z3.Select(ent.elems(l0, ("real",)), i))))))),
                ("registered markets unchanged", z3.And(st.read(f, "prices").term == prices.term, st.dict_dom(prices) == ent.dict_dom(prices)))]
    return {0: LoopSpec(inv, modifies=lambda st, ctx: ["len:Real", "el:Real", "dv:Int_Ref", ("f:Fundamentals._generated_until", [st.env["self"].term])], header="time >= self._generated_until", name="generate-until-covered",
                        decreases=lambda s, c: s.env["time"].term - s.read(s.env["self"], "_generated_until").term + 1)}


@task("Fundamentals.get_fundamental_price", props=["C12", "C06"], functions=["Fundamentals.get_fundamental_price"], replay="fundamentals")
def t_get_fund():
    obl, info = GET_FUND.verify(specs={("m", "Fundamentals", "_generate_next"): gn_contract}, loops=gfp_loop())
    pin(obl, "Fundamentals._generate_next", "1cccfdb12f22", "assumed contract of _generate_next was written for this statement text")
    pin(obl, "Fundamentals._generate_log_return", "c33c25fe8c6e", "bounded stand-in of the covariance algebra was written for this statement text")
    return {"obligations": obl, "info": [info]}


# ----------------------------------------------------------------------------- get_fundamental_prices: the multi-time accessor (same regeneration argument; result[i] = path[times[i]])
def gfps_pre(st, a):
    f = a["self"]; prices, pl = plist(st, f, a["market_id"].term)
    g = st.read(f, "_generated_until").term
    m = z3.Int("m_gfq"); i = z3.Int("i_gfq")
    ts = a["times"].term; n = st.length(ts, ("int",)); tel = st.elems(ts, ("int",))
    return [("the market is registered; every path is longer than the regeneration point; at least one time, all times >= 0",
             z3.And(z3.Select(st.dict_dom(prices), a["market_id"].term), g >= 0, n >= 1, z3.ForAll([i], z3.Implies(z3.And(0 <= i, i < n), z3.Select(tel, i) >= 0)),
                    z3.ForAll([m], z3.Implies(z3.Select(st.dict_dom(prices), m), st.length(z3.Select(st.dict_val(prices), m), ("real",)) >= g + 1))))]


def gfps_post(st0, st1, a, res):
    f = a["self"]; mid = a["market_id"].term
    p0, l0 = plist(st0, f, mid); p1, l1 = plist(st1, f, mid)
    g0 = st0.read(f, "_generated_until").term
    i = z3.Int("i_gfr")
    ts = a["times"].term; n = st0.length(ts, ("int",)); tel = st0.elems(ts, ("int",))
    return [("C12 values at times up to the old regeneration point are never altered by generating further", z3.ForAll([i], z3.Implies(z3.And(0 <= i, i <= g0), z3.Select(st1.elems(l1, ("real",)), i) == z3.Select(st0.elems(l0, ("real",)), i)))),
            ("one value per requested time, in the order of the request: the path's value at that time",
             z3.And(st1.length(res.term, ("real",)) == n, z3.ForAll([i], z3.Implies(z3.And(0 <= i, i < n), z3.Select(st1.elems(res.term, ("real",)), i) == z3.Select(st1.elems(l1, ("real",)), z3.Select(tel, i)))))),
            ("the path covers every requested time afterwards", z3.And(z3.ForAll([i], z3.Implies(z3.And(0 <= i, i < n), st1.read(f, "_generated_until").term > z3.Select(tel, i))), st1.read(f, "_generated_until").term >= g0))]


GFPS_MODS = lambda st, a: ["len:Real", "el:Real", "dv:Int_Ref", ("f:Fundamentals._generated_until", [a["self"].term]), ("len:Int", []), ("el:Int", [])]
GET_FUNDS = FSpec("Fundamentals.get_fundamental_prices", pre=gfps_pre, post=gfps_post, props=("C12", "C06"), modifies=GFPS_MODS, fresh_result=True, result=("list", ("real",)),
                  param_types={"times": ("list", ("int",))})


def gfps_loop():
    base = gfp_loop()[0]

    def inv(st, ctx):
        ent = ctx["fn_entry"]; ts = st.env["times"].term; i = z3.Int("i_gfs")
        return base.inv(st, ctx) + [("the requested times are untouched", z3.And(st.length(ts, ("int",)) == ent.length(ts, ("int",)), st.elems(ts, ("int",)) == ent.elems(ts, ("int",))))]
    return {0: LoopSpec(inv, modifies=lambda st, ctx: ["len:Real", "el:Real", "dv:Int_Ref", ("f:Fundamentals._generated_until", [st.env["self"].term]), ("len:Int", []), ("el:Int", [])],
                        header="max([x for x in times]) >= self._generated_until", name="generate-until-all-covered", frame_since_entry=True)}


@task("Fundamentals.get_fundamental_prices", props=["C12", "C06"], functions=["Fundamentals.get_fundamental_prices"], replay="fundamentals")
def t_get_funds():
    obl, info = GET_FUNDS.verify(specs={("m", "Fundamentals", "_generate_next"): gn_contract}, loops=gfps_loop())
    pin(obl, "Fundamentals._generate_next", "1cccfdb12f22", "assumed contract of _generate_next was written for this statement text")
    return {"obligations": obl, "info": [info]}
