"""utils.json_extends under contract (C18 inheritance, C07 settings are copied): own keys, then the nearest ancestor's value for every other inheritable key;
missing parents and cycles are errors; the result is a fresh dict and neither argument is written."""
import z3

from pyvc.core import *   # noqa
from pyvc.spec import FSpec, LoopSpec, task
from .session import S

K = z3.StringSort()
EXT = z3.StringVal("extends")
# spec function `resolved`: RD(n, k) / RV(n, k) = presence / value of key k after merging the first n ancestors (chain = extending_history)
RD = z3.Function("resolved_has", z3.IntSort(), K, z3.BoolSort()); RV = z3.Function("resolved_val", z3.IntSort(), K, DYN)


NAME = z3.Function("chain_name", z3.IntSort(), K)       # NAME(0) = the entry's own name, NAME(i+1) = the `extends` value of the i-th element of the chain


def whole_entry(st, whole, name):
    """whole_json[name] as a dict view"""
    return V(("dict", ("str",), ("dyn",)), dyn_ref(z3.Select(st.dict_val(whole), name)))


def chain_has(st, a, n, k):
    """(presence, value) of key k in the n-th element of the inheritance chain: the target itself for n = 0, else whole_json[NAME(n)]"""
    tgt = a["target_json"]
    ent = whole_entry(st, a["whole_json"], NAME(n))
    return z3.If(n == 0, z3.Select(st.dict_dom(tgt), k), z3.Select(st.dict_dom(ent), k)), z3.If(n == 0, z3.Select(st.dict_val(tgt), k), z3.Select(st.dict_val(ent), k))


def excluded(st, a, k):
    ef = a["excludes_fields"]
    i = z3.Int("i_exc")
    lst = ef.term
    return z3.And(z3.Not(ef.none), z3.Exists([i], z3.And(0 <= i, i < st.length(lst, ("str",)), z3.Select(st.elems(lst, ("str",)), i) == k)))


def definitions(st, a):
    """defining equations of the chain and of the spec function `resolved` over the entry state (recursive definitions: consistent)"""
    n = z3.Int("n_res"); k = z3.Const("k_res", K)
    # stated for m = n >= 1 in terms of n - 1 (the left-hand sides RD(n, k), NAME(n) are then usable as quantifier patterns)
    h1, v1 = chain_has(st, a, n, k)
    h0, v0 = chain_has(st, a, z3.IntVal(0), k)
    he, ve = chain_has(st, a, n - 1, EXT)
    return [NAME(0) == a["parent_name"].term,
            z3.ForAll([n], z3.Implies(n >= 1, NAME(n) == dyn_str(ve)), patterns=[NAME(n)]),
            z3.ForAll([k], z3.And(RD(0, k) == h0, RV(0, k) == v0)),
            z3.ForAll([n, k], z3.Implies(n >= 1, z3.And(RD(n, k) == z3.Or(RD(n - 1, k), z3.And(h1, z3.Not(excluded(st, a, k)))), RV(n, k) == z3.If(RD(n - 1, k), RV(n - 1, k), v1))),
                      patterns=[RD(n, k), RV(n, k)])]


def je_pre(st, a):
    whole = a["whole_json"]
    nm = z3.Const("nm_je", K)
    return [("every entry of the whole configuration that can be extended is a dict whose `extends` value, if any, is a string",
             z3.ForAll([nm], z3.Implies(z3.Select(st.dict_dom(whole), nm), z3.And(dyn_is_dict(z3.Select(st.dict_val(whole), nm)), st.is_alloc(dyn_ref(z3.Select(st.dict_val(whole), nm))),
                        z3.Implies(z3.Select(st.dict_dom(whole_entry(st, whole, nm)), EXT), dyn_is_str(z3.Select(st.dict_val(whole_entry(st, whole, nm)), EXT))))))),
            ("the target's `extends` value, if any, is a string", z3.Implies(z3.Select(st.dict_dom(a["target_json"]), EXT), dyn_is_str(z3.Select(st.dict_val(a["target_json"]), EXT))))]


def je_post(st0, st1, a, res):
    k = z3.Const("k_jep", K)
    n = st1.ghost["chain_len"] if "chain_len" in st1.ghost else z3.Const(fresh_name("chain_len"), z3.IntSort())
    return [("C07 the result is a new dict: neither the target nor any entry of the whole configuration is returned", z3.Not(st0.is_alloc(res.term))),
            ("C18 result = own keys, then for each remaining inheritable key the nearest ancestor's value; `extends` itself is consumed",
             z3.And(n >= 0, z3.ForAll([k], z3.And(z3.Select(st1.dict_dom(res), k) == z3.And(k != EXT, RD(n, k)), z3.Implies(z3.Select(st1.dict_dom(res), k), z3.Select(st1.dict_val(res), k) == RV(n, k))))))]


JSON_EXTENDS = FSpec("json_extends", pre=je_pre, post=je_post, props=("C18", "C07"), fresh_result=True, result=("dict", ("str",), ("dyn",)),
                     param_types={"whole_json": ("dict", ("str",), ("dyn",)), "target_json": ("dict", ("str",), ("dyn",)), "excludes_fields": ("opt", ("list", ("str",)))},
                     modifies=lambda st, a: [("dd:String_Dyn", []), ("dv:String_Dyn", []), ("len:String", []), ("el:String", [])])
JSON_EXTENDS.may_raise = {"ValueError": lambda st, a: z3.BoolVal(True)}
JSON_EXTENDS.axioms = lambda st, a: definitions(st.ghost["entry_view"] if "entry_view" in st.ghost else st, a) if not st.ghost.get("no_defs") else []


def je_loop():
    def inv(st, ctx):
        e = st.env; ent = ctx["fn_entry"]
        a = {"whole_json": e["whole_json"], "target_json": e["target_json"], "excludes_fields": e["excludes_fields"], "parent_name": e["parent_name"]}
        hist = e["extending_history"].term; res = e["results"]
        n = st.length(hist, ("str",)) - 1
        k = z3.Const("k_jel", K); i, j = z3.Ints("i_jel j_jel")
        hel = st.elems(hist, ("str",))
        hn, vn = chain_has(ent, a, n, EXT)
        return [("history has at least the entry's own name", n >= 0),
                ("the history is the inheritance chain so far", z3.ForAll([i], z3.Implies(z3.And(0 <= i, i <= n), z3.Select(hel, i) == NAME(i)))),
                ("results (without `extends`) = resolved(n, .)", z3.ForAll([k], z3.Implies(k != EXT, z3.And(z3.Select(st.dict_dom(res), k) == RD(n, k),
                                                                                                             z3.Implies(RD(n, k), z3.Select(st.dict_val(res), k) == RV(n, k)))))),
                ("`extends` is pending iff the last merged entry declares it (and it is inheritable beyond the target)",
                 z3.And(z3.Select(st.dict_dom(res), EXT) == z3.And(hn, z3.Or(n == 0, z3.Not(excluded(ent, a, EXT)))), z3.Implies(z3.Select(st.dict_dom(res), EXT), z3.Select(st.dict_val(res), EXT) == vn))),
                ("C18 no name is visited twice (cycles end in an error, not in a loop)", z3.ForAll([i, j], z3.Implies(z3.And(0 <= i, i < j, j <= n), NAME(i) != NAME(j)))),
                ("every ancestor visited is an entry of the whole configuration", z3.ForAll([i], z3.Implies(z3.And(1 <= i, i <= n), z3.Select(ent.dict_dom(a["whole_json"]), NAME(i))))),
                ("the configuration (whole, its entries, the target, the exclusion list) is not written",
                 z3.And(st.dict_dom(a["whole_json"]) == ent.dict_dom(a["whole_json"]), st.dict_val(a["whole_json"]) == ent.dict_val(a["whole_json"]),
                        st.dict_dom(a["target_json"]) == ent.dict_dom(a["target_json"]), st.dict_val(a["target_json"]) == ent.dict_val(a["target_json"]),
                        z3.Or(a["excludes_fields"].none, z3.And(st.length(a["excludes_fields"].term, ("str",)) == ent.length(a["excludes_fields"].term, ("str",)),
                                                                st.elems(a["excludes_fields"].term, ("str",)) == ent.elems(a["excludes_fields"].term, ("str",)))),
                        z3.ForAll([k], z3.Implies(z3.Select(ent.dict_dom(a["whole_json"]), k),
                                                  z3.And(st.dict_dom(whole_entry(ent, a["whole_json"], k)) == ent.dict_dom(whole_entry(ent, a["whole_json"], k)),
                                                         st.dict_val(whole_entry(ent, a["whole_json"], k)) == ent.dict_val(whole_entry(ent, a["whole_json"], k))))))),
                ("the local exclusion list is the argument, or a (still) empty list when none was given",
                 z3.If(a["excludes_fields"].none, st.length(e["excludes_fields_"].term, ("str",)) == 0, e["excludes_fields_"].term == a["excludes_fields"].term)),
                ("results and the history list are objects created by this call", z3.And(z3.Not(ent.is_alloc(res.term)), z3.Not(ent.is_alloc(hist)), st.is_alloc(res.term), st.is_alloc(hist)))]

    def mods(st, ctx):
        return [("dd:String_Dyn", []), ("dv:String_Dyn", []), ("len:String", []), ("el:String", [])]

    def on_exit(ex, s1, ctx):
        s1.ghost["chain_len"] = s1.length(s1.env["extending_history"].term, ("str",)) - 1
    return {0: LoopSpec(inv, modifies=mods, header="'extends' in results", name="merge-ancestors", frame_since_entry=True, on_exit=on_exit)}


@task("json_extends", props=["C18", "C07"], functions=["json_extends"], replay="config")
def t_json_extends():
    def setup(ex, st, a):
        st.ghost["entry_view"] = st.copy()
    obl, info = JSON_EXTENDS.verify(loops=je_loop(), setup=setup)
    return {"obligations": obl, "info": [info]}
