"""Session.setup under contract (C09 session parsing, C18 legacy keys): every attribute equals the parsed key; deprecated spellings set the
same parameter as their replacement; both spellings together are an error."""
import z3

from pyvc.core import *   # noqa
from pyvc.spec import FSpec, task
from .events import configured_exec


def S(k):
    return V(("str",), z3.StringVal(k), py=k)


def has(st, d, k):
    return st.dict_has(d, S(k))


def get(st, d, k):
    return z3.Select(st.dict_val(d), z3.StringVal(k))


def num(v):
    return z3.If(dyn_is_int(v), z3.ToReal(dyn_int(v)), dyn_real(v))


def is_intlike(v):
    return z3.Or(dyn_is_int(v), dyn_is_bool(v))


REQUIRED = [("iterationSteps", is_intlike), ("withOrderPlacement", dyn_is_bool), ("withOrderExecution", dyn_is_bool), ("withPrint", dyn_is_bool)]


def ss_raises(st, a):
    d = a["settings"]
    bad = [z3.Or(z3.Not(has(st, d, k)), z3.Not(tag(get(st, d, k)))) for k, tag in REQUIRED]
    both1 = z3.And(has(st, d, "maxHighFrequencyOrders"), has(st, d, "maxHifreqOrders"))
    both2 = z3.And(has(st, d, "highFrequencySubmitRate"), has(st, d, "hifreqSubmitRate"))
    return z3.Or(*bad, both1, both2)


def ss_post(st0, st1, a, res):
    s, d = a["self"], a["settings"]
    g = lambda k: get(st0, d, k)
    h = lambda k: has(st0, d, k)
    R = lambda f: st1.read(s, f).term
    R0 = lambda f: st0.read(s, f).term
    cap = z3.If(h("maxHighFrequencyOrders"), num(g("maxHighFrequencyOrders")), z3.If(h("maxHifreqOrders"), num(g("maxHifreqOrders")), R0("max_high_frequency_orders")))
    rate = z3.If(h("highFrequencySubmitRate"), num(g("highFrequencySubmitRate")), z3.If(h("hifreqSubmitRate"), num(g("hifreqSubmitRate")), R0("high_frequency_submission_rate")))
    return [("iteration_steps = iterationSteps", R("iteration_steps") == dyn_int(g("iterationSteps"))),
            ("with_order_placement = withOrderPlacement", R("with_order_placement") == dyn_bool(g("withOrderPlacement"))),
            ("with_order_execution = withOrderExecution", R("with_order_execution") == dyn_bool(g("withOrderExecution"))),
            ("with_print = withPrint", R("with_print") == dyn_bool(g("withPrint"))),
            ("max_normal_orders = maxNormalOrders if given, else unchanged", R("max_normal_orders") == z3.If(h("maxNormalOrders"), num(g("maxNormalOrders")), R0("max_normal_orders"))),
            ("max_high_frequency_orders = maxHighFrequencyOrders, or its deprecated spelling maxHifreqOrders, else unchanged", R("max_high_frequency_orders") == cap),
            ("high_frequency_submission_rate = highFrequencySubmitRate, or its deprecated spelling hifreqSubmitRate, else unchanged", R("high_frequency_submission_rate") == rate),
            ("session_start_time unchanged", R("session_start_time") == R0("session_start_time"))]


def ss_effect(st0, st1, a, res):
    # ghost: the configured execution switch of this session
    st1.set_gh("configured_exec", z3.Store(configured_exec(st1), a["self"].term, dyn_bool(get(st0, a["settings"], "withOrderExecution"))))


FIELDS = ["iteration_steps", "with_order_placement", "with_order_execution", "with_print", "max_normal_orders", "max_high_frequency_orders", "high_frequency_submission_rate"]
SESSION_SETUP = FSpec("Session.setup", post=ss_post, raises={"ValueError": ss_raises}, effect=ss_effect, props=("C09", "C18"),
                      modifies=lambda st, a: [("f:Session." + f, [a["self"].term]) for f in FIELDS])


@task("Session.setup", props=["C09", "C18"], functions=["Session.setup"], replay="config")
def t_session_setup():
    obl, info = SESSION_SETUP.verify()
    return {"obligations": obl, "info": [info]}
