"""deliberate property-breaking edits used by the thorough tier to validate the machinery itself (DESIGN 2.7 / 2.11): each edit is applied to a scratch copy of pams
(outside /repo and /verif), the named tasks are re-run on it, and at least one obligation must then fail (or the engine must refuse the code)."""
EDITS = {
    "C01": [("pams/market.py", "if buy_order.order_id < sell_order.order_id:\n                        price = buy_order.price", "if buy_order.order_id > sell_order.order_id:\n                        price = buy_order.price", ["Market._execution"])],
    "C02": [("pams/order_book.py", "            self.priority_queue.remove(order)\n            heapq.heapify(self.priority_queue)", "            self.priority_queue.remove(order)", ["OrderBook._remove"])],
    "C03": [("pams/market.py", "and buy_order.price < sell_order.price\n            ):\n                break", "and buy_order.price <= sell_order.price\n            ):\n                break", ["Market._execution"])],
    "C04": [("pams/order_book.py", "if key < self.time", "if key <= self.time", ["OrderBook._check_expired_orders"]),
            ("pams/order_book.py", "if order.volume == 0:\n            self._remove(order=order)", "if order.volume <= 1:\n            self._remove(order=order)", ["OrderBook.change_order_volume"]),
            ("pams/order.py", "return self.placed_at + self.ttl < time", "return self.placed_at + self.ttl <= time", ["Order lifetime predicates"]),
            ("pams/order.py", "        if self.order.is_canceled is True:\n            raise AttributeError(\"this order is already canceled\")\n", "", ["Order lifetime predicates"])],
    "C05": [("pams/simulator.py", "sell_agent.cash_amount += price * volume", "sell_agent.cash_amount += price", ["Simulator._update_agents_for_execution"])],
    "C06": [("pams/market.py", "            self._mid_prices[self.time] = self._mid_prices[self.time - 1]", "            self._mid_prices[self.time - 1] = self._mid_prices[self.time]", ["Market._update_time"]),
            ("pams/market.py", "if time > self.time:\n            raise AssertionError(\"Cannot refer the future parameters\")\n        result = parameters[time]", "if time > self.time + 1:\n            raise AssertionError(\"Cannot refer the future parameters\")\n        result = parameters[time]", ["Market._extract_data_by_time[prices]"])],
    "C07": [("pams/index_market.py", "for market_name in settings[\"markets\"]:", "for market_name in set(settings[\"markets\"]):", ["effects:no-ambient-nondeterminism"])],
    "C08": [("pams/market.py", "            if self._last_executed_prices[self.time] is not None:\n                self._market_prices[self.time] = self._last_executed_prices[self.time]\n            elif self._mid_prices[self.time] is not None:\n                self._market_prices[self.time] = self._mid_prices[self.time]",
             "            if self._mid_prices[self.time] is not None:\n                self._market_prices[self.time] = self._mid_prices[self.time]\n            elif self._last_executed_prices[self.time] is not None:\n                self._market_prices[self.time] = self._last_executed_prices[self.time]", ["Market._update_market_price"])],
    "C09": [("pams/runners/sequential.py", "if n_orders >= session.max_normal_orders:", "if n_orders > session.max_normal_orders:", ["SequentialRunner._collect_orders_from_normal_agents[Order]"])],
    "C10": [("pams/market.py", "        if self.logger is not None:\n            log.read_and_write(logger=self.logger)\n        return log\n\n    def _update_market_price", "        return log\n\n    def _update_market_price", ["Market._cancel_order"])],
    "C11": [("pams/runners/sequential.py", "                    agent = self.simulator.id2agent[order.order.agent_id]\n                    agent.canceled_order(log=log_)", "                    agent = self.simulator.id2agent[order.order.market_id]\n                    agent.canceled_order(log=log_)", ["SequentialRunner._handle_orders[normal,Cancel]"])],
    "C12": [("pams/fundamentals.py", "self._generated_until = min(start_at, self._generated_until)", "self._generated_until = max(start_at, self._generated_until)", ["Fundamentals.add_market"])],
    "C13": [("pams/simulator.py", "        time: int = session.session_start_time + session.iteration_steps - 1", "        time: int = session.session_start_time + session.iteration_steps", ["Simulator._trigger_event_after_session"])],
    "C14": [("pams/events/fundamental_price_shock.py", "for i in range(self.shock_time_length)", "for i in range(self.shock_time_length + 1)", ["FundamentalPriceShock.hook_registration"])],
    "C15": [("pams/events/price_limit_rule.py", "limited_price: float = min(max(order_price, min_price), max_price)", "limited_price: float = max(order_price, min_price)", ["PriceLimitRule.get_limited_price"])],
    "C16": [("pams/events/trading_halt_rule.py", "if abs(price_change) >= abs(threshold_change):", "if abs(price_change) > abs(threshold_change):", ["TradingHaltRule.hooked_after_execution"])],
    "C17": [("pams/index_market.py", "            total_value += market.get_market_price(time=time) * outstanding_shares\n            total_shares += outstanding_shares", "            total_value += market.get_market_price(time=time)\n            total_shares += 1", ["IndexMarket.compute_market_index"])],
    "C18": [("pams/session.py", "            self.max_high_frequency_orders = settings[\"maxHifreqOrders\"]", "            self.max_normal_orders = settings[\"maxHifreqOrders\"]", ["Session.setup"])],
    "C19": [("pams/market.py", "        if is_buy:\n            return self.convert_to_tick_level_rounded_lower(price=price)\n        else:\n            return self.convert_to_tick_level_rounded_upper(price=price)", "        if is_buy:\n            return self.convert_to_tick_level_rounded_upper(price=price)\n        else:\n            return self.convert_to_tick_level_rounded_lower(price=price)", ["Market._add_order"])],
    "C20": [("pams/agents/market_maker_agent.py", "price=base_price + price_margin,", "price=base_price + 2 * price_margin,", ["MarketMakerAgent.submit_orders"])],
}

# edits added with the later contracts (wrappers, registries, call-site censuses, dependencies found by the seeded rounds)
_MORE = {
    "C20": [("pams/agents/arbitrage_agent.py", "            orders.extend(self._submit_orders(market=market))", "            orders = self._submit_orders(market=market)", ["ArbitrageAgent.submit_orders"]),
            ("pams/agents/fcn_agent.py", "[self.submit_orders_by_market(market=market) for market in markets], []", "[self.submit_orders_by_market(market=markets[0]) for market in markets], []", ["FCNAgent.submit_orders"])],
    "C13": [("pams/simulator.py", "            \"market_after\": {},\n", "", ["Simulator.__init__[registries]"])],
    "C18": [("pams/runners/sequential.py", "        self._generate_markets(market_type_names=market_type_names)\n        self._set_fundamental_correlation()\n",
             "        self._set_fundamental_correlation()\n        self._generate_markets(market_type_names=market_type_names)\n", ["SequentialRunner._setup"]),
            ("pams/runners/sequential.py", "excludes_fields=[\"numMarkets\", \"from\", \"to\", \"prefix\"],", "excludes_fields=[\"numMarkets\", \"from\", \"to\", \"prefix\", \"enabled\"],", ["census:json_extends-call-sites"])],
    "C09": [("pams/simulator.py", "if isinstance(agent, HighFrequencyAgent):", "if type(agent) is HighFrequencyAgent:", ["Simulator._add_agent"])],
    "C12": [("pams/runners/sequential.py", "market_id2=market2.market_id,", "market_id2=market1.market_id,", ["SequentialRunner._set_fundamental_correlation[pair]"]),
            ("pams/fundamentals.py", "return [self.prices[market_id][x] for x in times]", "return [self.prices[market_id][max(x - 1, 0)] for x in times]", ["Fundamentals.get_fundamental_prices"])],
    "C16": [("pams/events/trading_halt_rule.py", "self.halted_session = simulator.current_session", "self.halted_session = self.session", ["TradingHaltRule.hooked_after_execution"])],
    "C05": [("pams/runners/sequential.py", "            market._is_running = session.with_order_execution\n", "            market._is_running = session.with_order_execution\n            market._execution()\n", ["census:callers[matching]"])],
}
for _k, _v in _MORE.items():
    EDITS.setdefault(_k, []).extend(_v)
