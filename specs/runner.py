"""SequentialRunner under trace contracts (DESIGN App. C): per-order pattern of _handle_orders (C11 callbacks, C13 hook call sites, C05 holdings update,
C09 execution gate) for the normal and the duplicated high-frequency path; caps and owner check (C09, C04); step / session / run skeleton (C06, C09, C10, C13)."""
import ast
import z3

from pyvc.core import *   # noqa
from pyvc.spec import FSpec, LoopSpec, ForEachTrace, task, emit, event, run_block, find_loops, match_trace, ELEM, havoc_with_frame
from pyvc.src import get_src
from .vocab import *      # noqa

Q = "SequentialRunner._handle_orders"
HOOK_MAY_CHANGE = ["f:Session.with_order_execution", "f:Market._is_running"]      # what a built-in or user event may legitimately touch (DESIGN 3.5)


def hook(kind, order_fields=False):
    """contract of Simulator._trigger_event_*: the matching hooks run (their own contract is task Simulator._trigger_*); events may switch
    execution off/on and, for before-order hooks, alter the pending order's price/volume/kind/side/ttl"""
    base = emit(kind)

    def h(ex, st, recv, pos, kw, node):
        outs = base(ex, st, recv, pos, kw, node)
        for s1, r in outs:
            mods = list(HOOK_MAY_CHANGE)
            if order_fields:
                o = list(kw.values())[0] if kw else pos[0]
                mods += [("f:Order." + f, [o.term]) for f in ("price", "volume", "kind", "is_buy", "ttl")]
            havoc_with_frame(s1, mods)
        return outs
    return h


def observe_flag(ex, st, obj, v):
    """ghost: the execution switch is read (trace event Gate(session, value))"""
    st.trace = st.trace + [("Gate", None, (obj.term, v.term))]


def handle_specs():
    return {("hook", "read", "Session", "with_order_execution"): observe_flag,
            ("m", "Simulator", "_trigger_event_before_order"): hook("HookBO", True), ("m", "Simulator", "_trigger_event_after_order"): hook("HookAO"),
            ("m", "Simulator", "_trigger_event_before_cancel"): hook("HookBC"), ("m", "Simulator", "_trigger_event_after_cancel"): hook("HookAC"),
            ("m", "Simulator", "_trigger_event_after_execution"): hook("HookAE"),
            ("m", "Simulator", "_update_agents_for_execution"): emit("Hold"),
            ("m", "Market", "_add_order"): emit("Add", result=("ref", "OrderLog"), fresh_result=True),
            ("m", "Market", "_cancel_order"): emit("Cancel", result=("ref", "CancelLog"), fresh_result=True),
            ("m", "Market", "_execution"): emit("Round", result=("list", ("ref", "ExecutionLog")), fresh_result=True),
            ("m", "Agent", "submitted_order"): emit("Sub"), ("m", "Agent", "canceled_order"): emit("Can"), ("m", "Agent", "executed_order"): emit("Exe")}


def element_body(which):
    fn = get_src().funcs[Q][0]
    loops = find_loops(fn, target_name="order", kind=ast.For)
    if len(loops) != 2:
        raise Unsupported(f"anchor-lost: expected two `for order in ...` loops in {Q}, found {len(loops)}")
    return loops[which]


def element_task(which, cls, label):
    loop = element_body(which)
    runner = sym_obj("SequentialRunner", "runner"); session = sym_obj("Session", "session"); order = sym_obj(cls, "the_order")
    env = {"self": runner, "session": session, "order": order, "agent": sym_obj("Agent", "loop_agent")}
    inner = [n for n in ast.walk(loop) if isinstance(n, ast.For) and n is not loop]
    fe = ForEachTrace(name="fills-of-the-round", modifies=HOOK_MAY_CHANGE)

    def assume(st):
        sim = st.read(runner, "simulator")
        o = order if cls == "Order" else st.read(order, "order")
        return [st.dict_has(st.read(sim, "id2market"), st.read(o, "market_id")), st.dict_has(st.read(sim, "id2agent"), st.read(o, "agent_id")),
                st.read(session, "with_order_placement").term]

    def elem_facts(st, elem, it):
        sim = st.read(runner, "simulator")
        return [st.dict_has(st.read(sim, "id2agent"), st.read(elem, "buy_agent_id")), st.dict_has(st.read(sim, "id2agent"), st.read(elem, "sell_agent_id"))]
    fe.elem_facts = elem_facts
    ex, st0, outs, obl = run_block(Q, loop.body, env, specs=handle_specs(), loops=[(n, fe) for n in inner], assume=assume, label=f"{Q}[{label},{cls}]")
    sim0 = st0.read(runner, "simulator")
    o0 = order if cls == "Order" else st0.read(order, "order")
    M0 = z3.Select(st0.dict_val(st0.read(sim0, "id2market")), st0.read(o0, "market_id").term)
    A0 = z3.Select(st0.dict_val(st0.read(sim0, "id2agent")), st0.read(o0, "agent_id").term)
    n_paths = 0
    for s1, kind, val in outs:
        if kind == "raise":
            s1.oblige(f"no-raise:{val[0]}@{val[1]}", z3.BoolVal(False), "no-raise")
            continue
        n_paths += 1
        tr = s1.trace
        names = [t[0] for t in tr]
        head = ["HookBO", "Add", "Sub", "HookAO"] if cls == "Order" else ["HookBC", "Cancel", "Can", "HookAC"]
        if names[:4] != head:
            s1.oblige(f"trace:per-{cls.lower()} pattern starts with {head} (got {names[:4]})", z3.BoolVal(False), "trace"); continue
        t_hook, t_mkt, t_cb, t_after = tr[0], tr[1], tr[2], tr[3]
        log = t_mkt[2][-1]
        s1.oblige("trace:C13 the before-hook announces this very order/cancel and precedes the market call", z3.And(t_hook[2][0] == sim0.term, t_hook[2][1] == order.term), "trace")
        s1.oblige("trace:the order/cancel goes to the market it names", z3.And(t_mkt[2][0] == M0, t_mkt[2][1] == order.term), "trace")
        s1.oblige("trace:C11 the owning agent, and nobody else, is notified exactly once with the market's log", z3.And(t_cb[2][0] == A0, t_cb[2][1] == log), "trace")
        s1.oblige("trace:C13 the after-hook gets the market's log", z3.And(t_after[2][0] == sim0.term, t_after[2][1] == log), "trace")
        tail = tr[4:]
        if not tail or tail[0][0] != "Gate":
            s1.oblige(f"trace:C09 after the hooks the execution switch of the session is consulted (got {[t[0] for t in tail][:1]})", z3.BoolVal(False), "trace"); continue
        gate, tail = tail[0], tail[1:]
        s1.oblige("trace:C09 the gate is this session's execution switch, read after the after-hooks", gate[2][0] == session.term, "trace")
        flag_then = gate[2][1]
        if tail:
            ok = [t[0] for t in tail] == ["Round", "Hold", "ForEach"]
            if not ok:
                s1.oblige(f"trace:round part is Round, Hold, ForEach (got {[t[0] for t in tail]})", z3.BoolVal(False), "trace"); continue
            rnd, hold, fe_ev = tail
            logs = rnd[2][-1]
            s1.oblige("trace:C09 a matching round runs only while the session's execution switch is on", flag_then, "trace")
            s1.oblige("trace:C09 the round runs on the order's market", rnd[2][0] == M0, "trace")
            s1.oblige("trace:C05 the fills of the round are applied to holdings exactly once, before any notification", z3.And(hold[2][0] == sim0.term, hold[2][1] == logs), "trace")
            seq, tmpl = fe_ev[2]
            kinds = [t[0] for t in tmpl]
            if kinds != ["Exe", "Exe", "HookAE"]:
                s1.oblige(f"trace:C11 per fill: buyer notified, seller notified, after-execution hooks (got {kinds})", z3.BoolVal(False), "trace"); continue
            id2a = s1.dict_val(s1.read(sim0, "id2agent"))
            LB, LS = s1.F("ExecutionLog", "buy_agent_id"), s1.F("ExecutionLog", "sell_agent_id")
            s1.oblige("trace:C11 the notifications range over exactly the fills of this round", seq == logs, "trace")
            s1.oblige("trace:C11 buyer and seller of each fill are each notified exactly once with that fill's record; C13 after-execution hook per fill",
                      z3.And(tmpl[0][2][0] == z3.Select(id2a, LB[ELEM]), tmpl[0][2][1] == ELEM, tmpl[1][2][0] == z3.Select(id2a, LS[ELEM]), tmpl[1][2][1] == ELEM,
                             tmpl[2][2][0] == sim0.term, tmpl[2][2][1] == ELEM, *[z3.BoolVal(t[1] is None) for t in tmpl]), "trace")
        else:
            s1.oblige("trace:C09 in an execution session a matching round follows every accepted order or cancel", z3.Not(flag_then), "trace")
    obl.append({"name": f"{Q}[{label},{cls}]/cover:some path completes", "pc": [], "goal": z3.BoolVal(n_paths > 0), "kind": "cover"})
    info = {"function": f"{Q} (body of `for order in ...` #{which}, element {cls})", "source_sha": get_src().source_hash(Q), "where": get_src().where(Q), "paths": n_paths,
            "assumptions": sorted(ex.used_assumptions | {"for-each rule: a loop whose body is verified for an arbitrary element performs the body's trace once per element, in order",
                                                         "events may change only the execution switch, markets' running flags and (before-order hooks) the pending order's price/volume/kind/side/ttl (DESIGN 3.5)"})}
    return obl, info


def make_element_tasks():
    for which, label in ((0, "normal"), (1, "hft")):
        for cls in ("Order", "Cancel"):
            def build(which=which, cls=cls, label=label):
                obl, info = element_task(which, cls, label)
                return {"obligations": obl, "info": [info]}
            build.__doc__ = f"per-element trace pattern, {label} path, element is a {cls}"
            task(f"{Q}[{label},{cls}]", props=["C11", "C13", "C09", "C05", "C10"], functions=[Q], replay="whole_run")(build)


make_element_tasks()
