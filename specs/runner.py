"""SequentialRunner under trace contracts (DESIGN App. C): per-order pattern of _handle_orders (C11 callbacks, C13 hook call sites, C05 holdings update,
C09 execution gate) for the normal and the duplicated high-frequency path; caps and owner check (C09, C04); step / session / run skeleton (C06, C09, C10, C13)."""
import ast
import z3

from pyvc.core import *   # noqa
from pyvc.spec import FSpec, LoopSpec, ForEachTrace, task, emit, event, run_block, find_loops, match_trace, ELEM, havoc_with_frame
from pyvc.src import get_src
from .vocab import *      # noqa

Q = "SequentialRunner._handle_orders"
HOOK_MAY_CHANGE = ["f:Session.with_order_execution", "f:Market._is_running"]      # what a built-in or user event may legitimately touch (DESIGN 3.5)


def hook(kind, order_fields=False):
    """contract of Simulator._trigger_event_*: the matching hooks run (their own contract is task Simulator._trigger_*); events may switch
    execution off/on and, for before-order hooks, alter the pending order's price/volume/kind/side/ttl"""
    base = emit(kind)

    def h(ex, st, recv, pos, kw, node):
        outs = base(ex, st, recv, pos, kw, node)
        for s1, r in outs:
            mods = list(HOOK_MAY_CHANGE)
            if order_fields:
                o = list(kw.values())[0] if kw else pos[0]
                mods += [("f:Order." + f, [o.term]) for f in ("price", "volume", "kind", "is_buy", "ttl")]
            havoc_with_frame(s1, mods)
        return outs
    return h


def observe_flag(ex, st, obj, v):
    """ghost: the execution switch is read (trace event Gate(session, value))"""
    st.trace = st.trace + [("Gate", None, (obj.term, v.term))]


def handle_specs():
    return {("hook", "read", "Session", "with_order_execution"): observe_flag,
            ("m", "Simulator", "_trigger_event_before_order"): hook("HookBO", True), ("m", "Simulator", "_trigger_event_after_order"): hook("HookAO"),
            ("m", "Simulator", "_trigger_event_before_cancel"): hook("HookBC"), ("m", "Simulator", "_trigger_event_after_cancel"): hook("HookAC"),
            ("m", "Simulator", "_trigger_event_after_execution"): hook("HookAE"),
            ("m", "Simulator", "_update_agents_for_execution"): emit("Hold"),
            ("m", "Market", "_add_order"): emit("Add", result=("ref", "OrderLog"), fresh_result=True),
            ("m", "Market", "_cancel_order"): emit("Cancel", result=("ref", "CancelLog"), fresh_result=True),
            ("m", "Market", "_execution"): emit("Round", result=("list", ("ref", "ExecutionLog")), fresh_result=True),
            ("m", "Agent", "submitted_order"): emit("Sub"), ("m", "Agent", "canceled_order"): emit("Can"), ("m", "Agent", "executed_order"): emit("Exe")}


def element_body(which):
    fn = get_src().funcs[Q][0]
    loops = find_loops(fn, target_name="order", kind=ast.For)
    if len(loops) != 2:
        raise Unsupported(f"anchor-lost: expected two `for order in ...` loops in {Q}, found {len(loops)}")
    return loops[which]


def element_task(which, cls, label):
    loop = element_body(which)
    runner = sym_obj("SequentialRunner", "runner"); session = sym_obj("Session", "session"); order = sym_obj(cls, "the_order")
    env = {"self": runner, "session": session, "order": order, "agent": sym_obj("Agent", "loop_agent")}
    inner = [n for n in ast.walk(loop) if isinstance(n, ast.For) and n is not loop and ast.unparse(n.iter) == "logs"]
    fe = ForEachTrace(name="fills-of-the-round", modifies=HOOK_MAY_CHANGE)

    def assume(st):
        sim = st.read(runner, "simulator")
        o = order if cls == "Order" else st.read(order, "order")
        return [st.dict_has(st.read(sim, "id2market"), st.read(o, "market_id")), st.dict_has(st.read(sim, "id2agent"), st.read(o, "agent_id")),
                st.read(session, "with_order_placement").term]

    def elem_facts(st, elem, it):
        sim = st.read(runner, "simulator")
        return [st.dict_has(st.read(sim, "id2agent"), st.read(elem, "buy_agent_id")), st.dict_has(st.read(sim, "id2agent"), st.read(elem, "sell_agent_id"))]
    fe.elem_facts = elem_facts
    # locals bound before the batch loop (function preamble) are evaluated from the real statements, so a value hoisted out of the loop is seen as such
    fn = get_src().funcs[Q][0]
    outer = find_loops(fn, target_name="orders", kind=ast.For)
    pre_stmts = fn.body[:fn.body.index(outer[0])] if outer and outer[0] in fn.body else []
    pre_stmts = [s_ for s_ in pre_stmts if not (isinstance(s_, ast.Expr) and isinstance(s_.value, ast.Constant))]
    local_orders = V(("list", ("list", ("ref", cls))), z3.Const("local_orders", REF))

    def setup(ex_, st_):
        if not pre_stmts:
            return
        s0 = st_.copy(); s0.env = {"self": runner, "session": session, "local_orders": local_orders}
        res = [x for x in ex_.run(pre_stmts, s0, 0) if x[1] == "fall"]
        if len(res) != 1:
            raise Unsupported(f"anchor-lost: preamble of {Q} is not straight-line")
        s1 = res[0][0]
        for k_, v_ in s1.env.items():
            if k_ not in st_.env:
                st_.env[k_] = v_
        st_.heap.update(s1.heap); st_.pc[:] = s1.pc; st_.trace = []
    ex, st0, outs, obl = run_block(Q, loop.body, env, specs=handle_specs(), loops=[(n, fe) for n in inner], assume=assume, setup=setup, label=f"{Q}[{label},{cls}]")
    sim0 = st0.read(runner, "simulator")
    o0 = order if cls == "Order" else st0.read(order, "order")
    M0 = z3.Select(st0.dict_val(st0.read(sim0, "id2market")), st0.read(o0, "market_id").term)
    A0 = z3.Select(st0.dict_val(st0.read(sim0, "id2agent")), st0.read(o0, "agent_id").term)
    n_paths = 0
    for s1, kind, val in outs:
        if kind == "raise":
            s1.oblige(f"no-raise:{val[0]}@{val[1]}", z3.BoolVal(False), "no-raise")
            continue
        n_paths += 1
        tr = s1.trace
        names = [t[0] for t in tr]
        head = ["HookBO", "Add", "Sub", "HookAO"] if cls == "Order" else ["HookBC", "Cancel", "Can", "HookAC"]
        if names[:4] != head:
            s1.oblige(f"trace:per-{cls.lower()} pattern starts with {head} (got {names[:4]})", z3.BoolVal(False), "trace"); continue
        t_hook, t_mkt, t_cb, t_after = tr[0], tr[1], tr[2], tr[3]
        log = t_mkt[2][-1]
        s1.oblige("trace:C13 the before-hook announces this very order/cancel and precedes the market call", z3.And(t_hook[2][0] == sim0.term, t_hook[2][1] == order.term), "trace")
        s1.oblige("trace:the order/cancel goes to the market it names", z3.And(t_mkt[2][0] == M0, t_mkt[2][1] == order.term), "trace")
        s1.oblige("trace:C11 the owning agent, and nobody else, is notified exactly once with the market's log", z3.And(t_cb[2][0] == A0, t_cb[2][1] == log), "trace")
        s1.oblige("trace:C13 the after-hook gets the market's log", z3.And(t_after[2][0] == sim0.term, t_after[2][1] == log), "trace")
        tail = tr[4:]
        if not tail or tail[0][0] != "Gate":
            s1.oblige(f"trace:C09 after the hooks the execution switch of the session is consulted (got {[t[0] for t in tail][:1]})", z3.BoolVal(False), "trace"); continue
        gate, tail = tail[0], tail[1:]
        s1.oblige("trace:C09 the gate is this session's execution switch, read after the after-hooks", gate[2][0] == session.term, "trace")
        flag_then = gate[2][1]
        if tail:
            ok = [t[0] for t in tail] == ["Round", "Hold", "ForEach"]
            if not ok:
                s1.oblige(f"trace:round part is Round, Hold, ForEach (got {[t[0] for t in tail]})", z3.BoolVal(False), "trace"); continue
            rnd, hold, fe_ev = tail
            logs = rnd[2][-1]
            s1.oblige("trace:C09 a matching round runs only while the session's execution switch is on", flag_then, "trace")
            s1.oblige("trace:C09 the round runs on the order's market", rnd[2][0] == M0, "trace")
            s1.oblige("trace:C05 the fills of the round are applied to holdings exactly once, before any notification", z3.And(hold[2][0] == sim0.term, hold[2][1] == logs), "trace")
            seq, tmpl = fe_ev[2]
            kinds = [t[0] for t in tmpl]
            if kinds != ["Exe", "Exe", "HookAE"]:
                s1.oblige(f"trace:C11 per fill: buyer notified, seller notified, after-execution hooks (got {kinds})", z3.BoolVal(False), "trace"); continue
            id2a = s1.dict_val(s1.read(sim0, "id2agent"))
            LB, LS = s1.F("ExecutionLog", "buy_agent_id"), s1.F("ExecutionLog", "sell_agent_id")
            s1.oblige("trace:C11 the notifications range over exactly the fills of this round", seq == logs, "trace")
            s1.oblige("trace:C11 buyer and seller of each fill are each notified exactly once with that fill's record; C13 after-execution hook per fill",
                      z3.And(tmpl[0][2][0] == z3.Select(id2a, LB[ELEM]), tmpl[0][2][1] == ELEM, tmpl[1][2][0] == z3.Select(id2a, LS[ELEM]), tmpl[1][2][1] == ELEM,
                             tmpl[2][2][0] == sim0.term, tmpl[2][2][1] == ELEM, *[z3.BoolVal(t[1] is None) for t in tmpl]), "trace")
        else:
            s1.oblige("trace:C09 in an execution session a matching round follows every accepted order or cancel", z3.Not(flag_then), "trace")
    obl.append({"name": f"{Q}[{label},{cls}]/cover:some path completes", "pc": [], "goal": z3.BoolVal(n_paths > 0), "kind": "cover"})
    info = {"function": f"{Q} (body of `for order in ...` #{which}, element {cls})", "source_sha": get_src().source_hash(Q), "where": get_src().where(Q), "paths": n_paths,
            "assumptions": sorted(ex.used_assumptions | {"for-each rule: a loop whose body is verified for an arbitrary element performs the body's trace once per element, in order",
                                                         "events may change only the execution switch, markets' running flags and (before-order hooks) the pending order's price/volume/kind/side/ttl (DESIGN 3.5)"})}
    return obl, info


def make_element_tasks():
    for which, label in ((0, "normal"), (1, "hft")):
        for cls in ("Order", "Cancel"):
            def build(which=which, cls=cls, label=label):
                obl, info = element_task(which, cls, label)
                return {"obligations": obl, "info": [info]}
            build.__doc__ = f"per-element trace pattern, {label} path, element is a {cls}"
            task(f"{Q}[{label},{cls}]", props=["C11", "C13", "C09", "C05", "C10"], functions=[Q], replay="whole_run")(build)


make_element_tasks()


# ----------------------------------------------------------------------------- _collect_orders_from_normal_agents (C09 caps, placement gate; C04 owner check)
QC = "SequentialRunner._collect_orders_from_normal_agents"


def owner_of(st, o, cls):
    return st.read(o, "agent_id").term if cls == "Order" else st.read(st.read(o, "order"), "agent_id").term


def collect_task(cls):
    batch_ty = ("list", ("ref", cls))
    fn = get_src().funcs[QC][0]

    def consult(ex, st, recv, pos, kw, node):
        """Agent.submit_orders(markets): user program -- returns an arbitrary fresh list of orders (ghost event Consult(agent))"""
        st = st.copy()
        n, cap = st.env["n_orders"].term, to_real(st.read(st.env["session"], "max_normal_orders"))
        st.oblige("C09 an agent is consulted only while fewer than maxNormalOrders agents have produced orders", z3.ToReal(n) < cap, "pre@callsite")
        it = st.env["agents"]; i = st.ghost.get("loop_index")
        if i is not None:
            el = z3.Select(st.elems(it.term, ("ref", "Agent")), i)
            st.oblige("C09 the agent consulted in iteration i is the i-th agent of the shuffled list (each at most once)", recv.term == el, "pre@callsite")
        res = V(batch_ty, st.new_ref("batch"))
        st.assume(st.length(res.term) >= 0)
        st.trace = st.trace + [("Consult", None, (recv.term, res.term))]
        st.set_gh("consults", z3.Store(st.gh("consults"), st.env["self"].term, z3.Select(st.gh("consults"), st.env["self"].term) + 1))
        return [(st, res)]

    def inv(st, ctx):
        e = st.env; i = ctx["i"]; ent = ctx["entry"]
        n = e["n_orders"].term; ao = e["all_orders"].term
        cap = to_real(st.read(e["session"], "max_normal_orders"))
        j = z3.Int("j_col"); k = z3.Int("k_col")
        outer = st.elems(ao, batch_ty)
        agents_el = ent.elems(e["agents"].term, ("ref", "Agent"))
        own = lambda b, kk: owner_of(st, V(("ref", cls), z3.Select(st.elems(b, ("ref", cls)), kk)), cls)
        src = st.gh("batch_agent")
        return [("n_orders = number of collected batches", z3.And(n == st.length(ao), 0 <= n, n <= i)),
                ("one consultation per iteration so far", z3.Select(st.gh("consults"), e["self"].term) == z3.Select(ent.gh("consults"), e["self"].term) + i),
                ("C09 a batch is admitted only while fewer than maxNormalOrders agents have produced orders", z3.Or(n == 0, z3.ToReal(n - 1) < cap)),
                ("C09 some iteration ran only if the cap is positive", z3.Implies(i > 0, cap > 0)),
                ("C04 every collected batch is non-empty and every order in it belongs to the agent that produced it",
                 z3.ForAll([j], z3.Implies(z3.And(0 <= j, j < n), z3.And(st.length(z3.Select(outer, j)) > 0, ent.is_alloc(z3.Select(outer, j)) == False, st.is_alloc(z3.Select(outer, j)),
                           z3.ForAll([k], z3.Implies(z3.And(0 <= k, k < st.length(z3.Select(outer, j))), own(z3.Select(outer, j), k) == st.F("Agent", "agent_id")[z3.Select(src, z3.Select(outer, j))])))))),
                ("C09 batches are accepted only in a session with order placement", z3.Implies(n > 0, st.read(e["session"], "with_order_placement").term))]

    def on_iter(ex, st, ctx):
        st.ghost["loop_index"] = ctx["i"]

    def mods(st, ctx):
        ao = st.env["all_orders"].term
        return [("len", [ao]), ("mem", [ao]), ("el:Ref", [ao]), ("nodup", [ao]), ("heapok", [ao]), "g:consults", "g:batch_agent"]

    def ghost_after_append(ex, s1):
        # ghost: remember which agent produced the batch just collected
        s1.set_gh("batch_agent", z3.Store(s1.gh("batch_agent"), s1.env["orders"].term, s1.env["agent"].term))

    def post(st0, st1, a, res):
        n = st1.length(res.term)
        cap = to_real(st0.read(a["session"], "max_normal_orders"))
        nag = st0.length(st0.read(st0.read(a["self"], "simulator"), "normal_frequency_agents").term)
        c0, c1 = z3.Select(st0.gh("consults"), a["self"].term), z3.Select(st1.gh("consults"), a["self"].term)
        return [("C09 the number of collected batches stays below maxNormalOrders + 1 (exactly <= maxNormalOrders for an integer cap)", z3.Or(n == 0, z3.ToReal(n - 1) < cap)),
                ("C09 no more consultations than normal agents, each agent at most once", z3.And(c1 - c0 <= nag, c1 - c0 >= 0)),
                ("C09 with cap 0 nobody is consulted", z3.Implies(cap <= 0, c1 == c0)),
                ("C09 batches only in a placement session", z3.Implies(n > 0, st0.read(a["session"], "with_order_placement").term))]
    spec = FSpec(QC, post=post, fresh_result=True, result=("list", batch_ty), props=("C09", "C04"),
                 modifies=lambda st, a: ["len", "mem", "el:Ref", "nodup", "heapok", "g:consults", "g:batch_agent"],
                 raises={})
    spec.may_raise = {"AssertionError": lambda st, a: z3.Not(st.read(a["session"], "with_order_placement").term),
                      "ValueError": lambda st, a: z3.BoolVal(True)}     # spoofing order: rejected (the batch is not collected) -- see invariant C04

    def setup(ex, st, a):
        ex.ghost_after = {"all_orders.append(orders)": ghost_after_append}
        st.gh("consults"); st.gh("batch_agent", lambda: z3.ArraySort(REF, REF))
    loops = {0: LoopSpec(inv, modifies=mods, header="agents", name="consult-normal-agents", on_iter=on_iter)}
    obl, info = spec.verify(specs={("m", "Agent", "submit_orders"): consult}, loops=loops, setup=setup)
    info["function"] = f"{QC} (batches of {cls})"
    info["assumptions"] = info["assumptions"] + ["batches analysed as homogeneous lists (all Order / all Cancel); the code treats elements independently"]
    return {"obligations": obl, "info": [info]}


for _cls in ("Order", "Cancel"):
    task(f"{QC}[{_cls}]", props=["C09", "C04"], functions=[QC], replay="whole_run")(lambda _cls=_cls: collect_task(_cls))


# ----------------------------------------------------------------------------- high-frequency phase after each batch (C09: rate draw, cap, interleaving)
class SummaryLoop:
    """an inner loop whose body is verified separately (per-element tasks above): summarised as one trace event + havoc of what its body may change"""

    def __init__(self, kind, modifies, header=None, name="summary"):
        self.kind, self.modifies, self.header, self.name = kind, list(modifies), header, name

    def run_for(self, ex, s, st, d):
        out = []
        for s1, it in ex.ev(s.iter, st, d):
            s1 = s1.copy()
            s1.trace = s1.trace + [(self.kind, None, (it.term,))]
            havoc_with_frame(s1, self.modifies)
            out.append((s1, "fall", None))
        return out


def hft_task(cls):
    fn = get_src().funcs[Q][0]
    outer = find_loops(fn, target_name="orders", kind=ast.For)
    if len(outer) != 1:
        raise Unsupported(f"anchor-lost: `for orders in sequential_orders` not found in {Q}")
    body = outer[0].body
    # the statements after the per-order loop of the batch
    idx = [i for i, s_ in enumerate(body) if isinstance(s_, ast.For)][0]
    stmts = body[idx + 1:]
    agent_loop = [n for n in stmts if isinstance(n, ast.For)]
    if len(agent_loop) != 1 or ast.unparse(agent_loop[0].iter) != "agents":
        raise Unsupported(f"anchor-lost: high-frequency agent loop not found in {Q}")
    inner = [n for n in ast.walk(agent_loop[0]) if isinstance(n, ast.For) and n is not agent_loop[0]]
    batch_ty = ("list", ("ref", cls))
    runner = sym_obj("SequentialRunner", "runner"); session = sym_obj("Session", "session")
    all_orders = V(("list", batch_ty), z3.Const("all_orders", REF))
    # the counter and the agent list are (re)assigned at the start of every high-frequency phase; should a phase not assign them itself they are whatever an earlier
    # batch left behind (arbitrary values here), and the loop invariant's initial condition `counter = 0` then fails by name instead of crashing the spec
    env = {"self": runner, "session": session, "all_orders": all_orders, "agent": sym_obj("Agent", "loop_agent"),
           "n_high_freq_orders": V(("int",), z3.Int("carried_n_high_freq_orders")), "agents": V(("list", ("ref", "Agent")), z3.Const("carried_agents", REF))}

    def consult(ex, st, recv, pos, kw, node):
        st = st.copy()
        n, cap = st.env["n_high_freq_orders"].term, to_real(st.read(st.env["session"], "max_high_frequency_orders"))
        st.oblige("C09 a high-frequency agent is consulted only while fewer than maxHighFrequencyOrders of them have produced orders", z3.ToReal(n) < cap, "pre@callsite")
        i = st.ghost.get("loop_index")
        if i is not None:
            st.oblige("C09 the agent consulted in iteration i is the i-th agent of the shuffled list (each at most once per batch)",
                      recv.term == z3.Select(st.elems(st.env["agents"].term, ("ref", "Agent")), i), "pre@callsite")
        res = V(batch_ty, st.new_ref("hft_batch")); st.assume(st.length(res.term) >= 0)
        st.trace = st.trace + [("Consult", None, (recv.term, res.term))]
        return [(st, res)]

    def inv(st, ctx):
        e = st.env; i = ctx["i"]
        n = e["n_high_freq_orders"].term
        cap = to_real(st.read(e["session"], "max_high_frequency_orders"))
        return [("0 <= n_high_freq_orders <= i", z3.And(0 <= n, n <= i)),
                ("C09 a high-frequency batch is admitted only while fewer than maxHighFrequencyOrders agents have produced orders", z3.Or(n == 0, z3.ToReal(n - 1) < cap)),
                ("C09 some iteration ran only if the cap is positive", z3.Implies(i > 0, cap > 0)),
                ("C09 batches only in a placement session", z3.Implies(n > 0, st.read(e["session"], "with_order_placement").term))]

    def on_iter(ex, st, ctx):
        st.ghost["loop_index"] = ctx["i"]
    order_mods = HOOK_MAY_CHANGE + ["f:Order.price", "f:Order.volume", "f:Order.kind", "f:Order.is_buy", "f:Order.ttl"]
    loops = [(agent_loop[0], LoopSpec(inv, modifies=lambda st, ctx: order_mods + [(k, [st.env["all_orders"].term]) for k in ("len", "mem", "el:Ref", "nodup", "heapok")],
                                      name="consult-hft-agents", on_iter=on_iter))]
    loops += [(n, SummaryLoop("HandleBatch", order_mods, name="handle-hft-batch")) for n in inner]
    ex, st0, outs, obl = run_block(Q, stmts, env, specs={("m", "Agent", "submit_orders"): consult}, loops=loops, label=f"{Q}[hft-phase,{cls}]")
    rate = to_real(st0.read(session, "high_frequency_submission_rate"))
    npaths = 0
    for s1, kind, val in outs:
        if kind == "raise":
            allowed = {"AssertionError": z3.Not(s1.read(session, "with_order_placement").term), "ValueError": z3.BoolVal(True)}
            s1.oblige(f"raises:{val[0]} only for a batch in a non-placement session / a spoofed order", allowed.get(val[0], z3.BoolVal(False)), "raises")
            continue
        npaths += 1
        draws = [t for t in s1.trace if t[0] == "Draw"]
        if kind == "continue":
            s1.oblige("trace:the high-frequency phase is skipped only after the rate draw, without consulting anybody", z3.BoolVal([t[0] for t in s1.trace] == ["Draw"]), "trace")
            continue
        # phase entered: the first draw u satisfies rate >= u
        if not draws or s1.trace[0][0] != "Draw":
            s1.oblige("trace:the phase starts with the rate draw", z3.BoolVal(False), "trace")
    # the draw decides: phase entered iff rate >= u (from the real condition `rate < random()` -> continue)
    obl.append({"name": f"{Q}[hft-phase,{cls}]/cover:paths", "pc": [], "goal": z3.BoolVal(npaths > 0), "kind": "cover"})
    info = {"function": f"{Q} (high-frequency phase after each batch, batches of {cls})", "source_sha": get_src().source_hash(Q), "where": get_src().where(Q), "paths": npaths,
            "assumptions": sorted(ex.used_assumptions | {"the per-order handling inside the phase is the pattern verified by tasks _handle_orders[hft,*]"})}
    return {"obligations": obl, "info": [info]}


for _cls in ("Order", "Cancel"):
    task(f"{Q}[hft-phase,{_cls}]", props=["C09", "C04"], functions=[Q], replay="whole_run")(lambda _cls=_cls: hft_task(_cls))


# ----------------------------------------------------------------------------- step / session / run skeleton (C06, C09, C10, C13)
QI = "SequentialRunner._iterate_market_updates"
QR = "SequentialRunner._run"


def new_log(kind):
    def h(ex, st, clsv, pos, kw, node):
        st = st.copy()
        r = V(("ref", clsv.py), st.new_ref(clsv.py.lower()))
        args = list(pos) + [kw[k] for k in kw]
        st.trace = st.trace + [(kind, None, tuple([r.term] + [a.term for a in args]))]
        return [(st, r)]
    return h


def skeleton_specs():
    sp = {("m", "Simulator", "_trigger_event_before_step_for_market"): hook("HookBM"), ("m", "Simulator", "_trigger_event_after_step_for_market"): hook("HookAM"),
          ("m", "Simulator", "_trigger_event_before_session"): hook("HookBS"), ("m", "Simulator", "_trigger_event_after_session"): hook("HookAS"),
          ("m", "Simulator", "_update_times_on_markets"): emit("TickAll"), ("m", "SequentialRunner", "_update_markets"): hook("UpdateMarkets"),
          ("m", "SequentialRunner", "_iterate_market_updates"): hook("Iterate"),
          ("m", "Log", "read_and_write_with_direct_process"): emit("Direct"), ("m", "Log", "read_and_write"): emit("Write"), ("m", "Logger", "_process"): emit("Flush"),
          ("hook", "read", "Session", "with_order_placement"): lambda ex, st, obj, v: setattr(st, "trace", st.trace + [("GatePlacement", None, (obj.term, v.term))])}
    for c in ("MarketStepBeginLog", "MarketStepEndLog", "SessionBeginLog", "SessionEndLog", "SimulationBeginLog", "SimulationEndLog"):
        sp[("ctor", c)] = new_log("New" + c)
    return sp


def kinds(tr):
    return [t[0] for t in tr]


@task(QI + "[step]", props=["C06", "C09", "C10", "C13"], functions=[QI], replay="whole_run")
def t_step_body():
    """one step of a session: before-step hooks and synchronous step-begin records for every market, the order phase iff the session allows placement,
    step-end records and after-step hooks for every market, then one clock tick for all markets"""
    fn = get_src().funcs[QI][0]
    steps = [n for n in find_loops(fn, kind=ast.For) if ast.unparse(n.iter) == "range(session.iteration_steps)"]
    if len(steps) != 1:
        raise Unsupported(f"anchor-lost: `for _ in range(session.iteration_steps)` not found in {QI}")
    inner = [n for n in steps[0].body if isinstance(n, ast.For)]
    runner = sym_obj("SequentialRunner", "runner"); session = sym_obj("Session", "session")
    markets = V(("list", ("ref", "Market")), z3.Const("markets", REF))
    env = {"self": runner, "session": session, "markets": markets}
    loops = [(n, ForEachTrace(name=f"markets-{i}", modifies=HOOK_MAY_CHANGE)) for i, n in enumerate(inner)]
    ex, st0, outs, obl = run_block(QI, steps[0].body, env, specs=skeleton_specs(), loops=loops, label=QI + "[step]")
    lg = st0.read(runner, "logger"); sim = st0.read(runner, "simulator")
    n = 0
    for s1, kind, val in outs:
        if kind == "raise":
            s1.oblige(f"no-raise:{val[0]}@{val[1]}", z3.BoolVal(False), "no-raise"); continue
        n += 1
        tr = s1.trace
        ks = kinds(tr)
        if ks[:2] != ["ForEach", "GatePlacement"] or ks[-2:] != ["ForEach", "TickAll"] or ks[2:-2] not in ([], ["UpdateMarkets"]):
            s1.oblige(f"trace:step = begin-loop, placement gate, [order phase], end-loop, tick (got {ks})", z3.BoolVal(False), "trace"); continue
        b_seq, b_all = tr[0][2]; e_seq, e_all = tr[-2][2]
        from pyvc.spec import implied
        for has_logger in (True, False):
            cond = z3.Not(lg.none) if has_logger else lg.none
            pick = lambda tm: [t for t in tm if t[1] is None or implied([t[1]], cond)]
            b_tmpl, e_tmpl = pick(b_all), pick(e_all)
            exp_b = ["HookBM"] + (["NewMarketStepBeginLog", "Direct"] if has_logger else [])
            exp_e = (["NewMarketStepEndLog", "Direct"] if has_logger else []) + ["HookAM"]
            tag = "with a logger" if has_logger else "without a logger"
            s1.oblige(f"trace:C13/C10 per market at step begin ({tag}): {exp_b} (got {kinds(b_tmpl)})", z3.BoolVal(kinds(b_tmpl) == exp_b), "trace")
            s1.oblige(f"trace:C13/C10 per market at step end ({tag}): {exp_e} (got {kinds(e_tmpl)})", z3.BoolVal(kinds(e_tmpl) == exp_e), "trace")
            if kinds(b_tmpl) == exp_b and kinds(e_tmpl) == exp_e:
                eqs = [b_seq == markets.term, e_seq == markets.term, b_tmpl[0][2][1] == ELEM, e_tmpl[-1][2][1] == ELEM]
                if has_logger:
                    eqs += [b_tmpl[1][2][1] == session.term, b_tmpl[1][2][2] == ELEM, b_tmpl[2][2][0] == b_tmpl[1][2][0], b_tmpl[2][2][1] == lg.term,
                            e_tmpl[0][2][1] == session.term, e_tmpl[0][2][2] == ELEM, e_tmpl[1][2][0] == e_tmpl[0][2][0], e_tmpl[1][2][1] == lg.term]
                s1.oblige(f"trace:the hooks and step records range over all markets, each for its own market; records go to the runner's logger directly ({tag})", z3.And(*eqs), "trace")
        gate = tr[1]
        s1.oblige("trace:C09 the order phase runs iff the session's placement switch is on", z3.And(gate[2][0] == session.term, gate[2][1] == z3.BoolVal(len(ks) == 5)), "trace")
        s1.oblige("trace:C06 one clock update per step, for all markets together", tr[-1][2][1] == s1.read(sim, "markets").term, "trace")
    obl.append({"name": QI + "[step]/cover:paths", "pc": [], "goal": z3.BoolVal(n >= 2), "kind": "cover"})
    info = {"function": QI + " (body of the step loop)", "source_sha": get_src().source_hash(QI), "where": get_src().where(QI), "paths": n, "assumptions": sorted(ex.used_assumptions)}
    return {"obligations": obl, "info": [info]}


def implied_(st, f):
    from pyvc.spec import implied
    return implied(st.pc, f)


@task(QR + "[session]", props=["C06", "C09", "C10", "C13"], functions=[QR], replay="whole_run")
def t_session_body():
    """one session of a run: current session set, before-session hooks, SessionBegin record + flush, the session's steps, after-session hooks, SessionEnd record + flush"""
    fn = get_src().funcs[QR][0]
    ses = [n for n in find_loops(fn, target_name="session", kind=ast.For)]
    if len(ses) != 1:
        raise Unsupported(f"anchor-lost: `for session in self.simulator.sessions` not found in {QR}")
    runner = sym_obj("SequentialRunner", "runner"); session = sym_obj("Session", "session")
    ex, st0, outs, obl = run_block(QR, ses[0].body, {"self": runner, "session": session}, specs=skeleton_specs(), label=QR + "[session]")
    lg = st0.read(runner, "logger"); sim = st0.read(runner, "simulator")
    n = 0
    for s1, kind, val in outs:
        if kind == "raise":
            s1.oblige(f"no-raise:{val[0]}@{val[1]}", z3.BoolVal(False), "no-raise"); continue
        n += 1
        has_logger = implied_(s1, z3.Not(lg.none))
        exp = ["HookBS"] + (["NewSessionBeginLog", "Write", "Flush"] if has_logger else []) + ["Iterate", "HookAS"] + (["NewSessionEndLog", "Write", "Flush"] if has_logger else [])
        tr = s1.trace
        if kinds(tr) != exp:
            s1.oblige(f"trace:session = {exp} (got {kinds(tr)})", z3.BoolVal(False), "trace"); continue
        cs = s1.read(sim, "current_session")
        eqs = [tr[0][2][1] == session.term]
        it = tr[4] if has_logger else tr[1]
        eqs += [it[2][0] == runner.term, it[2][1] == session.term]
        if has_logger:
            eqs += [tr[1][2][1] == session.term, tr[2][2][0] == tr[1][2][0], tr[2][2][1] == lg.term, tr[3][2][0] == lg.term,
                    tr[6][2][1] == session.term, tr[7][2][0] == tr[6][2][0], tr[7][2][1] == lg.term, tr[8][2][0] == lg.term]
        s1.oblige("trace:C13 session hooks announce this session; C10 begin/end records for this session are written and flushed at the session boundary", z3.And(*eqs), "trace")
        s1.oblige("the session is the simulator's current session while it runs", st_current(ex, s1, sim, session), "post")
    obl.append({"name": QR + "[session]/cover:paths", "pc": [], "goal": z3.BoolVal(n >= 2), "kind": "cover"})
    info = {"function": QR + " (body of the session loop)", "source_sha": get_src().source_hash(QR), "where": get_src().where(QR), "paths": n, "assumptions": sorted(ex.used_assumptions)}
    return {"obligations": obl, "info": [info]}


def st_current(ex, s1, sim, session):
    cs = s1.read(sim, "current_session")
    return z3.And(z3.Not(cs.none), cs.term == session.term)


@task(QR + "[frame]", props=["C06", "C10"], functions=[QR], replay="whole_run")
def t_run_frame():
    """the run: SimulationBegin record + flush, the first clock tick (-1 -> 0) for all markets, the sessions in order, SimulationEnd record + flush"""
    fn = get_src().funcs[QR][0]
    ses = [n for n in find_loops(fn, target_name="session", kind=ast.For)]
    runner = sym_obj("SequentialRunner", "runner")
    loops = [(ses[0], SummaryLoop("Sessions", HOOK_MAY_CHANGE + ["f:Simulator.current_session"], name="sessions"))]
    ex, st0, outs, obl = run_block(QR, fn.body, {"self": runner}, specs=skeleton_specs(), loops=loops, label=QR + "[frame]")
    lg = st0.read(runner, "logger"); sim = st0.read(runner, "simulator")
    n = 0
    for s1, kind, val in outs:
        if kind == "raise":
            s1.oblige(f"no-raise:{val[0]}@{val[1]}", z3.BoolVal(False), "no-raise"); continue
        n += 1
        has_logger = implied_(s1, z3.Not(lg.none))
        exp = (["NewSimulationBeginLog", "Write", "Flush"] if has_logger else []) + ["TickAll", "Sessions"] + (["NewSimulationEndLog", "Write", "Flush"] if has_logger else [])
        if kinds(s1.trace) != exp:
            s1.oblige(f"trace:run = {exp} (got {kinds(s1.trace)})", z3.BoolVal(False), "trace"); continue
        tick = s1.trace[3] if has_logger else s1.trace[0]
        sess = s1.trace[4] if has_logger else s1.trace[1]
        s1.oblige("trace:C06 exactly one clock update of all markets before the first session; sessions taken from the simulator in order",
                  z3.And(tick[2][1] == st0.read(sim, "markets").term, sess[2][0] == st0.read(sim, "sessions").term), "trace")
    obl.append({"name": QR + "[frame]/cover:paths", "pc": [], "goal": z3.BoolVal(n >= 2), "kind": "cover"})
    info = {"function": QR, "source_sha": get_src().source_hash(QR), "where": get_src().where(QR), "paths": n, "assumptions": sorted(ex.used_assumptions)}
    return {"obligations": obl, "info": [info]}


# ----------------------------------------------------------------------------- _generate_sessions: session start times accumulate (C06)
QG = "SequentialRunner._generate_sessions"


@task(QG + "[session]", props=["C06", "C18"], functions=[QG, "Session.__init__"], replay="whole_run")
def t_generate_sessions():
    """each configured session is created with the running start time, which then advances by exactly that session's iterationSteps:
    session k starts at the sum of the lengths of the sessions before it"""
    fn = get_src().funcs[QG][0]
    loops = find_loops(fn, target_name="session_setting", kind=ast.For)
    if len(loops) != 1:
        raise Unsupported(f"anchor-lost: `for session_setting in session_settings` of {QG}")
    loop = loops[0]
    inner = [n for n in loop.body if isinstance(n, ast.If) and ast.unparse(n.test) == "'events' in session_setting"]
    body = [s_ for s_ in loop.body if s_ not in inner]        # the event-creation part is outside this contract (classes resolved by reflection)
    runner = sym_obj("SequentialRunner", "runner")
    setting = V(("dict", ("str",), ("dyn",)), z3.Const("session_setting", REF))
    start = V(("int",), z3.Const("start_so_far", z3.IntSort())); isess = V(("int",), z3.Const("i_session", z3.IntSort()))
    env = {"self": runner, "session_setting": setting, "session_start_time": start, "i_session": isess, "i_event": V(("int",), z3.Const("i_event", z3.IntSort()))}
    from .session import get as sget, has as shas
    specs = {("m", "Simulator", "_add_session"): emit("AddSession")}

    def assume(st):
        return [z3.Implies(shas(st, setting, "iterationSteps"), dyn_is_int(sget(st, setting, "iterationSteps")))]
    ex, st0, outs, obl = run_block(QG, body, env, specs=specs, assume=assume, label=QG + "[session]")
    n = 0
    for s1, kind, val in outs:
        if kind == "raise":
            s1.oblige("raises:ValueError only when sessionName or iterationSteps is missing", z3.And(z3.BoolVal(val[0] == "ValueError"), z3.Or(z3.Not(shas(st0, setting, "sessionName")), z3.Not(shas(st0, setting, "iterationSteps")))), "raises")
            continue
        n += 1
        added = [t for t in s1.trace if t[0] == "AddSession"]
        if len(added) != 1:
            s1.oblige(f"trace:exactly one session is registered per configured session (got {len(added)})", z3.BoolVal(False), "trace"); continue
        sess = V(("ref", "Session"), added[0][2][1])
        s1.oblige("post:C06 the session is created with the start time accumulated so far, and with consecutive ids",
                  z3.And(s1.read(sess, "session_start_time").term == start.term, s1.read(sess, "session_id").term == isess.term), "post")
        s1.oblige("post:C06 the next session starts where this one ends: start time advances by exactly this session's iterationSteps",
                  z3.And(coerce(s1.env["session_start_time"], ("int",)) == start.term + dyn_int(sget(st0, setting, "iterationSteps")), coerce(s1.env["i_session"], ("int",)) == isess.term + 1), "post")
    obl.append({"name": QG + "[session]/cover:paths", "pc": [], "goal": z3.BoolVal(n >= 1), "kind": "cover"})
    info = {"function": QG + " (per configured session, without the event-creation part)", "source_sha": get_src().source_hash(QG), "where": get_src().where(QG), "paths": n,
            "assumptions": sorted(ex.used_assumptions)}
    return {"obligations": obl, "info": [info]}


# ----------------------------------------------------------------------------- _generate_sessions: every configured event gets its OWN deferred set-up and hook registration (C13; C14-C16 act through it)
@task(QG + "[event]", props=["C13", "C14", "C15", "C16"], functions=[QG], replay="whole_run")
def t_generate_events():
    """for one configured event: the object is created for this session, two deferred steps are queued -- its setup with its own settings, and a registration step
    that, WHEN IT RUNS LATER (after the loop variables have moved on to other events), asks THIS event for its hooks and registers each of them once"""
    fn = get_src().funcs[QG][0]
    loops = find_loops(fn, target_name="event_name", kind=ast.For)
    if len(loops) != 1:
        raise Unsupported(f"anchor-lost: `for event_name in ...` of {QG}")
    body = loops[0].body
    start = [i for i, s_ in enumerate(body) if isinstance(s_, ast.Assign) and isinstance(s_.targets[0], ast.Name) and s_.targets[0].id == "event"]
    if not start:
        raise Unsupported(f"anchor-lost: `event = event_class(...)` of {QG}")
    stmts = body[start[0]:]
    runner = sym_obj("SequentialRunner", "runner")
    session = sym_obj("Session", "the_session")
    setting = V(("dict", ("str",), ("dyn",)), z3.Const("event_setting", REF))
    created = []

    def ctor(ex, st, clsv, pos, kw, node):
        st = st.copy()
        ev = V(("ref", "EventABC"), st.new_ref("event"))
        st.assume(is_instance("EventABC", ev.term))
        st.ghost["created"] = st.ghost.get("created", ()) + ((ev, dict(kw)),)
        return [(st, ev)]

    def pend(ex, st, recv, n, v):
        st.ghost["pending"] = st.ghost.get("pending", ()) + (v,)
    env = {"self": runner, "session": session, "event_setting": setting, "event_name": V(("str",), z3.Const("event_name", z3.StringSort())),
           "i_event": V(("int",), z3.Const("i_event", z3.IntSort())), "event_class": V(("class",), None, py=None)}
    specs = {("ctor", "*"): ctor, ("hook", "tuple-append", QG): pend}
    ex, st0, outs, obl = run_block(QG, stmts, env, specs=specs, label=QG + "[event]")
    n = 0
    for s1, kind, val in outs:
        if kind == "raise":
            s1.oblige(f"no-raise:{val[0]}@{val[1]}", z3.BoolVal(False), "no-raise"); continue
        n += 1
        created = s1.ghost.get("created", ()); pending = s1.ghost.get("pending", ())
        if len(created) != 1 or len(pending) != 2:
            s1.oblige(f"trace:one event object and two deferred steps per configured event (got {len(created)} objects, {len(pending)} steps)", z3.BoolVal(False), "trace"); continue
        ev, kw = created[0]
        s1.oblige("post:C13 the event is created for this session and this simulator, with the running event id",
                  z3.And(kw["session"].term == session.term, kw["simulator"].term == s1.read(runner, "simulator").term, kw["event_id"].term == env["i_event"].term), "post")
        first, second = pending
        ok_shape = first.ty[0] == "tuple" and second.ty[0] == "tuple" and len(first.py) == 2 and len(second.py) == 2
        if not ok_shape:
            s1.oblige("trace:the deferred steps are (callable, keyword arguments) pairs", z3.BoolVal(False), "trace"); continue
        f1, k1 = first.py
        s1.oblige("post:the first deferred step is this event's own setup with this event's settings",
                  z3.BoolVal(f1.ty[0] == "func" and f1.py[0] == "bound" and f1.py[2] == "setup") if f1.py and f1.py[0] == "bound" else z3.BoolVal(False), "post")
        if f1.py and f1.py[0] == "bound":
            s1.oblige("post:the setup step is bound to the event just created and receives its settings", z3.And(f1.py[1].term == ev.term, k1.py["settings"].term == setting.term) if (k1.ty[0] == "kwdict" and "settings" in k1.py) else z3.BoolVal(False), "post")
        # run the second deferred step LATER: the loop variables of the enclosing loops now belong to another event
        f2, k2 = second.py
        if not (f2.ty[0] == "func" and f2.py and f2.py[0] == "def"):
            s1.oblige("trace:the second deferred step is the hook-registration closure", z3.BoolVal(False), "trace"); continue
        if k2.ty[0] != "kwdict":
            k2 = V(("kwdict",), py={})          # a `{}` literal: no keyword arguments (a non-empty plain dict would make the call below fail on a missing parameter)
        cenv = f2.py[2]
        other = V(("ref", "EventABC"), s1.new_ref("later_event"))
        for nm in ("event", "event_name", "event_setting", "event_class"):
            if nm in cenv and nm == "event":
                cenv[nm] = other
        regs = []

        def hookreg(ex2, st2, recv, pos, kw_, node):
            st2 = st2.copy()
            regs.append(recv)
            hs = st2.new_list(("ref", "EventHook"), "hooks")
            nh = z3.Const(fresh_name("n_hooks"), z3.IntSort()); st2.assume(nh >= 0); st2.set_len(hs.term, nh)
            st2.ghost["hooks_list"] = hs.term
            return [(st2, hs)]
        ex.specs[("m", "EventABC", "hook_registration")] = hookreg
        ex.specs[("m", "Simulator", "_add_event")] = emit("AddEvent")
        inner_for = [nn for nn in ast.walk(f2.py[1]) if isinstance(nn, ast.For)]
        if len(inner_for) != 1:
            s1.oblige("trace:the registration step has exactly one loop, over the hooks returned by the event", z3.BoolVal(False), "trace"); continue
        inner_for[0]._pyvc_key = (QG, "register-each-hook")
        ex.loops[(QG, "register-each-hook")] = ForEachTrace(name="register-each-hook", elem_type=("ref", "EventHook"))
        s2 = s1.copy(); s2.trace = []
        later = ex.call_closure(f2, [], dict(k2.py), s2, 0)
        for s3, _v in later:
            if len(regs) != 1:
                s3.oblige(f"trace:the deferred step asks exactly one event for its hooks (got {len(regs)})", z3.BoolVal(False), "trace"); continue
            s3.oblige("post:C13 the deferred registration asks THIS event (not whichever event the loop reached last) for its hooks", regs[0].term == ev.term, "post")
            fe = [t for t in s3.trace if t[0] == "ForEach"]
            okfe = len(fe) == 1 and len(fe[0][2][1]) == 1 and fe[0][2][1][0][0] == "AddEvent"
            s3.oblige("trace:C13 every hook the event returns is registered exactly once (one _add_event per element of the returned list)",
                      z3.And(fe[0][2][0] == s3.ghost["hooks_list"], fe[0][2][1][0][2][-1] == ELEM) if okfe else z3.BoolVal(False), "trace")
    obl.append({"name": QG + "[event]/cover:paths", "pc": [], "goal": z3.BoolVal(n >= 1), "kind": "cover"})
    info = {"function": QG + " (per configured event: creation and the two deferred steps)", "source_sha": get_src().source_hash(QG), "where": get_src().where(QG), "paths": n,
            "assumptions": sorted(ex.used_assumptions | {"the event class is resolved by find_class (bounded stand-in) and constructed with keyword arguments"})}
    return {"obligations": obl, "info": [info]}


# ----------------------------------------------------------------------------- _generate_markets: fundamental parameters of a group and creation of each market (C12 initial value, C18, C10 logger)
QM = "SequentialRunner._generate_markets"


def _markets_loop_body():
    fn = get_src().funcs[QM][0]
    outer = [n for n in fn.body if isinstance(n, ast.For)]
    if len(outer) != 1:
        raise Unsupported(f"anchor-lost: `for name in ...` of {QM}")
    return outer[0].body


@task(QM + "[fundamental-parameters]", props=["C12", "C18"], functions=[QM], replay="config")
def t_market_fund_params():
    """the fundamental path of a group starts at `fundamentalPrice` if configured, else at `marketPrice`; drift and volatility are the configured ones, else 0"""
    body = _markets_loop_body()
    start = [i for i, s_ in enumerate(body) if isinstance(s_, ast.If) and ast.unparse(s_.test) in ("'fundamentalPrice' in market_settings", "'marketPrice' in market_settings")]
    end = [i for i, s_ in enumerate(body) if isinstance(s_, ast.For)]
    if not start or not end or end[0] <= start[0]:
        raise Unsupported(f"anchor-lost: fundamental parameter block of {QM}")
    stmts = body[start[0]:end[0]]
    from .session import get as sget, has as shas
    settings = V(("dict", ("str",), ("dyn",)), z3.Const("market_settings", REF))
    env = {"self": sym_obj("SequentialRunner", "runner"), "market_settings": settings, "name": V(("str",), z3.Const("group_name", z3.StringSort()))}
    num = lambda v: z3.Or(dyn_is_int(v), dyn_is_real(v))
    keys = ("fundamentalPrice", "marketPrice", "fundamentalDrift", "fundamentalVolatility")

    def assume(st):
        return [z3.Implies(shas(st, settings, k), num(sget(st, settings, k))) for k in keys]
    ex, st0, outs, obl = run_block(QM, stmts, env, assume=assume, label=QM + "[fundamental-parameters]")
    h = lambda k: shas(st0, settings, k)
    val = lambda k: coerce(V(("dyn",), sget(st0, settings, k)), ("real",))
    n = 0
    for s1, kind, v in outs:
        if kind == "raise":
            s1.oblige("raises:ValueError only when neither fundamentalPrice nor marketPrice is configured", z3.And(z3.BoolVal(v[0] == "ValueError"), z3.Not(h("fundamentalPrice")), z3.Not(h("marketPrice"))), "raises")
            continue
        n += 1
        e = s1.env
        s1.oblige("raises:ValueError whenever neither price is configured", z3.Or(h("fundamentalPrice"), h("marketPrice")), "raises")
        s1.oblige("post:C12 the fundamental path starts at the configured fundamentalPrice, and at marketPrice only when no fundamentalPrice is given",
                  to_real(e["fundamental_price"]) == z3.If(h("fundamentalPrice"), val("fundamentalPrice"), val("marketPrice")), "post")
        s1.oblige("post:C12 drift and volatility are the configured ones, else 0",
                  z3.And(to_real(e["fundamental_drift"]) == z3.If(h("fundamentalDrift"), val("fundamentalDrift"), 0), to_real(e["fundamental_volatility"]) == z3.If(h("fundamentalVolatility"), val("fundamentalVolatility"), 0)), "post")
    obl.append({"name": QM + "[fundamental-parameters]/cover:paths", "pc": [], "goal": z3.BoolVal(n >= 2), "kind": "cover"})
    info = {"function": QM + " (fundamental parameters of a group)", "source_sha": get_src().source_hash(QM), "where": get_src().where(QM), "paths": n, "assumptions": sorted(ex.used_assumptions)}
    return {"obligations": obl, "info": [info]}


@task(QM + "[create]", props=["C12", "C18", "C10"], functions=[QM], replay="config")
def t_market_create():
    """each market of a group: created with the running id, the runner's logger and its name, registered under the group name; non-index markets get a fundamental path with the
    group's parameters under the market's own id; the market's setup is deferred with the group's settings"""
    body = _markets_loop_body()
    loops = [s_ for s_ in body if isinstance(s_, ast.For)]
    if len(loops) != 1 or ast.unparse(loops[0].iter) != "range(id_from, id_to + 1)":
        raise Unsupported(f"anchor-lost: creation loop of {QM}")
    stmts = loops[0].body
    runner = sym_obj("SequentialRunner", "runner")
    settings = V(("dict", ("str",), ("dyn",)), z3.Const("market_settings", REF))
    created = []; pending = []

    def ctor(ex, st, clsv, pos, kw, node):
        st = st.copy()
        m = V(("ref", "Market"), st.new_ref("market"))
        st.assume(is_instance("Market", m.term))
        for f in ("market_id", "name", "logger", "simulator"):
            if f in kw:
                st.write(m, f, kw[f])
        st.ghost["created"] = st.ghost.get("created", ()) + ((m, dict(kw)),)
        return [(st, m)]

    def pend(ex, st, recv, n, v):
        st.ghost["pending"] = st.ghost.get("pending", ()) + (v,)
    fp, fd, fv = (V(("real",), z3.Real(nm)) for nm in ("fundamental_price", "fundamental_drift", "fundamental_volatility"))
    env = {"self": runner, "market_settings": settings, "name": V(("str",), z3.Const("group_name", z3.StringSort())), "prefix": V(("str",), z3.Const("prefix", z3.StringSort())),
           "i": V(("int",), z3.Int("i_loop")), "i_market": V(("int",), z3.Int("i_market")), "n_markets": V(("int",), z3.Int("n_markets")), "market_class": V(("class",), None, py=None),
           "fundamental_price": fp, "fundamental_drift": fd, "fundamental_volatility": fv}
    specs = {("ctor", "*"): ctor, ("hook", "tuple-append", QM): pend, ("m", "Simulator", "_add_market"): emit("AddMarket"), ("m", "Fundamentals", "add_market"): emit("FundAdd", with_recv=False)}
    ex, st0, outs, obl = run_block(QM, stmts, env, specs=specs, label=QM + "[create]")
    n = 0
    for s1, kind, v in outs:
        if kind == "raise":
            s1.oblige(f"no-raise:{v[0]}@{v[1]}", z3.BoolVal(False), "no-raise"); continue
        n += 1
        created = s1.ghost.get("created", ()); pending = s1.ghost.get("pending", ())
        if len(created) != 1:
            s1.oblige(f"trace:one market object per id of the range (got {len(created)})", z3.BoolVal(False), "trace"); continue
        m, kw = created[0]
        s1.oblige("post:C18 the market gets the running id, this simulator and the runner's logger (C10: its records reach the logger)",
                  z3.And(kw["market_id"].term == env["i_market"].term, kw["simulator"].term == s1.read(runner, "simulator").term,
                         z3.And(kw["logger"].none == st0.read(runner, "logger").none, z3.Implies(z3.Not(kw["logger"].none), kw["logger"].term == st0.read(runner, "logger").term)) if kw["logger"].ty[0] == "opt" else z3.BoolVal(False),
                         coerce(s1.env["i_market"], ("int",)) == env["i_market"].term + 1), "post")
        adds = [t for t in s1.trace if t[0] == "AddMarket"]; funds = [t for t in s1.trace if t[0] == "FundAdd"]
        s1.oblige("trace:C18 the market is registered once, under its group's name", z3.And(adds[0][2][1] == m.term, adds[0][2][2] == env["name"].term) if len(adds) == 1 and len(adds[0][2]) >= 3 else z3.BoolVal(False), "trace")
        isidx = is_instance("IndexMarket", m.term)
        if len(funds) > 1:
            s1.oblige("trace:at most one fundamental path per market", z3.BoolVal(False), "trace"); continue
        if funds:
            args = funds[0][2]
            s1.oblige("trace:C12 a non-index market gets a fundamental path under its own id with the group's initial value, drift and volatility",
                      z3.And(z3.Not(isidx), args[0] == kw["market_id"].term, args[1] == fp.term, args[2] == fd.term, args[3] == fv.term) if len(args) >= 4 else z3.BoolVal(False), "trace")
        else:
            s1.oblige("trace:C12 only an index market gets no fundamental path of its own", isidx, "trace")
        ok = len(pending) == 1 and pending[0].ty[0] == "tuple" and len(pending[0].py) == 2 and pending[0].py[0].py and pending[0].py[0].py[0] == "bound"
        s1.oblige("post:C18 the market's own setup is deferred with the group's settings",
                  z3.And(pending[0].py[0].py[1].term == m.term, z3.BoolVal(pending[0].py[0].py[2] == "setup"), pending[0].py[1].py["settings"].term == settings.term) if ok and pending[0].py[1].ty[0] == "kwdict" and "settings" in pending[0].py[1].py else z3.BoolVal(False), "post")
    obl.append({"name": QM + "[create]/cover:paths", "pc": [], "goal": z3.BoolVal(n >= 2), "kind": "cover"})
    info = {"function": QM + " (creation of each market of a group)", "source_sha": get_src().source_hash(QM), "where": get_src().where(QM), "paths": n, "assumptions": sorted(ex.used_assumptions)}
    return {"obligations": obl, "info": [info]}


# ----------------------------------------------------------------------------- _update_markets: the batches collected from the normal agents are the ones handled (C09, C11)
@task("SequentialRunner._update_markets", props=["C09", "C11", "C04"], functions=["SequentialRunner._update_markets"], replay="whole_run")
def t_update_markets():
    """one collection of normal-agent batches per step, handed unchanged (same list object, same session) to _handle_orders"""
    from pyvc.spec import Executor
    ex = Executor(current="SequentialRunner._update_markets")
    ex.specs[("m", "SequentialRunner", "_collect_orders_from_normal_agents")] = emit("Collect", result=("list", ("list", ("ref", "Order"))))
    ex.specs[("m", "SequentialRunner", "_handle_orders")] = emit("Handle", result=("list", ("list", ("ref", "Order"))))
    st = State(); st.labels = ["SequentialRunner._update_markets"]
    runner = sym_obj("SequentialRunner", "runner"); session = sym_obj("Session", "session")
    st.assume_alloc(runner); st.assume_alloc(session)
    outs = ex.call_method(runner, "_update_markets", [], {"session": session}, st, 0, None)
    n = 0
    for s1, res in outs:
        n += 1
        tr = s1.trace
        if [t[0] for t in tr] != ["Collect", "Handle"]:
            s1.oblige(f"trace:one collection followed by one handling (got {[t[0] for t in tr]})", z3.BoolVal(False), "trace"); continue
        col, han = tr
        s1.oblige("trace:C09 the batches handled are the batches just collected, for the same session",
                  z3.And(col[2][0] == runner.term, col[2][1] == session.term, han[2][0] == runner.term, han[2][1] == session.term, han[2][2] == col[2][-1]) if len(han[2]) >= 3 else z3.BoolVal(False), "trace")
    for s_, k_, v_ in ex.escaped:
        s_.oblige(f"no-raise:{v_[0]}@{v_[1]}", z3.BoolVal(False), "no-raise")
    st.obl.append({"name": "SequentialRunner._update_markets/cover:paths", "pc": [], "goal": z3.BoolVal(n >= 1), "kind": "cover"})
    src = get_src()
    return {"obligations": st.obl, "info": [{"function": "SequentialRunner._update_markets", "source_sha": src.source_hash("SequentialRunner._update_markets"), "where": src.where("SequentialRunner._update_markets"), "paths": n, "assumptions": []}]}


# ----------------------------------------------------------------------------- SequentialRunner._setup: generation order (C18: markets, correlations, agents, sessions, then the queued set-ups)
@task("SequentialRunner._setup", props=["C18"], functions=["SequentialRunner._setup"], replay="config")
def t_runner_setup():
    """a successful set-up generates the markets of `simulation.markets`, then the correlations, the agents of `simulation.agents`, the sessions, and finally runs every queued
    set-up step exactly once, in this order (agents name markets, sessions name both, queued steps use all three); a configuration error raises ValueError"""
    def pending(ex, e, st, d):
        out = []
        for s1, it in ex.ev(e.generators[0].iter, st, d):
            s1 = s1.copy()
            s1.trace = s1.trace + [("RunQueuedSetups", None, (it.term,))]
            out.append((s1, V(("list", ("dyn",)), s1.new_ref("setup_results"))))
        return out

    def extra(ex, st0, s1, a, res):
        r = a["self"]
        settings = st0.read(r, "settings")
        kinds = [t[0] for t in s1.trace[len(st0.trace):]]
        s1.oblige(f"trace:C18 generation order markets, correlations, agents, sessions, queued set-ups (got {kinds})",
                  z3.BoolVal(kinds == ["GenMarkets", "SetCorrelations", "GenAgents", "GenSessions", "RunQueuedSetups"]), "trace")
        if kinds == ["GenMarkets", "SetCorrelations", "GenAgents", "GenSessions", "RunQueuedSetups"]:
            tr = s1.trace[len(st0.trace):]
            sim_cfg = V(("dict", ("str",), ("dyn",)), dyn_ref(z3.Select(st0.dict_val(settings), z3.StringVal("simulation"))))
            want_m = z3.Select(st0.dict_val(sim_cfg), z3.StringVal("markets")); want_a = z3.Select(st0.dict_val(sim_cfg), z3.StringVal("agents"))
            s1.oblige("post:C18 the market groups generated are the listed `simulation.markets`, the agent groups the listed `simulation.agents`, the queue run is the runner's own",
                      z3.And(tr[0][2][-1] == dyn_ref(want_m), tr[2][2][-1] == dyn_ref(want_a), tr[4][2][0] == st0.read(r, "_pending_setups").term), "post")
    def pre(st, a):
        settings = st.read(a["self"], "settings")
        return [("`simulation`, when present, is a JSON object", z3.Implies(z3.Select(st.dict_dom(settings), z3.StringVal("simulation")), dyn_is_dict(z3.Select(st.dict_val(settings), z3.StringVal("simulation")))))]
    spec = FSpec("SequentialRunner._setup", pre=pre, props=("C18",), modifies=lambda st, a: ["*"])
    spec.may_raise = {"ValueError": lambda st, a: z3.BoolVal(True)}
    specs = {("m", "SequentialRunner", "_generate_markets"): emit("GenMarkets"), ("m", "SequentialRunner", "_set_fundamental_correlation"): emit("SetCorrelations"),
             ("m", "SequentialRunner", "_generate_agents"): emit("GenAgents"), ("m", "SequentialRunner", "_generate_sessions"): emit("GenSessions"),
             ("idiom", "listcomp", "[func(**kwargs) for func, kwargs in self._pending_setups]"): pending}
    obl, info = spec.verify(specs=specs, extra_goals=extra)
    return {"obligations": obl, "info": [info]}


# ----------------------------------------------------------------------------- _set_fundamental_correlation: one configured pair (C12: the configured pairwise correlations reach the generator)
QCORR = "SequentialRunner._set_fundamental_correlation"


@task(QCORR + "[pair]", props=["C12"], functions=[QCORR], replay="fundamentals")
def t_set_correlation_pair():
    """body of the loop over `pairwise` for an arbitrary triple (name1, name2, corr): exactly one set_correlation call on the simulator's generator, for the ids of the two NAMED markets
    and the configured value; ValueError (and no call) exactly when one of the two markets has volatility 0"""
    import ast as _ast
    fn = get_src().funcs[QCORR][0]
    inner = [l for l in _ast.walk(fn) if isinstance(l, _ast.For) and isinstance(l.target, _ast.Tuple) and len(l.target.elts) == 3]
    if len(inner) != 1 or [e.id for e in inner[0].target.elts if isinstance(e, _ast.Name)] != ["market1_name", "market2_name", "corr"]:
        raise Unsupported("anchor-lost: the loop over the configured (name, name, corr) triples of " + QCORR)
    r = sym_obj("SequentialRunner", "runner")
    n1, n2 = V(("str",), z3.String("corr_name1")), V(("str",), z3.String("corr_name2"))
    cv = V(("dyn",), z3.Const("corr_value", DYN))
    env = {"self": r, "market1_name": n1, "market2_name": n2, "corr": cv}

    def setc(ex, st, recv, pos, kw, node):
        st = st.copy()
        if set(kw) != {"market_id1", "market_id2", "corr"} or pos:
            raise Unsupported("set_correlation is no longer called with market_id1=, market_id2=, corr=")
        st.trace = st.trace + [("SetCorrelation", None, (recv.term, kw["market_id1"].term, kw["market_id2"].term, to_real(kw["corr"])))]
        return [(st, NONE)]

    def assume(st):
        sim = st.read(r, "simulator"); n2m = st.read(sim, "name2market")
        fnd_ = st.read(sim, "fundamentals"); vols = st.read(fnd_, "volatilities")
        mid = lambda nm: st.read(V(("ref", "Market"), z3.Select(st.dict_val(n2m), nm.term)), "market_id")
        # both names are registered markets with a generated fundamental (not index markets); the configured value is a JSON number
        return [st.dict_has(n2m, n1), st.dict_has(n2m, n2), st.dict_has(vols, mid(n1)), st.dict_has(vols, mid(n2)), z3.Or(dyn_is_int(cv.term), dyn_is_real(cv.term))]
    ex, st0, outs, obl = run_block(QCORR, inner[0].body, env, specs={("m", "Fundamentals", "set_correlation"): setc}, assume=assume, label=QCORR + "[pair]")
    sim = st0.read(r, "simulator"); n2m = st0.read(sim, "name2market"); fnd = st0.read(sim, "fundamentals")
    mk = lambda nm: V(("ref", "Market"), z3.Select(st0.dict_val(n2m), nm.term))
    vol = lambda m: z3.Select(st0.dict_val(st0.read(fnd, "volatilities")), st0.read(m, "market_id").term)
    zero = z3.Or(vol(mk(n1)) == 0, vol(mk(n2)) == 0)
    n = 0
    for s1, kind, val in outs:
        tr = s1.trace[len(st0.trace):]
        if kind == "raise":
            s1.oblige(f"raises:{val[0]} only for a market without volatility, and then nothing is set", z3.And(z3.BoolVal(val[0] == "ValueError" and not tr), zero), "raises")
            continue
        n += 1
        s1.oblige(f"trace:exactly one correlation is set per configured triple (got {[t[0] for t in tr]})", z3.BoolVal([t[0] for t in tr] == ["SetCorrelation"]), "trace")
        if [t[0] for t in tr] == ["SetCorrelation"]:
            a = tr[0][2]
            num = z3.If(dyn_is_int(cv.term), z3.ToReal(dyn_int(cv.term)), dyn_real(cv.term))
            s1.oblige("post:C12 the correlation is set on the simulator's generator, between the two NAMED markets, to the configured value; never for a market with volatility 0",
                      z3.And(a[0] == fnd.term, a[1] == st0.read(mk(n1), "market_id").term, a[2] == st0.read(mk(n2), "market_id").term, a[3] == num, z3.Not(zero)), "post")
    obl.append({"name": QCORR + "[pair]/cover:paths", "pc": [], "goal": z3.BoolVal(n >= 1), "kind": "cover"})
    info = {"function": QCORR + " (body of the loop over the configured pairs)", "source_sha": get_src().source_hash(QCORR), "where": get_src().where(QCORR), "paths": n,
            "assumptions": sorted(ex.used_assumptions) + ["the unpacking of each JSON triple into (name, name, corr) and the iteration over `pairwise` are not modelled: the body is proved for an arbitrary triple"]}
    return {"obligations": obl, "info": [info]}
