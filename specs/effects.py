"""C07 (reproducibility) as effect / frame contracts: every function of pams reads no ambient source of nondeterminism (reads-clauses, discharged over the AST),
every generator constructed is seeded from the owning component's generator, and the settings object is only written through fresh copies."""
import ast
import z3

from pyvc.core import *   # noqa
from pyvc.spec import task
from pyvc.src import get_src

# the sites of the unchanged tree that are allowed, keyed by (function qualname, expression text); anything else of these kinds is a failed obligation
WHITELIST = {
    ("ArbitrageAgent._submit_orders", "set(map(lambda x: x.outstanding_shares, spots))"): "only the size of the set is used",
    ("OrderBook.get_price_volume", "set(map(lambda x: x.price, self.priority_queue))"): "turned into a list that is sorted before use (None handled separately)",
    ("Runner.__init__", "random.Random()"): "documented default when the caller passes no generator (the seed is then the caller's choice not to fix)",
    ("Runner.__init__", "open(settings, mode='r')"): "reads the configuration file named by the caller",
    ("Runner.main", "time.time_ns()"): "timing printout only; not part of the observable outcome",
    ("find_class", "globals()"): "reflection over module namespaces: deterministic dict order",
    ("find_class", "locals()"): "reflection over module namespaces: deterministic dict order",
}
SEEDED = ("self._prng.randint(0, 2 ** 31)",)        # seed-chain: new generators are seeded from the owning component's generator


def module_imports(tree):
    imports = {}
    for n in ast.walk(tree):
        if isinstance(n, ast.Import):
            for a in n.names:
                imports[a.asname or a.name] = a.name
        if isinstance(n, ast.ImportFrom):
            for a in n.names:
                imports[a.asname or a.name] = (n.module or "") + "." + a.name
    return imports


def parent_map(fn):
    pm = {}
    for n in ast.walk(fn):
        for c in ast.iter_child_nodes(n):
            pm[c] = n
    return pm


def scan_function(qual, fn, imports):
    """list of (kind, expression text) for every ambient read / order-dependent construct in the function"""
    hits = []
    pm = parent_map(fn)

    def order_insensitive_use(node):
        """a set value whose iteration order cannot leak: argument of len()/sorted()/min()/max()/sum()/any()/all(), or right operand of `in`"""
        p = pm.get(node)
        if isinstance(p, ast.Call) and isinstance(p.func, ast.Name) and p.func.id in ("len", "sorted", "min", "max", "sum", "any", "all", "frozenset", "set") and node in p.args:
            return True if p.func.id not in ("set", "frozenset") else order_insensitive_use(p)
        if isinstance(p, ast.Compare) and node in p.comparators and all(isinstance(o, (ast.In, ast.NotIn)) for o in p.ops):
            return True
        return False
    for n in ast.walk(fn):
        if isinstance(n, ast.Call):
            f_ = n.func
            txt = ast.unparse(n)
            if isinstance(f_, ast.Attribute) and isinstance(f_.value, ast.Name):
                mod = imports.get(f_.value.id)
                if mod == "random":
                    if f_.attr == "Random":
                        seed = ast.unparse(n.args[0]) if n.args else None
                        if seed is None:
                            hits.append(("unseeded generator", txt))
                        elif seed not in SEEDED:
                            hits.append(("generator not seeded from the owner's generator", txt))
                    else:
                        hits.append(("module-level random." + f_.attr, txt))
                if mod in ("time", "datetime", "uuid", "secrets"):
                    hits.append((f"{mod}.{f_.attr}", txt))
                if mod == "os" and f_.attr in ("urandom", "getenv", "getpid", "times"):
                    hits.append(("os." + f_.attr, txt))
            if isinstance(f_, ast.Attribute) and isinstance(f_.value, ast.Attribute) and isinstance(f_.value.value, ast.Name) and imports.get(f_.value.value.id) == "numpy" and f_.value.attr == "random":
                if f_.attr == "default_rng" and n.args and ast.unparse(n.args[0]) in SEEDED:
                    pass
                else:
                    hits.append(("numpy global / unseeded generator np.random." + f_.attr, txt))
            if isinstance(f_, ast.Name) and f_.id in ("id", "hash", "input", "open", "globals", "locals", "vars", "dir"):
                hits.append((f_.id + "()", txt))
            if isinstance(f_, ast.Name) and f_.id in ("set", "frozenset") and not order_insensitive_use(n):
                hits.append(("set with observable iteration order", txt))
        if isinstance(n, (ast.Set, ast.SetComp)) and not order_insensitive_use(n):
            hits.append(("set with observable iteration order", ast.unparse(n)))
        if isinstance(n, ast.Attribute) and isinstance(n.value, ast.Name) and imports.get(n.value.id) == "os" and n.attr == "environ":
            hits.append(("os.environ", ast.unparse(n)))
        if isinstance(n, (ast.Global, ast.Nonlocal)):
            hits.append(("global / nonlocal state", ast.unparse(n)))
    return hits


@task("effects:no-ambient-nondeterminism", props=["C07"], functions=[], replay="determinism")
def t_effects():
    """reads-clause of every function of pams: no module-level random / numpy global generator / clock / environment / id() / hash() / set iteration order;
    every generator constructed is seeded from the owning component's generator"""
    src = get_src()
    obl = []; info = []
    trees = {f: ast.parse(t) for f, t in src.files.items()}
    imports = {f: module_imports(t) for f, t in trees.items()}
    n_fn = 0
    for qual, (fn, mod, f) in sorted(src.funcs.items()):
        n_fn += 1
        hits = scan_function(qual, fn, imports[f])
        bad = [(k, t) for k, t in hits if (qual, t) not in WHITELIST]
        obl.append({"name": f"effects:no-ambient-nondeterminism/{qual}/reads:no ambient source" + ("" if not bad else f" -- found {bad[:3]}"), "pc": [], "goal": z3.BoolVal(not bad), "kind": "effects",
                    "hints": {"function": qual, "found": bad[:5]}})
    # module level code (outside functions): no mutable module state, no ambient reads at import time
    for f, tree in trees.items():
        for n in tree.body:
            if isinstance(n, (ast.FunctionDef, ast.ClassDef, ast.Import, ast.ImportFrom)) or (isinstance(n, ast.Expr) and isinstance(n.value, ast.Constant)):
                continue
            txt = ast.unparse(n)
            ok = isinstance(n, (ast.Assign, ast.AnnAssign)) and not any(isinstance(x, ast.Call) and isinstance(x.func, ast.Attribute) and isinstance(x.func.value, ast.Name) and imports[f].get(x.func.value.id) in ("random", "time", "os") for x in ast.walk(n))
            obl.append({"name": f"effects:no-ambient-nondeterminism/module {f[len(src.repo) + 1:]}/module-level statement is a constant definition: {txt[:60]}", "pc": [], "goal": z3.BoolVal(ok), "kind": "effects"})
    obl.append({"name": "effects:no-ambient-nondeterminism/cover:functions scanned", "pc": [], "goal": z3.BoolVal(n_fn > 150), "kind": "cover"})
    info.append({"function": f"all {n_fn} functions of pams (reads-clauses)", "source_sha": None, "where": "pams/**", "paths": None,
                 "assumptions": ["meta-theorem (not re-checked): a CPython program whose functions satisfy these reads-clauses computes a function of its inputs and of the states of the generators it is handed",
                                 "whitelisted sites: " + "; ".join(f"{q}: {t} ({why})" for (q, t), why in WHITELIST.items())]})
    return {"obligations": obl, "info": info}


@task("effects:settings-written-only-through-copies", props=["C07"], functions=["SequentialRunner._generate_markets", "SequentialRunner._generate_agents", "SequentialRunner._generate_sessions"], replay="determinism")
def t_settings_frame():
    """in the configuration expansion every `del x[k]` / `x[k] = v` / `x.pop(k)` on a settings dict targets a local that was last assigned the result of json_extends(...)
    (a fresh dict by the contract of task json_extends), never self.settings or a dict reachable from it"""
    src = get_src()
    obl = []
    for qual in ("SequentialRunner._generate_markets", "SequentialRunner._generate_agents", "SequentialRunner._generate_sessions", "SequentialRunner._setup", "SequentialRunner._set_fundamental_correlation"):
        fn = src.funcs[qual][0]
        n_writes = 0
        ok = True; why = []

        def is_copy(v):
            return isinstance(v, ast.Call) and isinstance(v.func, ast.Name) and v.func.id == "json_extends"

        def writes_of(node, fresh):
            """settings writes syntactically inside `node` (not descending into nested statement lists: those are scanned with their own flow state)"""
            nonlocal ok, n_writes
            def bad(txt):
                nonlocal ok
                ok = False; why.append(txt[:70])
            for n in ([node] if not isinstance(node, list) else node):
                pass
            n = node
            if isinstance(n, ast.Delete):
                for t in n.targets:
                    if isinstance(t, ast.Subscript):
                        n_writes += 1
                        if not (isinstance(t.value, ast.Name) and t.value.id in fresh):
                            bad(ast.unparse(n))
            if isinstance(n, (ast.Assign, ast.AugAssign)):
                for t in (n.targets if isinstance(n, ast.Assign) else [n.target]):
                    if isinstance(t, ast.Subscript) and "settings" in ast.unparse(t.value):
                        n_writes += 1
                        if not (isinstance(t.value, ast.Name) and t.value.id in fresh):
                            bad(ast.unparse(n))
            for c in ast.walk(n) if isinstance(n, (ast.Expr, ast.Assign, ast.AugAssign, ast.AnnAssign, ast.Return)) else []:
                if isinstance(c, ast.Call) and isinstance(c.func, ast.Attribute) and c.func.attr in ("pop", "update", "clear", "setdefault", "popitem") and "settings" in ast.unparse(c.func.value):
                    n_writes += 1
                    if not (isinstance(c.func.value, ast.Name) and c.func.value.id in fresh):
                        bad(ast.unparse(c))

        def scan(stmts, fresh):
            """flow-sensitive: a name is a fresh copy after an UNCONDITIONAL `x = json_extends(...)` in this statement list, until it is re-assigned from anything else;
            an assignment inside a branch or loop body never makes a name fresh for the code after it, and any other assignment inside one removes freshness"""
            fresh = set(fresh)
            for st_ in stmts:
                if isinstance(st_, (ast.Assign, ast.AnnAssign)) and isinstance((st_.targets[0] if isinstance(st_, ast.Assign) else st_.target), ast.Name):
                    nm = (st_.targets[0] if isinstance(st_, ast.Assign) else st_.target).id
                    writes_of(st_, fresh)
                    if st_.value is not None and is_copy(st_.value):
                        fresh.add(nm)
                    elif st_.value is not None:
                        fresh.discard(nm)
                    continue
                blocks = [getattr(st_, f) for f in ("body", "orelse", "finalbody") if isinstance(getattr(st_, f, None), list)]
                if isinstance(st_, ast.Try):
                    blocks += [h.body for h in st_.handlers]
                if blocks and not isinstance(st_, (ast.FunctionDef, ast.ClassDef)):
                    for blk in blocks:
                        scan(blk, fresh)
                    for c in ast.walk(st_):
                        if isinstance(c, (ast.Assign, ast.AnnAssign, ast.AugAssign)):
                            for t in (c.targets if isinstance(c, ast.Assign) else [c.target]):
                                if isinstance(t, ast.Name):
                                    fresh.discard(t.id)       # (re)assigned on some path only: no longer known to be a copy
                        if isinstance(c, ast.For) and isinstance(c.target, ast.Name):
                            fresh.discard(c.target.id)
                    continue
                writes_of(st_, fresh)
            return fresh
        scan(fn.body, set())
        # the fresh local must be (re)assigned from json_extends before any write: check statement order inside the enclosing loop body
        obl.append({"name": f"effects:settings-written-only-through-copies/{qual}/frame:writes to settings dicts target json_extends results only" + ("" if ok else f" -- {why[:2]}"),
                    "pc": [], "goal": z3.BoolVal(ok), "kind": "frame", "hints": {"writes": n_writes}})
    info = [{"function": q, "source_sha": src.source_hash(q), "where": src.where(q), "paths": None, "assumptions": ["json_extends returns a fresh dict (task json_extends, clause C07)"]}
            for q in ("SequentialRunner._generate_markets", "SequentialRunner._generate_agents", "SequentialRunner._generate_sessions")]
    return {"obligations": obl, "info": info}


# ----------------------------------------------------------------------------- no state shared between runs or between instances (C07 "earlier runs in the same process"; C15/C16 each rule has its own targets)
MUTATORS_ = {"append", "extend", "insert", "add", "update", "setdefault", "pop", "popitem", "clear", "remove", "discard", "sort", "reverse"}


def _mutable_value(v):
    if isinstance(v, (ast.Dict, ast.List, ast.Set, ast.ListComp, ast.DictComp, ast.SetComp)):
        return True
    if isinstance(v, ast.Call):
        f = v.func
        nm = f.id if isinstance(f, ast.Name) else (f.attr if isinstance(f, ast.Attribute) else "")
        return nm in ("dict", "list", "set", "defaultdict", "OrderedDict", "deque", "Counter")
    return False


def _root_name(node):
    while isinstance(node, (ast.Subscript, ast.Attribute)):
        node = node.value
    return node


def _mutations(fn):
    """(kind, target expression) for every in-place mutation in a function: subscript / attribute stores, augmented assignments, deletes, mutator calls"""
    out = []
    for n in ast.walk(fn):
        tg = []
        if isinstance(n, ast.Assign):
            tg = n.targets
        elif isinstance(n, (ast.AugAssign, ast.AnnAssign)) and getattr(n, "value", True) is not None:
            tg = [n.target]
        elif isinstance(n, ast.Delete):
            tg = n.targets
        for t in tg:
            for tt in (t.elts if isinstance(t, ast.Tuple) else [t]):
                if isinstance(tt, ast.Subscript):
                    out.append(("store", tt.value))
        if isinstance(n, ast.Call) and isinstance(n.func, ast.Attribute) and n.func.attr in MUTATORS_:
            out.append(("call", n.func.value))
    return out


@task("effects:no-shared-mutable-state", props=["C07", "C13", "C15", "C16", "C18"], functions=[], replay="shared_state")
def t_shared_state():
    """no function mutates a module-level container, rebinds a module-level name, or mutates a container that exists only as a CLASS attribute (shared by all instances):
    every run and every event / market / agent instance works on state created for it"""
    src = get_src()
    obl = []
    n_checked = 0
    trees = {f: ast.parse(t) for f, t in src.files.items()}
    for f, tree in trees.items():
        rel = f[len(src.repo) + 1:]
        mod_mut = set()
        mod_names = set()
        for n in tree.body:
            if isinstance(n, (ast.Assign, ast.AnnAssign)) and getattr(n, "value", None) is not None:
                for t in (n.targets if isinstance(n, ast.Assign) else [n.target]):
                    if isinstance(t, ast.Name):
                        mod_names.add(t.id)
                        if _mutable_value(n.value):
                            mod_mut.add(t.id)
        for node in ast.walk(tree):
            if not isinstance(node, ast.ClassDef):
                continue
            cls_mut = set()
            for n in node.body:
                if isinstance(n, (ast.Assign, ast.AnnAssign)) and getattr(n, "value", None) is not None and _mutable_value(n.value):
                    for t in (n.targets if isinstance(n, ast.Assign) else [n.target]):
                        if isinstance(t, ast.Name):
                            cls_mut.add(t.id)
            # attributes (re)bound per instance in __init__ shadow the class attribute
            init = [m for m in node.body if isinstance(m, ast.FunctionDef) and m.name == "__init__"]
            own = set()
            for m in init:
                for n in ast.walk(m):
                    if isinstance(n, (ast.Assign, ast.AnnAssign)):
                        for t in (n.targets if isinstance(n, ast.Assign) else [n.target]):
                            if isinstance(t, ast.Attribute) and isinstance(t.value, ast.Name) and t.value.id == "self":
                                own.add(t.attr)
            shared = cls_mut - own
            for m in node.body:
                if not isinstance(m, ast.FunctionDef):
                    continue
                n_checked += 1
                bad = []
                for kind, tgt in _mutations(m):
                    if isinstance(tgt, ast.Attribute) and isinstance(tgt.value, ast.Name) and tgt.value.id in ("self", "cls", node.name) and tgt.attr in shared:
                        bad.append(ast.unparse(tgt))
                obl.append({"name": f"effects:no-shared-mutable-state/{node.name}.{m.name}/frame:no container that exists only as a class attribute is mutated" + ("" if not bad else f" -- {bad[:2]} (class-level default, not re-created in __init__)"),
                            "pc": [], "goal": z3.BoolVal(not bad), "kind": "frame"})
        for node in ast.walk(tree):
            if not isinstance(node, ast.FunctionDef):
                continue
            n_checked += 1
            local = {a.arg for a in node.args.args + node.args.kwonlyargs} | {t.id for n in ast.walk(node) if isinstance(n, (ast.Assign, ast.AnnAssign, ast.For)) for t in ([n.target] if not isinstance(n, ast.Assign) else n.targets) if isinstance(t, ast.Name)}
            glob = {nm for n in ast.walk(node) if isinstance(n, ast.Global) for nm in n.names}
            bad = [f"global {g}" for g in sorted(glob)]
            for kind, tgt in _mutations(node):
                r = _root_name(tgt)
                if isinstance(r, ast.Name) and r.id in mod_mut and (r.id not in local or r.id in glob):
                    bad.append(ast.unparse(tgt))
            if bad or mod_mut:
                obl.append({"name": f"effects:no-shared-mutable-state/{rel}:{node.name}/frame:no module-level container is mutated and no module-level name is rebound" + ("" if not bad else f" -- {bad[:2]}"),
                            "pc": [], "goal": z3.BoolVal(not bad), "kind": "frame"})
    obl.append({"name": "effects:no-shared-mutable-state/cover:functions scanned", "pc": [], "goal": z3.BoolVal(n_checked > 150), "kind": "cover"})
    info = [{"function": "all of pams (module-level and class-level containers)", "source_sha": None, "where": "pams/**", "paths": None,
             "assumptions": ["mutation through aliases of a module- or class-level container (e.g. handing it out and mutating the alias elsewhere) is not detected by this scan"]}]
    return {"obligations": obl, "info": info}
