"""Built-in events under contract: PriceLimitRule (C15), OrderMistakeShock / FundamentalPriceShock (C14), TradingHaltRule (C16, C09)."""
import z3

from pyvc.core import *   # noqa
from pyvc.spec import FSpec, LoopSpec, task, Executor, attach_loops
from .vocab import *      # noqa


def is_target(st, ev_cls, ev, market):
    """market is one of the values of ev.target_markets"""
    dct = st.read(ev, "target_markets")
    k = z3.Const("k_tm", z3.StringSort())
    return z3.Exists([k], z3.And(z3.Select(st.dict_dom(dct), k), z3.Select(st.dict_val(dct), k) == market.term))


def mp0(st, market):
    return cell(st, market, "_market_prices", z3.IntVal(0))


def market_ok(st, market):
    """the market has gone through its first clock tick: time >= 0, price series longer than time, time-0 market price set and positive"""
    t = st.read(market, "time").term
    p0 = mp0(st, market)
    return [("market clock >= 0", t >= 0), ("price series covers the clock", st.length(series_ref(st, market, "_market_prices"), ("real",)) > t),
            ("time-0 market price is a positive number", z3.And(z3.Not(p0.none), p0.term > 0))]


# ----------------------------------------------------------------------------- PriceLimitRule.get_limited_price
def glp_pre(st, a):
    return market_ok(st, a["market"]) + [("trigger rate >= 0", st.read(a["self"], "trigger_change_rate").term >= 0)]


def glp_post(st0, st1, a, res):
    rule, order, market = a["self"], a["order"], a["market"]
    p0 = mp0(st0, market).term; r = st0.read(rule, "trigger_change_rate").term
    op = st0.read(order, "price")
    rn = res.none if res.ty[0] == "opt" else z3.BoolVal(res.ty[0] == "none")
    rv = res.term if res.term is not None else z3.RealVal(0)
    return [("market orders pass unchanged (None)", rn == op.none),
            ("limit price clipped into the band around the time-0 price", z3.Implies(z3.Not(op.none), z3.And(p0 * (1 - r) <= rv, rv <= p0 * (1 + r)))),
            ("a price inside the band is unchanged", z3.Implies(z3.And(z3.Not(op.none), p0 * (1 - r) <= op.term, op.term <= p0 * (1 + r)), rv == op.term)),
            ("a price above the band becomes the upper edge, below the band the lower edge",
             z3.Implies(z3.Not(op.none), z3.And(z3.Implies(op.term > p0 * (1 + r), rv == p0 * (1 + r)), z3.Implies(op.term < p0 * (1 - r), rv == p0 * (1 - r)))))]


GET_LIMITED_PRICE = FSpec("PriceLimitRule.get_limited_price", pre=glp_pre, post=glp_post, props=("C15",),
                          raises={"AssertionError": lambda st, a: z3.Not(is_target(st, "PriceLimitRule", a["self"], a["market"]))},
                          result=("opt", ("real",)))


@task("PriceLimitRule.get_limited_price", props=["C15"], functions=["PriceLimitRule.get_limited_price", "Market.get_market_price", "Market._extract_data_by_time"], replay="events")
def t_get_limited_price():
    obl, info = GET_LIMITED_PRICE.verify()
    return {"obligations": obl, "info": [info]}


# ----------------------------------------------------------------------------- PriceLimitRule.hooked_before_order
def order_market(st, sim, order):
    id2 = st.read(sim, "id2market")
    mid = st.read(order, "market_id")
    return id2, V(("ref", "Market"), z3.Select(st.dict_val(id2), mid.term))


def hbo_pre(st, a):
    rule, sim, order = a["self"], a["simulator"], a["order"]
    id2, mk = order_market(st, sim, order)
    return [("the order names a registered market", st.dict_has(id2, st.read(order, "market_id")))] + market_ok(st, mk) + \
           [("trigger rate >= 0", st.read(rule, "trigger_change_rate").term >= 0)]


def hbo_post(st0, st1, a, res):
    rule, sim, order = a["self"], a["simulator"], a["order"]
    id2, mk = order_market(st0, sim, order)
    tgt = is_target(st0, "PriceLimitRule", rule, mk)
    p0 = mp0(st0, mk).term; r = st0.read(rule, "trigger_change_rate").term
    op0, op1 = st0.read(order, "price"), st1.read(order, "price")
    same = z3.And(op1.none == op0.none, z3.Implies(z3.Not(op0.none), op1.term == op0.term))
    return [("orders for markets that are not targets are left unchanged", z3.Implies(z3.Not(tgt), same)),
            ("market orders pass unchanged", op1.none == op0.none),
            ("target market: accepted limit price lies in the band", z3.Implies(z3.And(tgt, z3.Not(op0.none)), z3.And(p0 * (1 - r) <= op1.term, op1.term <= p0 * (1 + r)))),
            ("target market: a price inside the band is unchanged", z3.Implies(z3.And(tgt, z3.Not(op0.none), p0 * (1 - r) <= op0.term, op0.term <= p0 * (1 + r)), op1.term == op0.term))]


HOOKED_BEFORE_ORDER_PL = FSpec("PriceLimitRule.hooked_before_order", pre=hbo_pre, post=hbo_post, props=("C15",),
                               modifies=lambda st, a: [("f:Order.price", [a["order"].term]), ("f:PriceLimitRule.activation_count", [a["self"].term])])


@task("PriceLimitRule.hooked_before_order", props=["C15"], functions=["PriceLimitRule.hooked_before_order"], replay="events")
def t_pl_hook():
    obl, info = HOOKED_BEFORE_ORDER_PL.verify(specs={("m", "PriceLimitRule", "get_limited_price"): GET_LIMITED_PRICE.handler()})
    return {"obligations": obl, "info": [info]}


# ----------------------------------------------------------------------------- PriceLimitRule.hook_registration
def hook_fields(st, h):
    return {f: st.read(h, f) for f in ("event", "hook_type", "is_before", "time", "specific_class", "specific_instance")}


def plr_post(st0, st1, a, res):
    rule = a["self"]
    en = st0.read(rule, "is_enabled").term
    n = st1.length(res.term)
    h = V(("ref", "EventHook"), z3.Select(st1.elems(res.term, ("ref", "EventHook")), 0))
    f = hook_fields(st1, h)
    return [("disabled: no hook", z3.Implies(z3.Not(en), n == 0)),
            ("enabled: exactly one order-before hook at all times, owned by this rule",
             z3.Implies(en, z3.And(n == 1, f["event"].term == rule.term, f["hook_type"].term == z3.StringVal("order"), f["is_before"].term, f["time"].none)))]


PL_REGISTRATION = FSpec("PriceLimitRule.hook_registration", post=plr_post, props=("C15",), fresh_result=True, result=("list", ("ref", "EventHook")),
                        modifies=lambda st, a: ["len", "mem", "el:Ref", "nodup", "heapok"] + [("f:EventHook." + f, []) for f in ("event", "hook_type", "is_before", "time", "specific_class", "specific_instance")])


@task("PriceLimitRule.hook_registration", props=["C15", "C13"], functions=["PriceLimitRule.hook_registration", "EventHook.__init__"], replay="events")
def t_pl_registration():
    obl, info = PL_REGISTRATION.verify()
    return {"obligations": obl, "info": [info]}


# ----------------------------------------------------------------------------- OrderMistakeShock.hooked_before_order (C14)
FIELD_OVERRIDE[("TradingHaltRule", "halted_session")] = ("opt", ("ref", "Session"))      # exists after the repair of defect 2; otherwise never written


def om_market(st, ev, order):
    id2 = st.read(st.read(ev, "simulator"), "id2market")
    return id2, V(("ref", "Market"), z3.Select(st.dict_val(id2), st.read(order, "market_id").term))


def om_pre(st, a):
    ev, order = a["self"], a["order"]
    id2, mk = om_market(st, ev, order)
    t = st.read(mk, "time").term
    mp = cell(st, mk, "_market_prices", t)
    return [("the order names a registered market", st.dict_has(id2, st.read(order, "market_id")))] + market_ok(st, mk) + [("market price defined now", z3.Not(mp.none))]


def om_post(st0, st1, a, res):
    ev, order = a["self"], a["order"]; ot = order.term
    id2, mk = om_market(st0, ev, order)
    tgt = st0.read(st0.read(ev, "target_market"), "market_id").term
    same = O(st0, "market_id")[ot] == tgt
    trig0, trig1 = st0.read(ev, "triggerd").term, st1.read(ev, "triggerd").term
    rate = st0.read(ev, "price_change_rate").term
    mp = cell(st0, mk, "_market_prices", st0.read(mk, "time").term).term
    fields = ["is_buy", "kind", "volume", "ttl", "agent_id", "market_id", "is_canceled"]
    unchanged = z3.And(*[O(st1, f)[ot] == O(st0, f)[ot] for f in fields], O(st1, "price", "none")[ot] == O(st0, "price", "none")[ot], O(st1, "price")[ot] == O(st0, "price")[ot],
                       O(st1, "ttl", "none")[ot] == O(st0, "ttl", "none")[ot], trig1 == trig0)
    replaced = z3.And(O(st1, "is_buy")[ot] == (rate > 0), O(st1, "kind")[ot] == 1, O(st1, "volume")[ot] == st0.read(ev, "order_volume").term,
                      z3.Not(O(st1, "price", "none")[ot]), O(st1, "price")[ot] == mp * (1 + rate),
                      z3.Not(O(st1, "ttl", "none")[ot]), O(st1, "ttl")[ot] == st0.read(ev, "order_time_length").term, trig1,
                      O(st1, "market_id")[ot] == O(st0, "market_id")[ot], O(st1, "agent_id")[ot] == O(st0, "agent_id")[ot])
    return [("orders for other markets are never replaced", z3.Implies(z3.Not(same), unchanged)),
            ("at most one order is replaced (none after the shock has triggered)", z3.Implies(trig0, unchanged)),
            ("the first order for the target market becomes the configured limit order at market price x (1 + rate)", z3.Implies(z3.And(z3.Not(trig0), same), replaced))]


OM_HOOK = FSpec("OrderMistakeShock.hooked_before_order", pre=om_pre, post=om_post, props=("C14",),
                modifies=lambda st, a: [("f:Order." + f, [a["order"].term]) for f in ("is_buy", "kind", "volume", "price", "ttl")] + [("f:OrderMistakeShock.triggerd", [a["self"].term])])


@task("OrderMistakeShock.hooked_before_order", props=["C14"], functions=["OrderMistakeShock.hooked_before_order"], replay="events")
def t_om_hook():
    obl, info = OM_HOOK.verify()
    return {"obligations": obl, "info": [info]}


def om_reg_post(st0, st1, a, res):
    ev = a["self"]
    en = st0.read(ev, "is_enabled").term
    n = st1.length(res.term)
    h = V(("ref", "EventHook"), z3.Select(st1.elems(res.term, ("ref", "EventHook")), 0))
    f = hook_fields(st1, h)
    tl = f["time"]
    return [("disabled: no hook", z3.Implies(z3.Not(en), n == 0)),
            ("enabled: one order-before hook exactly at the trigger time",
             z3.Implies(en, z3.And(n == 1, f["event"].term == ev.term, f["hook_type"].term == z3.StringVal("order"), f["is_before"].term, z3.Not(tl.none),
                                   st1.length(tl.term, ("int",)) == 1, z3.Select(st1.elems(tl.term, ("int",)), 0) == st0.read(ev, "trigger_time").term)))]


HOOK_MODS = lambda st, a: ["len", "len:Int", "mem", "el:Ref", "el:Int", "nodup", "heapok"] + [("f:EventHook." + f, []) for f in ("event", "hook_type", "is_before", "time", "specific_class", "specific_instance")]
OM_REGISTRATION = FSpec("OrderMistakeShock.hook_registration", post=om_reg_post, props=("C14",), fresh_result=True, result=("list", ("ref", "EventHook")), modifies=HOOK_MODS)


@task("OrderMistakeShock.hook_registration", props=["C14", "C13"], functions=["OrderMistakeShock.hook_registration"], replay="events")
def t_om_registration():
    obl, info = OM_REGISTRATION.verify()
    return {"obligations": obl, "info": [info]}


# ----------------------------------------------------------------------------- TradingHaltRule (C16, C09 execution gate)
from pyvc.spec import GuardedSingleton     # noqa


def configured_exec(st):
    """ghost: the withOrderExecution value a session was configured with (set by Session.setup's contract)"""
    return st.gh("configured_exec", lambda: z3.ArraySort(REF, z3.BoolSort()))


def gate_inv(st, ev, sim):
    """GI: while the current session is configured without execution, nothing runs: neither its execution switch nor any market,
    and the rule does not consider itself the one that halted this session"""
    cs = st.read(sim, "current_session")
    conf = z3.Select(configured_exec(st), cs.term)
    flag = st.F("Session", "with_order_execution")[cs.term]
    hs = st.read(ev, "halted_session")
    m = z3.Const("m_gi", REF)
    return [("GI1 execution switch on only if the session was configured with execution", z3.Implies(z3.And(z3.Not(cs.none), flag), conf)),
            ("GI2 the rule records a halt only for a session configured with execution", z3.Implies(z3.And(z3.Not(cs.none), z3.Not(hs.none), hs.term == cs.term), conf)),
            ("GI3 markets run only in a session configured with execution", z3.ForAll([m], z3.Implies(z3.And(z3.Not(cs.none), st.F("Market", "_is_running")[m]), conf)))]


def th_common_modifies(st, a, market_term):
    ev, sim = a["self"], a["simulator"]
    cs = st.read(sim, "current_session").term
    return [("f:Market._is_running", [market_term]), ("f:Session.with_order_execution", [cs]), ("f:TradingHaltRule.halting_time_started", [ev.term]),
            ("f:TradingHaltRule.activation_count", [ev.term]), ("f:TradingHaltRule.halted_session", [ev.term])]


def bs_pre(st, a):
    return gate_inv(st, a["self"], a["simulator"])


def bs_post(st0, st1, a, res):
    ev, sim, market = a["self"], a["simulator"], a["market"]
    cs = st0.read(sim, "current_session")
    tgt = is_target(st0, "TradingHaltRule", ev, market)
    t = st0.read(market, "time").term
    due = t > st0.read(ev, "halting_time_started").term + st0.read(ev, "halting_time_length").term
    hs = st0.read(ev, "halted_session")
    mine = z3.And(z3.Not(hs.none), z3.Not(cs.none), hs.term == cs.term)
    run0, run1 = st0.F("Market", "_is_running"), st1.F("Market", "_is_running")
    flag0, flag1 = st0.F("Session", "with_order_execution")[cs.term], st1.F("Session", "with_order_execution")[cs.term]
    return gate_inv(st1, ev, sim) + [
        ("C16 a target halted by this rule in this session resumes at the first step after started + length", z3.Implies(z3.And(tgt, due, mine), z3.And(run1[market.term], flag1))),
        ("C16 no resumption before the halt length has passed, and never for non-targets", z3.Implies(z3.Not(z3.And(tgt, due)), z3.And(run1[market.term] == run0[market.term], flag1 == flag0))),
        ("C09 the rule switches execution on only in a session it halted itself", z3.Implies(z3.Not(mine), z3.And(run1[market.term] == run0[market.term], flag1 == flag0)))]


TH_BEFORE_STEP = FSpec("TradingHaltRule.hooked_before_step_for_market", pre=bs_pre, post=bs_post, props=("C16", "C09"),
                       modifies=lambda st, a: [m_ for m_ in th_common_modifies(st, a, a["market"].term) if m_[0] != "f:TradingHaltRule.halted_session"],      # the record of the halted session is kept: other targets of the same rule still have to resume
                       raises={"AssertionError": lambda st, a: z3.And(st.read(a["simulator"], "current_session").none, is_target(st, "TradingHaltRule", a["self"], a["market"]),
                                                                      st.read(a["market"], "time").term > st.read(a["self"], "halting_time_started").term + st.read(a["self"], "halting_time_length").term)})


@task("TradingHaltRule.hooked_before_step_for_market", props=["C16", "C09"], functions=["TradingHaltRule.hooked_before_step_for_market"], replay="events")
def t_th_before_step():
    obl, info = TH_BEFORE_STEP.verify(loops={0: GuardedSingleton(header="self.target_markets.values()", name="targets")})
    return {"obligations": obl, "info": [info]}


def ae_market(st, sim, log):
    id2 = st.read(sim, "id2market")
    return id2, V(("ref", "Market"), z3.Select(st.dict_val(id2), st.read(log, "market_id").term))


def ae_pre(st, a):
    ev, sim, log = a["self"], a["simulator"], a["execution_log"]
    id2, mk = ae_market(st, sim, log)
    t = st.read(mk, "time").term
    return gate_inv(st, ev, sim) + [("the fill names a registered market", st.dict_has(id2, st.read(log, "market_id")))] + market_ok(st, mk) + \
        [("market price defined now", z3.Not(cell(st, mk, "_market_prices", t).none)),
         ("a session is running", z3.Not(st.read(sim, "current_session").none))]


def ae_post(st0, st1, a, res):
    ev, sim, log = a["self"], a["simulator"], a["execution_log"]
    id2, mk = ae_market(st0, sim, log)
    cs = st0.read(sim, "current_session")
    tgt = is_target(st0, "TradingHaltRule", ev, mk)
    p0 = mp0(st0, mk).term; mp = cell(st0, mk, "_market_prices", st0.read(mk, "time").term).term
    rate = st0.read(ev, "trigger_change_rate").term; cnt0 = st0.read(ev, "activation_count").term
    dev = z3.If(p0 - mp >= 0, p0 - mp, mp - p0)
    line = p0 * rate * z3.ToReal(cnt0 + 1); line = z3.If(line >= 0, line, -line)
    run0, run1 = st0.F("Market", "_is_running"), st1.F("Market", "_is_running")
    halt = z3.And(run0[mk.term], tgt, dev >= line)
    flag0, flag1 = st0.F("Session", "with_order_execution")[cs.term], st1.F("Session", "with_order_execution")[cs.term]
    m = z3.Const("m_ae", REF)
    return gate_inv(st1, ev, sim) + [
        ("C16 deviation >= rate x (halts so far + 1) on a running target: the market stops at once, the halt is time-stamped and counted",
         z3.Implies(halt, z3.And(z3.Not(run1[mk.term]), z3.Not(flag1), st1.read(ev, "halting_time_started").term == st0.read(mk, "time").term,
                                 st1.read(ev, "activation_count").term == cnt0 + 1))),
        ("C16, C09 the halt is recorded for the session in which it happened (the one that is resumed later)",
         z3.Implies(halt, z3.And(z3.Not(st1.read(ev, "halted_session").none), st1.read(ev, "halted_session").term == cs.term))),
        ("C16 otherwise nothing changes", z3.Implies(z3.Not(halt), z3.And(run1[mk.term] == run0[mk.term], flag1 == flag0, st1.read(ev, "activation_count").term == cnt0,
                                                                             st1.read(ev, "halting_time_started").term == st0.read(ev, "halting_time_started").term,
                                                                             st1.read(ev, "halted_session").none == st0.read(ev, "halted_session").none,
                                                                             z3.Implies(z3.Not(st0.read(ev, "halted_session").none), st1.read(ev, "halted_session").term == st0.read(ev, "halted_session").term)))),
        ("C16 no other market is touched", z3.ForAll([m], z3.Implies(m != mk.term, run1[m] == run0[m])))]


def ae_modifies(st, a):
    id2, mk = ae_market(st, a["simulator"], a["execution_log"])
    return th_common_modifies(st, a, mk.term)


TH_AFTER_EXEC = FSpec("TradingHaltRule.hooked_after_execution", pre=ae_pre, post=ae_post, props=("C16", "C09"), modifies=ae_modifies)


@task("TradingHaltRule.hooked_after_execution", props=["C16", "C09"], functions=["TradingHaltRule.hooked_after_execution"], replay="events")
def t_th_after_exec():
    obl, info = TH_AFTER_EXEC.verify(loops={0: GuardedSingleton(header="self.target_markets.values()", name="targets")})
    return {"obligations": obl, "info": [info]}


# ----------------------------------------------------------------------------- Market.change_fundamental_price / FundamentalPriceShock (C14, C12)
def fund_objs(st, m):
    sim = st.read(m, "simulator"); fnd = st.read(sim, "fundamentals")
    prices = st.read(fnd, "prices")
    mid = st.read(m, "market_id")
    plist = V(("list", ("real",)), z3.Select(st.dict_val(prices), mid.term))
    return fnd, prices, mid, plist


def cfp_pre(st, a):
    m = a["self"]
    t = st.read(m, "time").term
    fnd, prices, mid, plist = fund_objs(st, m)
    fser = series_ref(st, m, "_fundamental_prices")
    return [("market clock >= 0", t >= 0), ("fundamental series covers the clock", st.length(fser, ("real",)) > t),
            ("fundamental price recorded for now", z3.Not(cell(st, m, "_fundamental_prices", t).none)),
            ("market registered with the fundamentals generator", st.dict_has(prices, mid)),
            ("generated path covers the clock", st.length(plist.term, ("real",)) > t),
            ("the market's recorded series and the generator's path are different lists", plist.term != fser)]


def cfp_modifies(st, a):
    m = a["self"]
    fnd, prices, mid, plist = fund_objs(st, m)
    fser = series_ref(st, m, "_fundamental_prices")
    return [("el:Real", [fser, plist.term]), ("el:Real?", [fser]), ("f:Fundamentals._generated_until", [fnd.term])]


def cfp_post(st0, st1, a, res):
    m, scale = a["self"], a["scale"]
    t = st0.read(m, "time").term
    fnd, prices, mid, plist = fund_objs(st0, m)
    fser = series_ref(st0, m, "_fundamental_prices")
    f0 = cell(st0, m, "_fundamental_prices", t).term
    i = z3.Int("i_cfp")
    e0, e1 = st0.elems(fser, ("opt", ("real",))), st1.elems(fser, ("opt", ("real",)))
    n0, n1 = st0.elems(fser, ("opt", ("real",)), "none"), st1.elems(fser, ("opt", ("real",)), "none")
    p0, p1 = st0.elems(plist.term, ("real",)), st1.elems(plist.term, ("real",))
    return [("recorded fundamental price at the current time is multiplied by scale", z3.And(z3.Not(z3.Select(n1, t)), z3.Select(e1, t) == f0 * to_real(scale))),
            ("the generator's path gets the same new level at the current time", z3.Select(p1, t) == f0 * to_real(scale)),
            ("regeneration point moved to now", st1.read(fnd, "_generated_until").term == t),
            ("values recorded for other times are not altered", z3.ForAll([i], z3.Implies(i != t, z3.And(z3.Select(e1, i) == z3.Select(e0, i), z3.Select(n1, i) == z3.Select(n0, i), z3.Select(p1, i) == z3.Select(p0, i)))))]


CHANGE_FUNDAMENTAL = FSpec("Market.change_fundamental_price", pre=cfp_pre, post=cfp_post, modifies=cfp_modifies, props=("C14", "C12", "C06"))


@task("Market.change_fundamental_price", props=["C14", "C12", "C06"], functions=["Market.change_fundamental_price", "Market.get_fundamental_price"], replay="fundamentals")
def t_change_fundamental():
    obl, info = CHANGE_FUNDAMENTAL.verify()
    return {"obligations": obl, "info": [info]}


def fs_window(st, ev, market):
    t = st.read(market, "time").term
    trig = st.read(ev, "trigger_time").term
    return z3.And(trig <= t, t < trig + st.read(ev, "shock_time_length").term)


def fs_pre(st, a):
    return cfp_pre(st, {"self": a["market"]})


def fs_post(st0, st1, a, res):
    ev, market = a["self"], a["market"]
    scale = V(("real",), 1 + st0.read(ev, "price_change_rate").term)
    return cfp_post(st0, st1, {"self": market, "scale": scale}, res)


FS_HOOK = FSpec("FundamentalPriceShock.hooked_before_step_for_market", pre=fs_pre, post=fs_post, props=("C14",),
                modifies=lambda st, a: cfp_modifies(st, {"self": a["market"]}),
                raises={"AssertionError": lambda st, a: z3.Or(z3.Not(fs_window(st, a["self"], a["market"])), a["market"].term != st.read(a["self"], "target_market").term)})


@task("FundamentalPriceShock.hooked_before_step_for_market", props=["C14"], functions=["FundamentalPriceShock.hooked_before_step_for_market"], replay="events")
def t_fs_hook():
    obl, info = FS_HOOK.verify(specs={("m", "Market", "change_fundamental_price"): CHANGE_FUNDAMENTAL.handler()})
    return {"obligations": obl, "info": [info]}


def fs_reg_post(st0, st1, a, res):
    ev = a["self"]
    en = st0.read(ev, "is_enabled").term
    n = st1.length(res.term)
    h = V(("ref", "EventHook"), z3.Select(st1.elems(res.term, ("ref", "EventHook")), 0))
    f = hook_fields(st1, h)
    tl = f["time"]; L = st0.read(ev, "shock_time_length").term; trig = st0.read(ev, "trigger_time").term
    i = z3.Int("i_fsr")
    return [("disabled: no hook", z3.Implies(z3.Not(en), n == 0)),
            ("enabled: one market-before hook for the target instance over the window [trigger, trigger + length)",
             z3.Implies(en, z3.And(n == 1, f["event"].term == ev.term, f["hook_type"].term == z3.StringVal("market"), f["is_before"].term, z3.Not(tl.none),
                                   st1.length(tl.term, ("int",)) == z3.If(L > 0, L, 0),
                                   z3.ForAll([i], z3.Implies(z3.And(0 <= i, i < L), z3.Select(st1.elems(tl.term, ("int",)), i) == trig + i)),
                                   z3.Not(f["specific_instance"].none), f["specific_instance"].term == st0.read(ev, "target_market").term, f["specific_class"].none)))]


FS_REGISTRATION = FSpec("FundamentalPriceShock.hook_registration", post=fs_reg_post, props=("C14",), fresh_result=True, result=("list", ("ref", "EventHook")), modifies=HOOK_MODS)


@task("FundamentalPriceShock.hook_registration", props=["C14", "C13"], functions=["FundamentalPriceShock.hook_registration"], replay="events")
def t_fs_registration():
    obl, info = FS_REGISTRATION.verify()
    return {"obligations": obl, "info": [info]}


# ----------------------------------------------------------------------------- event set-up from the configuration (C14: the trigger window is counted from the start of the event's session)
def _shas(st, d, k):
    return z3.Select(st.dict_dom(d), z3.StringVal(k))


def _sget(st, d, k):
    return z3.Select(st.dict_val(d), z3.StringVal(k))


def shock_setup_spec(qual, required, optional_int, with_name_check):
    """required: [(key, field, kind)] with kind in int / float / any; `enabled` optional; target -> name2market[target]"""
    def pre(st, a):
        s = a["settings"]
        return [("the target, if given, is a string", z3.Implies(_shas(st, s, "target"), dyn_is_str(_sget(st, s, "target")))),
                ("`enabled`, if given, is a boolean", z3.Implies(_shas(st, s, "enabled"), dyn_is_bool(_sget(st, s, "enabled")))),
                ("a float-valued rate is a JSON number", z3.Implies(_shas(st, s, "priceChangeRate"), z3.Or(dyn_is_real(_sget(st, s, "priceChangeRate")), dyn_is_int(_sget(st, s, "priceChangeRate")))))] + \
               ([] if with_name_check else [("the target names a registered market (this event does not check it itself)",
                                             z3.Implies(_shas(st, s, "target"), z3.Select(st.dict_dom(st.read(st.read(a["self"], "simulator"), "name2market")), dyn_str(_sget(st, s, "target")))))])

    def invalid(st, a):
        s = a["settings"]; ev = a["self"]
        n2m = st.read(st.read(ev, "simulator"), "name2market")
        isint = lambda v: z3.Or(dyn_is_int(v), dyn_is_bool(v))          # isinstance(x, int) accepts bool
        bad = [z3.Not(_shas(st, s, "target")), z3.Not(_shas(st, s, "triggerTime")), z3.Not(isint(_sget(st, s, "triggerTime")))]
        for key, fld, kind in required:
            bad.append(z3.Not(_shas(st, s, key)))
            if kind == "int":
                bad.append(z3.Not(isint(_sget(st, s, key))))
            if kind == "float":
                bad.append(z3.Not(dyn_is_real(_sget(st, s, key))))
        for key, fld in optional_int:
            bad.append(z3.And(_shas(st, s, key), z3.Not(isint(_sget(st, s, key)))))
        if with_name_check:
            bad.append(z3.Not(z3.Select(st.dict_dom(n2m), dyn_str(_sget(st, s, "target")))))
        if qual.startswith("FundamentalPriceShock"):
            bad.append(_shas(st, s, "triggerDays"))
        return z3.Or(*bad)

    def post(st0, st1, a, res):
        s = a["settings"]; ev = a["self"]
        ses = st0.read(ev, "session")
        n2m = st0.read(st0.read(ev, "simulator"), "name2market")
        out = [("C14 the trigger time is counted from the start of the event's own session: trigger_time = session_start_time + triggerTime",
                st1.read(ev, "trigger_time").term == st0.read(ses, "session_start_time").term + dyn_int(_sget(st0, s, "triggerTime"))),
               ("C14 the target is the market registered under the configured name", st1.read(ev, "target_market").term == z3.Select(st0.dict_val(n2m), dyn_str(_sget(st0, s, "target")))),
               ("`enabled` is taken from the configuration when given, else left as it was",
                st1.read(ev, "is_enabled").term == z3.If(_shas(st0, s, "enabled"), dyn_bool(_sget(st0, s, "enabled")), st0.read(ev, "is_enabled").term))]
        for key, fld, kind in required:
            v = _sget(st0, s, key)
            f1 = st1.read(ev, fld)
            want = dyn_int(v) if kind == "int" else (z3.If(dyn_is_int(v), z3.ToReal(dyn_int(v)), dyn_real(v)))
            out.append((f"C14 {fld} is the configured {key}", (f1.term == want) if kind == "int" else (to_real(f1) == want)))
        for key, fld in optional_int:
            out.append((f"{fld} is the configured {key} when given, else left as it was", st1.read(ev, fld).term == z3.If(_shas(st0, s, key), dyn_int(_sget(st0, s, key)), st0.read(ev, fld).term)))
        return out
    cls = qual.split(".")[0]
    fields = ["trigger_time", "target_market", "is_enabled", "target_market_name"] + [f for _k, f, _kind in required] + [f for _k, f in optional_int]
    spec = FSpec(qual, pre=pre, post=post, raises={"ValueError": invalid}, props=("C14",), param_types={"settings": ("dict", ("str",), ("dyn",))},
                 modifies=lambda st, a: [("f:" + field_owner_name(cls, f) + "." + f, [a["self"].term]) for f in fields if has_field(cls, f)])

    def build():
        obl, info = spec.verify()
        return {"obligations": obl, "info": [info]}
    build.__doc__ = qual + ": every configured parameter is stored as given; the trigger time is relative to the event's session"
    task(qual, props=["C14"], functions=[qual], replay="events")(build)
    return spec


def has_field(cls, f):
    try:
        field_type(cls, f)
        return True
    except Exception:      # noqa
        return False


def field_owner_name(cls, f):
    return field_owner(cls, f)


FSHOCK_SETUP = shock_setup_spec("FundamentalPriceShock.setup", [("priceChangeRate", "price_change_rate", "any")], [("shockTimeLength", "shock_time_length")], False)
MISTAKE_SETUP = shock_setup_spec("OrderMistakeShock.setup", [("priceChangeRate", "price_change_rate", "float"), ("orderVolume", "order_volume", "int"), ("orderTimeLength", "order_time_length", "int")], [], True)


# ----------------------------------------------------------------------------- set-up of the two rules: the target markets are exactly the configured names (C15, C16)
def rule_setup_spec(qual, extra_int, prop):
    cls = qual.split(".")[0]

    def names(st, a):
        s = a["settings"]
        v = _sget(st, s, "targetMarkets"); lst = dyn_ref(v)
        return v, lst, st.length(lst, ("dyn",)), (lambda j: z3.Select(st.elems(lst, ("dyn",)), j))

    def pre(st, a):
        s = a["settings"]
        return [("`enabled`, if given, is a boolean", z3.Implies(_shas(st, s, "enabled"), dyn_is_bool(_sget(st, s, "enabled")))),
                ("a JSON value has one shape", z3.Implies(_shas(st, s, "targetMarkets"), z3.Implies(dyn_is_list(_sget(st, s, "targetMarkets")), names(st, a)[2] >= 0))),
                ("the rule's own target map is not the simulator's market registry", st.read(a["self"], "target_markets").term != st.read(st.read(a["self"], "simulator"), "name2market").term)]

    def invalid(st, a):
        s = a["settings"]; ev = a["self"]
        n2m = st.read(st.read(ev, "simulator"), "name2market")
        v, lst, n, el = names(st, a); j = z3.Int("j_rsi")
        isint = lambda x: z3.Or(dyn_is_int(x), dyn_is_bool(x))
        bad = [z3.Not(_shas(st, s, "targetMarkets")), z3.Not(dyn_is_list(v)),
               z3.Exists([j], z3.And(0 <= j, j < n, z3.Or(z3.Not(dyn_is_str(el(j))), z3.Not(z3.Select(st.dict_dom(n2m), dyn_str(el(j))))))),
               z3.Not(_shas(st, s, "triggerChangeRate")), z3.Not(dyn_is_real(_sget(st, s, "triggerChangeRate")))]
        for key, fld in extra_int:
            bad += [z3.Not(_shas(st, s, key)), z3.Not(isint(_sget(st, s, key)))]
        return z3.Or(*bad)

    def post(st0, st1, a, res):
        s = a["settings"]; ev = a["self"]
        n2m = st0.read(st0.read(ev, "simulator"), "name2market")
        v, lst, n, el = names(st0, a); j = z3.Int("j_rsp"); k = z3.Const("k_rsp", z3.StringSort())
        tm0, tm1 = st0.read(ev, "target_markets"), st1.read(ev, "target_markets")
        out = [(f"{prop} the target markets are the previous ones plus exactly the configured names, each mapped to the market registered under that name",
                z3.And(tm1.term == tm0.term,
                       z3.ForAll([k], z3.Select(st1.dict_dom(tm1), k) == z3.Or(z3.Select(st0.dict_dom(tm0), k), z3.Exists([j], z3.And(0 <= j, j < n, dyn_str(el(j)) == k)))),
                       z3.ForAll([j], z3.Implies(z3.And(0 <= j, j < n), z3.Select(st1.dict_val(tm1), dyn_str(el(j))) == z3.Select(st0.dict_val(n2m), dyn_str(el(j))))))),
               (f"{prop} the trigger rate is the configured one", to_real(st1.read(ev, "trigger_change_rate")) == coerce(V(("dyn",), _sget(st0, s, "triggerChangeRate")), ("real",))),
               ("`enabled` is taken from the configuration when given, else left as it was",
                st1.read(ev, "is_enabled").term == z3.If(_shas(st0, s, "enabled"), dyn_bool(_sget(st0, s, "enabled")), st0.read(ev, "is_enabled").term))]
        for key, fld in extra_int:
            out.append((f"{prop} {fld} is the configured {key}", st1.read(ev, fld).term == dyn_int(_sget(st0, s, key))))
        return out

    def loops():
        def inv(st, ctx):
            i = ctx["i"]; e = ctx["entry"]; ev = st.env["self"]
            a = {"self": ev, "settings": st.env["settings"]}
            n2m = e.read(e.read(ev, "simulator"), "name2market")
            v, lst, n, el = names(e, a); j = z3.Int("j_rsl"); k = z3.Const("k_rsl", z3.StringSort())
            tm0, tm1 = e.read(ev, "target_markets"), st.read(ev, "target_markets")
            return [("target map = previous + the first i configured names",
                     z3.And(tm1.term == tm0.term,
                            z3.ForAll([k], z3.Select(st.dict_dom(tm1), k) == z3.Or(z3.Select(e.dict_dom(tm0), k), z3.Exists([j], z3.And(0 <= j, j < i, dyn_str(el(j)) == k)))),
                            z3.ForAll([j], z3.Implies(z3.And(0 <= j, j < i), z3.Select(st.dict_val(tm1), dyn_str(el(j))) == z3.Select(e.dict_val(n2m), dyn_str(el(j))))))),
                    ("the first i names are strings naming registered markets", z3.ForAll([j], z3.Implies(z3.And(0 <= j, j < i), z3.And(dyn_is_str(el(j)), z3.Select(e.dict_dom(n2m), dyn_str(el(j))))))),
                    ("the configuration and the registry are not written", z3.And(st.dict_dom(n2m) == e.dict_dom(n2m), st.dict_val(n2m) == e.dict_val(n2m), st.length(lst, ("dyn",)) == n, st.elems(lst, ("dyn",)) == e.elems(lst, ("dyn",))))]
        return {0: LoopSpec(inv, modifies=lambda st, ctx: [("dd:String_Ref", [st.read(st.env["self"], "target_markets").term]), ("dv:String_Ref", [st.read(st.env["self"], "target_markets").term])],
                            header="settings['targetMarkets']", name="configured-targets")}
    fields = ["trigger_change_rate", "is_enabled"] + [f for _k, f in extra_int]
    spec = FSpec(qual, pre=pre, post=post, raises={"ValueError": invalid}, props=(prop,), param_types={"settings": ("dict", ("str",), ("dyn",))},
                 modifies=lambda st, a: [("f:" + field_owner(cls, f) + "." + f, [a["self"].term]) for f in fields] +
                                        [("dd:String_Ref", [st.read(a["self"], "target_markets").term]), ("dv:String_Ref", [st.read(a["self"], "target_markets").term])])

    def build():
        obl, info = spec.verify(loops=loops())
        return {"obligations": obl, "info": [info]}
    build.__doc__ = qual + ": the rule's targets are exactly the configured market names; rate and lengths as configured"
    task(qual, props=[prop], functions=[qual], replay="events")(build)
    return spec


PLR_SETUP = rule_setup_spec("PriceLimitRule.setup", [], "C15")
THR_SETUP = rule_setup_spec("TradingHaltRule.setup", [("haltingTimeLength", "halting_time_length")], "C16")


# ----------------------------------------------------------------------------- TradingHaltRule.hook_registration: one after-execution hook and one before-step hook PER target market (C16)
def thr_reg_post(st0, st1, a, res):
    rule = a["self"]
    en = st0.read(rule, "is_enabled").term
    tm = st0.read(rule, "target_markets")
    ks = z3.StringSort()
    cnt = z3.Function("dict_size_String", z3.ArraySort(ks, z3.BoolSort()), z3.IntSort())
    n = st1.length(res.term); el = st1.elems(res.term, ("ref", "EventHook"))
    hk = lambda j: V(("ref", "EventHook"), z3.Select(el, j))
    f0 = hook_fields(st1, hk(0))
    j = z3.Int("j_thr"); k = z3.Const("k_thr", ks)
    fj = hook_fields(st1, hk(j))
    is_step_hook = z3.And(fj["event"].term == rule.term, fj["hook_type"].term == z3.StringVal("market"), fj["is_before"].term, fj["time"].none, fj["specific_class"].none, z3.Not(fj["specific_instance"].none))
    return [("disabled: no hook", z3.Implies(z3.Not(en), n == 0)),
            ("C16 enabled: the first hook is the after-execution hook of this rule, at all times",
             z3.Implies(en, z3.And(n >= 1, f0["event"].term == rule.term, f0["hook_type"].term == z3.StringVal("execution"), z3.Not(f0["is_before"].term), f0["time"].none))),
            ("C16 enabled: as many before-step hooks as target markets", z3.Implies(en, n == 1 + cnt(st0.dict_dom(tm)))),
            ("C16 enabled: every further hook is a before-step hook of this rule for one of its target markets, at all times",
             z3.Implies(en, z3.ForAll([j], z3.Implies(z3.And(1 <= j, j < n), z3.And(is_step_hook, z3.Exists([k], z3.And(z3.Select(st0.dict_dom(tm), k), z3.Select(st0.dict_val(tm), k) == fj["specific_instance"].term))))))),
            ("C16 enabled: every target market has its before-step hook",
             z3.Implies(en, z3.ForAll([k], z3.Implies(z3.Select(st0.dict_dom(tm), k), z3.Exists([j], z3.And(1 <= j, j < n, hook_fields(st1, hk(j))["specific_instance"].term == z3.Select(st0.dict_val(tm), k)))))))]


def thr_reg_loops():
    def inv(st, ctx):
        i = ctx["i"]; rule = st.env["self"]; at = ctx["at"]
        L = st.env["event_hooked_before_step_for_market"]
        el = st.elems(L.term, ("ref", "EventHook")); j = z3.Int("j_thrl")
        fj = hook_fields(st, V(("ref", "EventHook"), z3.Select(el, j)))
        return [("one hook per target visited so far", st.length(L.term) == i),
                ("the j-th hook is a before-step hook of this rule for the j-th target, at all times",
                 z3.ForAll([j], z3.Implies(z3.And(0 <= j, j < i), z3.And(fj["event"].term == rule.term, fj["hook_type"].term == z3.StringVal("market"), fj["is_before"].term, fj["time"].none, fj["specific_class"].none,
                                                                          z3.Not(fj["specific_instance"].none), fj["specific_instance"].term == at(ctx["entry"].peek(), j).term)))),
                ("the hooks collected so far are objects created by this call", z3.And(z3.Not(ctx["fn_entry"].is_alloc(L.term)), st.is_alloc(L.term),
                                                                                     z3.ForAll([j], z3.Implies(z3.And(0 <= j, j < i), z3.And(z3.Not(ctx["fn_entry"].is_alloc(z3.Select(el, j))), st.is_alloc(z3.Select(el, j)))))))]

    def on_exit(ex, s1, ctx):
        # two cut lemmas (proved here, then available to the postcondition): the hooks collected are exactly one per target market
        if ctx.get("broke"):
            return
        rule = s1.env["self"]; tm = ctx["entry"].read(rule, "target_markets")
        L = s1.env["event_hooked_before_step_for_market"]
        el = s1.elems(L.term, ("ref", "EventHook")); j = z3.Int("j_cut"); k = z3.Const("k_cut", z3.StringSort())
        inst = lambda jj: hook_fields(s1, V(("ref", "EventHook"), z3.Select(el, jj)))["specific_instance"].term
        dom, val = ctx["entry"].dict_dom(tm), ctx["entry"].dict_val(tm)
        n = s1.length(L.term)
        for label, f in (("every collected hook is for some target market", z3.ForAll([j], z3.Implies(z3.And(0 <= j, j < n), z3.Exists([k], z3.And(z3.Select(dom, k), z3.Select(val, k) == inst(j)))))),
                         ("every target market has a collected hook", z3.ForAll([k], z3.Implies(z3.Select(dom, k), z3.Exists([j], z3.And(0 <= j, j < n, inst(j) == z3.Select(val, k))))))):
            s1.oblige("cut:" + label, f, "lemma")
            s1.assume(f)
        # Skolem form of the second lemma (sound once the lemma is proved): names the position of a target's hook, so later steps need not guess it
        pos = z3.Function("thr_hook_position", z3.StringSort(), z3.IntSort())
        s1.assume(z3.ForAll([k], z3.Implies(z3.Select(dom, k), z3.And(0 <= pos(k), pos(k) < n, inst(pos(k)) == z3.Select(val, k)))))
    return {0: LoopSpec(inv, on_exit=on_exit, modifies=lambda st, ctx: ["len", "mem", "el:Ref", "nodup", "heapok"] + [("f:EventHook." + f, []) for f in ("event", "hook_type", "is_before", "time", "specific_class", "specific_instance")],
                        header="self.target_markets.values()", name="targets", frame_since_entry=False)}


THR_REGISTRATION = FSpec("TradingHaltRule.hook_registration", post=thr_reg_post, props=("C16",), fresh_result=True, result=("list", ("ref", "EventHook")),
                         modifies=lambda st, a: ["len", "mem", "el:Ref", "nodup", "heapok"] + [("f:EventHook." + f, []) for f in ("event", "hook_type", "is_before", "time", "specific_class", "specific_instance")])


@task("TradingHaltRule.hook_registration", props=["C16", "C13"], functions=["TradingHaltRule.hook_registration", "EventHook.__init__"], replay="events")
def t_thr_registration():
    """the halt rule registers its after-execution hook and exactly one before-step hook for each of its target markets (that hook resumes the market on schedule)"""
    def setup(ex, st, a):
        # the collecting list is created by an unannotated `[]`: its element type is the type of what the loop appends
        st.ghost["@decl:event_hooked_before_step_for_market"] = ("list", ("ref", "EventHook"))
    obl, info = THR_REGISTRATION.verify(loops=thr_reg_loops(), setup=setup)
    return {"obligations": obl, "info": [info]}
