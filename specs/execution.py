"""Market.remain_executable_orders and Market._execution under contract (C01, C02, C03; parts of C04, C08, C10).
Proof outline: DESIGN.md Appendix A. Ghost state: origB/origS (queues at entry), vol0, idxB/idxS (position in the popped lists),
fillB/fillS (volume tentatively matched), pv/pb/ps (views of the pending tuples), fhB/fhS (fill history per pending prefix)."""
import ast
import z3

from pyvc.core import *   # noqa
from pyvc.spec import FSpec, LoopSpec, task, emit, event, havoc_with_frame
from .vocab import *      # noqa
from . import book as B
from . import market as M

A2 = z3.ArraySort(z3.IntSort(), z3.ArraySort(REF, z3.IntSort()))
IARR = lambda: z3.ArraySort(z3.IntSort(), z3.IntSort())


def tops(st, m):
    bb, sb = books(st, m)
    qB, qS = queue(st, bb).term, queue(st, sb).term
    return qB, qS, z3.Select(st.elems(qB, ("ref", "Order")), 0), z3.Select(st.elems(qS, ("ref", "Order")), 0)


def both_market(st, m):
    qB, qS, tB, tS = tops(st, m)
    prn = O(st, "price", "none")
    return z3.And(st.length(qB) > 0, st.length(qS) > 0, prn[tB], prn[tS])


def executable(st, m):
    """some pair is executable, for books whose tops are not both market orders"""
    qB, qS, tB, tS = tops(st, m)
    prn, pr = O(st, "price", "none"), O(st, "price")
    return z3.And(st.length(qB) > 0, st.length(qS) > 0, z3.Or(prn[tB], prn[tS], pr[tS] <= pr[tB]))


# ----------------------------------------------------------------------------- remain_executable_orders
def reo_post(st0, st1, a, res):
    m = a["self"]
    return [("unless both best orders are market orders: result = both sides non-empty and (a best order is a market order or best ask <= best bid)",
             z3.Implies(z3.Not(both_market(st0, m)), res.term == executable(st0, m)))]


REMAIN_EXECUTABLE = FSpec("Market.remain_executable_orders", axioms=lambda st, a: M.market_axioms(st, a["self"]), pre=lambda st, a: M.market_inv(st, a["self"]), post=reo_post,
                          props=("C03",))
REMAIN_EXECUTABLE.may_raise = {"AssertionError": lambda st, a: both_market(st, a["self"])}


def opaque_both_market(ex, st):
    """the branch taken when both best orders are market orders (price/volume dictionaries) is not modelled:
    it returns some boolean or raises AssertionError; the bounded stand-in covers it (DESIGN.md C03/B)"""
    ex.used_assumptions.add("ABSTRACTION: the both-best-orders-are-market-orders branch of remain_executable_orders is over-approximated (any boolean / AssertionError); bounded stand-in covers it")
    r = st.copy()
    ex.escaped.append((r, "raise", ("AssertionError", "opaque both-market branch")))
    return [(st, "return", V(("bool",), z3.Const(fresh_name("opaque_executable"), z3.BoolSort())))]


def reo_setup(ex, st, a):
    B.setup_book(ex, st, a)
    ex.opaque_branches = {("remain_executable_orders", "sell_best.price is not None or buy_best.price is not None"): {"branch": False, "outcomes": opaque_both_market}}


@task("Market.remain_executable_orders", props=["C03", "C01"], functions=["Market.remain_executable_orders", "OrderBook.__len__", "OrderBook.get_best_order"], replay="matching")
def t_remain_executable():
    obl, info = REMAIN_EXECUTABLE.verify(setup=reo_setup)
    return {"obligations": obl, "info": [info]}


# ----------------------------------------------------------------------------- _execution
QUAL = "Market._execution"
GH = {"fillB": None, "fillS": None, "idxB": None, "idxS": None, "pv": IARR, "pb": IARR, "ps": IARR}


def G(st, name):
    if name in ("fhB", "fhS"):
        return st.gh(name, lambda: A2)
    return st.gh(name, GH[name] or (lambda: z3.ArraySort(REF, z3.IntSort())))


def entry_ghost(st, m):
    """values fixed at function entry: the two queues as sets, entry volumes"""
    bb, sb = books(st, m)
    qB, qS = queue(st, bb).term, queue(st, sb).term
    return {"qB": qB, "qS": qS, "origB": st.memset(qB), "origS": st.memset(qS), "vol0": O(st, "volume"), "bb": bb, "sb": sb,
            "topB": z3.Select(st.elems(qB, ("ref", "Order")), 0), "topS": z3.Select(st.elems(qS, ("ref", "Order")), 0), "lenS0": st.length(qS)}


def ex_pre(st, a):
    m = a["self"]
    return M.market_inv(st, m) + [("the market is running", st.read(m, "_is_running").term),
                                  ("not both best orders are market orders (the complement is covered by the bounded stand-in)", z3.Not(both_market(st, m)))]


def side_inv(st, e0, tag, q, orig, popped, idxn, filln, cur, tmp, is_buy, may_be_empty):
    x, y, k, k2 = z3.Consts(f"x_{tag} y_{tag} k_{tag} k2_{tag}", z3.IntSort())
    P = st.elems(popped, ("ref", "Order")); nP = st.length(popped); idx = G(st, idxn); fill = G(st, filln)
    vol0 = e0["vol0"]
    poppedp = lambda t: z3.And(0 <= idx[t], idx[t] < nP, P[idx[t]] == t)
    bf = lambda a_, b_: before(e0["st"], a_, b_, is_buy)
    return [(f"{tag}: queue length >= 0", st.length(q) >= 0),
            (f"{tag}: popped count", nP >= (0 if may_be_empty else 1)),
            (f"{tag}: popped are original, not in queue, idx", z3.ForAll([k], z3.Implies(z3.And(0 <= k, k < nP), z3.And(idx[P[k]] == k, z3.Not(st.mem(q, P[k])), orig[P[k]])))),
            (f"{tag}: orig = queue + popped", z3.ForAll([x], orig[x] == z3.Or(st.mem(q, x), poppedp(x)))),
            (f"{tag}: popped not in queue", z3.ForAll([x], z3.Implies(poppedp(x), z3.Not(st.mem(q, x))))),
            (f"{tag}: mem view of the popped list", z3.ForAll([x], st.mem(popped, x) == poppedp(x))),
            (f"{tag}: popped list and queue duplicate-free", z3.And(st.nodup(popped), st.nodup(q))),
            (f"{tag}: popped sorted by priority", z3.ForAll([k, k2], z3.Implies(z3.And(0 <= k, k < k2, k2 < nP), bf(P[k], P[k2])))),
            (f"{tag}: every popped order precedes every queued order", z3.ForAll([k, x], z3.Implies(z3.And(0 <= k, k < nP, st.mem(q, x)), bf(P[k], x)))),
            (f"{tag}: unpopped orders are unfilled", z3.ForAll([x], z3.Implies(z3.Not(poppedp(x)), fill[x] == 0))),
            (f"{tag}: fills >= 0", z3.ForAll([x], fill[x] >= 0)),
            (f"{tag}: earlier popped orders are fully filled", z3.ForAll([k], z3.Implies(z3.And(0 <= k, k < nP - 1), fill[P[k]] == vol0[P[k]]))),
            (f"{tag}: heap shape of the queue", st.heapok(q)),
            (f"{tag}: current order bookkeeping", z3.Implies(nP >= 1, z3.And(cur == P[nP - 1], fill[cur] == vol0[cur] - tmp, 0 <= tmp, tmp <= vol0[cur]))),
            (f"{tag}: nothing popped => tmp 0", z3.Implies(nP == 0, tmp == 0))]


def hist_inv(st, e0, nm, orig, filln, parr):
    j = z3.Int("j_" + nm); x_ = z3.Const("xh_" + nm, REF)
    n = st.length(st.env["pending"].term, ("tuple",))
    fh = G(st, nm); pv = G(st, "pv"); fill = G(st, filln); pa = G(st, parr); vol0 = e0["vol0"]
    return [(f"{nm}: starts at zero", z3.ForAll([x_], fh[0][x_] == 0)),
            (f"{nm}: one entry per pending pair", z3.ForAll([j, x_], z3.Implies(z3.And(0 <= j, j < n), fh[j + 1][x_] == fh[j][x_] + z3.If(x_ == pa[j], pv[j], 0)))),
            (f"{nm}: ends at the fill", z3.ForAll([x_], fh[n][x_] == fill[x_])),
            (f"{nm}: non-negative", z3.ForAll([j, x_], z3.Implies(z3.And(0 <= j, j <= n), fh[j][x_] >= 0))),
            (f"{nm}: never above the fill", z3.ForAll([j, x_], z3.Implies(z3.And(0 <= j, j <= n), fh[j][x_] <= fill[x_]))),
            (f"{nm}: pending volumes positive, parties original", z3.ForAll([j], z3.Implies(z3.And(0 <= j, j < n), z3.And(pv[j] >= 1, orig[pa[j]])))),
            (f"{nm}: parties of pending pairs have a positive fill", z3.ForAll([j], z3.Implies(z3.And(0 <= j, j < n), fill[pa[j]] >= 1))),
            (f"{nm}: fill never exceeds entry volume", z3.ForAll([x_], z3.Implies(orig[x_], fill[x_] <= vol0[x_])))]


def rule_price(e0, b, s_):
    """E4: the limit price of the earlier-accepted order of the pair (the limit order's price when its counterpart is a market order)"""
    st0 = e0["st"]
    prn, pr = O(st0, "price", "none"), O(st0, "price")
    return z3.If(prn[b], pr[s_], z3.If(prn[s_], pr[b], z3.If(tie(st0, b, s_), pr[b], pr[s_])))


def walk_inv(e0):
    def inv(st, ctx):
        e = st.env
        PB, PS = e["popped_buy_orders"].term, e["popped_sell_orders"].term
        bt, stmp = e["buy_order_volume_tmp"].term, e["sell_order_volume_tmp"].term
        c = side_inv(st, e0, "buy", e0["qB"], e0["origB"], PB, "idxB", "fillB", e["buy_order"].term, bt, True, False)
        c += side_inv(st, e0, "sell", e0["qS"], e0["origS"], PS, "idxS", "fillS", e["sell_order"].term, stmp, False, True)
        c.append(("at most one temporary non-zero", z3.Not(z3.And(bt != 0, stmp != 0))))
        x = z3.Const("x_w", REF); x2 = z3.Const("x2_w", REF); j = z3.Int("j_w")
        p = e["price"]; fb, fs = G(st, "fillB"), G(st, "fillS")
        prn, pr = O(e0["st"], "price", "none"), O(e0["st"], "price")
        npend = st.length(e["pending"].term, ("tuple",))
        pb, ps = G(st, "pb"), G(st, "ps")
        c.append(("C01 bound: every filled limit buy is priced at or above the price", z3.ForAll([x], z3.Implies(z3.And(fb[x] > 0, z3.Not(prn[x])), z3.And(z3.Not(p.none), p.term <= pr[x])))))
        c.append(("C01 bound: every filled limit sell is priced at or below the price", z3.ForAll([x], z3.Implies(z3.And(fs[x] > 0, z3.Not(prn[x])), z3.And(z3.Not(p.none), p.term >= pr[x])))))
        c.append(("pending length >= 0", npend >= 0))
        c.append(("C01 price rule: the price is the rule price of the last pending pair unless that pair is market/market",
                  z3.Implies(z3.And(npend >= 1, z3.Not(z3.And(prn[pb[npend - 1]], prn[ps[npend - 1]]))), z3.And(z3.Not(p.none), p.term == rule_price(e0, pb[npend - 1], ps[npend - 1])))))
        PBel = st.elems(PB, ("ref", "Order"))
        c.append(("C03: before the first match we are still at the two original tops",
                  z3.Implies(npend == 0, z3.And(st.length(PB) == 1, PBel[0] == e0["topB"], bt == e0["vol0"][e0["topB"]], st.length(PS) == 0, st.length(e0["qS"]) == e0["lenS0"],
                                                z3.Select(st.elems(e0["qS"], ("ref", "Order")), 0) == e0["topS"], z3.ForAll([x2], st.mem(e0["qS"], x2) == e0["origS"][x2])))))
        c.append(("C03: the price is set once a pair matched", z3.Implies(npend >= 1, z3.Not(p.none))))
        c += hist_inv(st, e0, "fhB", e0["origB"], "fillB", "pb") + hist_inv(st, e0, "fhS", e0["origS"], "fillS", "ps")
        return c
    return inv


def exit_facts(st, e0):
    """cut lemma at every exit of the walk, over final volume := entry volume - fill"""
    vol0 = e0["vol0"]; st0 = e0["st"]
    prn, pr = O(st0, "price", "none"), O(st0, "price")
    fb, fs = G(st, "fillB"), G(st, "fillS"); x, y, bb_, bs_ = z3.Consts("ex_x ex_y ex_bb ex_bs", REF)
    remB = lambda t: z3.And(e0["origB"][t], fb[t] < vol0[t]); remS = lambda t: z3.And(e0["origS"][t], fs[t] < vol0[t])
    bestB = z3.And(remB(bb_), z3.ForAll([x], z3.Implies(z3.And(remB(x), x != bb_), before(st0, bb_, x, True))))
    bestS = z3.And(remS(bs_), z3.ForAll([x], z3.Implies(z3.And(remS(x), x != bs_), before(st0, bs_, x, False))))
    return [("ExitFacts E6 buys: filled orders are a priority prefix", z3.ForAll([x, y], z3.Implies(z3.And(e0["origB"][x], e0["origB"][y], before(st0, y, x, True), fb[x] > 0), fb[y] == vol0[y]))),
            ("ExitFacts E6 sells: filled orders are a priority prefix", z3.ForAll([x, y], z3.Implies(z3.And(e0["origS"][x], e0["origS"][y], before(st0, y, x, False), fs[x] > 0), fs[y] == vol0[y]))),
            ("ExitFacts E7: the best remaining orders do not cross", z3.ForAll([bb_, bs_], z3.Implies(z3.And(bestB, bestS, z3.Or(z3.Not(prn[bb_]), z3.Not(prn[bs_]))),
                                                                                                   z3.And(z3.Not(prn[bb_]), z3.Not(prn[bs_]), pr[bb_] < pr[bs_])))),
            ("ExitFacts: not both sides keep a market order on top", z3.ForAll([bb_, bs_], z3.Implies(z3.And(bestB, bestS), z3.Not(z3.And(prn[bb_], prn[bs_])))))]


def walk_modifies(e0):
    def mods(st, ctx):
        e = st.env
        ls = [e0["qB"], e0["qS"], e["popped_buy_orders"].term, e["popped_sell_orders"].term]
        return [("len", ls), ("mem", ls), ("el:Ref", ls), ("heapok", ls), ("nodup", ls), ("len:Tup", [e["pending"].term]),
                "g:fillB", "g:fillS", "g:idxB", "g:idxS", "g:pv", "g:pb", "g:ps", "g:fhB", "g:fhS"]
    return mods


def execution_hooks(ex, e0):
    def on_append(ex_, st, recv, n, v):
        env = st.env
        if "popped_buy_orders" in env and env["popped_buy_orders"] is not None and recv.term.eq(env["popped_buy_orders"].term):
            st.set_gh("idxB", z3.Store(G(st, "idxB"), v.term, n))
        elif "popped_sell_orders" in env and env["popped_sell_orders"] is not None and recv.term.eq(env["popped_sell_orders"].term):
            st.set_gh("idxS", z3.Store(G(st, "idxS"), v.term, n))

    def on_tuple_append(ex_, st, recv, n, v):
        vol, b, s_ = v.py
        st.set_gh("pv", z3.Store(G(st, "pv"), n, vol.term)); st.set_gh("pb", z3.Store(G(st, "pb"), n, b.term)); st.set_gh("ps", z3.Store(G(st, "ps"), n, s_.term))
        fb, fs = G(st, "fillB"), G(st, "fillS")
        st.set_gh("fillB", z3.Store(fb, b.term, fb[b.term] + vol.term)); st.set_gh("fillS", z3.Store(fs, s_.term, fs[s_.term] + vol.term))
        for nm, party in (("fhB", b.term), ("fhS", s_.term)):
            fh = G(st, nm); row = z3.Select(fh, n)
            st.set_gh(nm, z3.Store(fh, n + 1, z3.Store(row, party, row[party] + vol.term)))
    ex.specs[("hook", "append", QUAL)] = on_append
    ex.specs[("hook", "tuple-append", QUAL)] = on_tuple_append


def phase3_inv(ex, e0, st, m, k, logs, price):
    vol0 = e0["vol0"]; vol = O(st, "volume"); x = z3.Const("x3", REF); j = z3.Int("j3")
    bb, sb = books(st, m)
    qB, qS = queue(st, bb).term, queue(st, sb).term
    fhB, fhS = G(st, "fhB"), G(st, "fhS")
    LP, LV = st.F("ExecutionLog", "price"), st.F("ExecutionLog", "volume")
    LB, LS = st.F("ExecutionLog", "buy_order_id"), st.F("ExecutionLog", "sell_order_id")
    LE = st.elems(logs, ("ref", "ExecutionLog"))
    pv, pb, ps = G(st, "pv"), G(st, "pb"), G(st, "ps")
    oid = O(e0["st"], "order_id")
    npend = st.length(st.env["pending"].term, ("tuple",))
    c = [("phase3: 0 <= k <= len(pending)", z3.And(0 <= k, k <= npend)),
         ("phase3: buy volumes = entry volume - fill history", z3.ForAll([x], z3.Implies(e0["origB"][x], vol[x] == vol0[x] - fhB[k][x]))),
         ("phase3: sell volumes = entry volume - fill history", z3.ForAll([x], z3.Implies(e0["origS"][x], vol[x] == vol0[x] - fhS[k][x]))),
         ("phase3: the original orders are objects that existed at entry", z3.ForAll([x], z3.Implies(z3.Or(e0["origB"][x], e0["origS"][x]), z3.And(e0["st"].is_alloc(x), st.is_alloc(x))))),
         ("phase3: buy queue = original orders with volume left", z3.ForAll([x], st.mem(qB, x) == z3.And(e0["origB"][x], vol[x] > 0))),
         ("phase3: sell queue = original orders with volume left", z3.ForAll([x], st.mem(qS, x) == z3.And(e0["origS"][x], vol[x] > 0))),
         ("phase3: len(logs) == k", st.length(logs) == k),
         ("phase3: every log so far carries the common price, its pending volume and the ids of its pending pair",
          z3.ForAll([j], z3.Implies(z3.And(0 <= j, j < k), z3.And(LP[LE[j]] == price, LV[LE[j]] == pv[j], LB[LE[j]] == oid[pb[j]], LS[LE[j]] == oid[ps[j]],
                                                                   z3.Not(e0["st"].is_alloc(LE[j])), st.is_alloc(LE[j]))))),
         ("phase3: market still running, same books", z3.And(st.read(m, "_is_running").term, bb.term == e0["bb"].term, sb.term == e0["sb"].term,
                                                             st.read(m, "time").term == e0["st"].read(m, "time").term))]
    return c + M.market_inv(st, m)


def make_map_spec(e0, m):
    def map_spec(ex, lam, seq, st, d):
        out = []
        for s1, pend in ex.ev(seq, st, d):
            s1 = s1.copy()
            logsv = s1.new_list(("ref", "ExecutionLog"), "logs")
            logs = logsv.term
            price = s1.env["price"].term
            s1.labels = s1.labels + ["apply-fills"]
            for nm, g in phase3_inv(ex, e0, s1.peek_env(), m, z3.IntVal(0), logs, price):
                s1.oblige("inv-init:" + nm, g, "inv-init")
            h = s1.copy(); k = z3.Const(fresh_name("k_fill"), z3.IntSort())
            bb, sb = books(s1, m)
            mods = ["f:Order.volume", "len", "mem", "el:Ref", "heapok", "nodup", "el:Real", "el:Real?", "el:Int"] + [("f:ExecutionLog." + f, []) for f in M.XLOG_FIELDS]
            havoc_with_frame(h, mods)
            # lists the loop does not touch keep their views (pending, popped lists are not modified by _execute_orders)
            for nm in ("popped_buy_orders", "popped_sell_orders"):
                h.assume(h.length(s1.env[nm].term) == s1.length(s1.env[nm].term))
            trace0 = list(h.trace)
            for nm, g in phase3_inv(ex, e0, h.peek_env(), m, k, logs, price):
                h.assume(g)
            for f in M.market_axioms(h.peek(), m):
                h.assume(f)
            hb = h.copy(); hb.assume(k < hb.length(pend.term, ("tuple",)))
            xv = V(("tuple",), py=[V(("int",), G(hb, "pv")[k]), V(("ref", "Order"), G(hb, "pb")[k]), V(("ref", "Order"), G(hb, "ps")[k])])
            hb.env = dict(hb.env); hb.env[lam.args.args[0].arg] = xv
            iteration_traces = []
            for s2, logv in ex.ev(lam.body, hb, d):
                s2 = s2.copy(); n = s2.length(logs)
                s2.list_set(V(("list", ("ref", "ExecutionLog")), logs), V(("int",), n), logv, check=False)
                s2.set_len(logs, n + 1)
                s2.set_mem(logs, z3.Store(s2.memset(logs), logv.term, z3.BoolVal(True)))
                for nm, g in phase3_inv(ex, e0, s2.peek_env(), m, k + 1, logs, price):
                    s2.oblige("inv-step:" + nm, g, "inv-step")
                delta = s2.trace[len(trace0):]
                lgr = s2.read(m, "logger")
                if len(delta) == 1 and delta[0][0] == "Write":
                    s2.oblige("trace:each applied fill hands exactly its own record to the market's logger", z3.And(delta[0][2][0] == logv.term, delta[0][2][1] == lgr.term, z3.Not(lgr.none)), "trace")
                    iteration_traces.append("write")
                elif len(delta) == 0:
                    s2.oblige("trace:no record is written only when the market has no logger", lgr.none, "trace")
                    iteration_traces.append("none")
                else:
                    s2.oblige("trace:each applied fill writes exactly one record", z3.BoolVal(False), "trace")
            he = h.copy(); he.assume(k == he.length(pend.term, ("tuple",)))
            he.labels = he.labels[:-1]
            lgr = he.read(m, "logger")
            he.trace = trace0 + [("WriteEachFill", None, (logs, lgr.term))]
            he_none = he.copy(); he_none.assume(lgr.none); he_none.trace = list(trace0)
            he.assume(z3.Not(lgr.none))
            for hx in (he, he_none):
                if feasible(hx.pc):
                    out.append((hx, V(("list", ("ref", "ExecutionLog")), logs)))
        return out
    return map_spec


def ex_post_factory(e0_holder):
    def ex_post(st0, st1, a, res):
        m = a["self"]
        e0 = e0_holder.get("e0") or dict(entry_ghost(st0, m), st=st0)
        vol0 = O(st0, "volume"); volF = O(st1, "volume")
        fb, fs = G(st1, "fillB"), G(st1, "fillS"); pb, ps, pv = G(st1, "pb"), G(st1, "ps"), G(st1, "pv")
        xx, yy = z3.Consts("xx_p yy_p", REF); jj = z3.Int("jj_p")
        LP, LV = st1.F("ExecutionLog", "price"), st1.F("ExecutionLog", "volume")
        LB, LS = st1.F("ExecutionLog", "buy_order_id"), st1.F("ExecutionLog", "sell_order_id")
        LE = st1.elems(res.term, ("ref", "ExecutionLog")); n = st1.length(res.term)
        prn, pr = O(st0, "price", "none"), O(st0, "price"); oid = O(st0, "order_id")
        origB, origS = e0["origB"], e0["origS"]
        price = z3.Const("common_price", z3.RealSort()) if "price_term" not in st1.ghost else st1.ghost["price_term"]
        bbk, sbk = books(st1, m)
        qB1, qS1 = queue(st1, bbk).term, queue(st1, sbk).term
        tB = z3.Select(st1.elems(qB1, ("ref", "Order")), 0); tS = z3.Select(st1.elems(qS1, ("ref", "Order")), 0)
        prn1, pr1 = O(st1, "price", "none"), O(st1, "price")
        out = [("E1 every fill pairs a buy order of the entry buy book with a sell order of the entry sell book, with positive volume",
                z3.ForAll([jj], z3.Implies(z3.And(0 <= jj, jj < n), z3.And(origB[pb[jj]], origS[ps[jj]], LB[LE[jj]] == oid[pb[jj]], LS[LE[jj]] == oid[ps[jj]], LV[LE[jj]] == pv[jj], pv[jj] >= 1)))),
               ("E2 all fills of the round carry one common price", z3.ForAll([jj], z3.Implies(z3.And(0 <= jj, jj < n), LP[LE[jj]] == price))),
               ("E3 the price is no higher than the buyer's limit and no lower than the seller's limit (market orders impose no bound)",
                z3.ForAll([jj], z3.Implies(z3.And(0 <= jj, jj < n), z3.And(z3.Implies(z3.Not(prn[pb[jj]]), price <= pr[pb[jj]]), z3.Implies(z3.Not(prn[ps[jj]]), price >= pr[ps[jj]]))))),
               ("E4 the common price is the limit price of the earlier-accepted order of the last matched pair (the limit side's price against a market order)",
                z3.Implies(z3.And(n >= 1, z3.Not(z3.And(prn[pb[n - 1]], prn[ps[n - 1]]))), price == rule_price(e0, pb[n - 1], ps[n - 1]))),
               ("E5 accounting: final volume = entry volume - fills >= 0 (buys)", z3.ForAll([xx], z3.Implies(origB[xx], z3.And(volF[xx] == vol0[xx] - fb[xx], volF[xx] >= 0)))),
               ("E5 accounting: final volume = entry volume - fills >= 0 (sells)", z3.ForAll([xx], z3.Implies(origS[xx], z3.And(volF[xx] == vol0[xx] - fs[xx], volF[xx] >= 0)))),
               ("E6 price-time priority: a filled buy has every higher-priority buy fully filled", z3.ForAll([xx, yy], z3.Implies(z3.And(origB[xx], origB[yy], before(st0, yy, xx, True), fb[xx] > 0), volF[yy] == 0))),
               ("E6 price-time priority: a filled sell has every higher-priority sell fully filled", z3.ForAll([xx, yy], z3.Implies(z3.And(origS[xx], origS[yy], before(st0, yy, xx, False), fs[xx] > 0), volF[yy] == 0))),
               ("E7 the book is cleared: with both sides non-empty, both best orders are limit orders and best bid < best ask",
                z3.Implies(z3.And(st1.length(qB1) > 0, st1.length(qS1) > 0), z3.And(z3.Not(prn1[tB]), z3.Not(prn1[tS]), pr1[tB] < pr1[tS]))),
               ("the books hold exactly the entry orders with volume left", z3.And(z3.ForAll([xx], st1.mem(qB1, xx) == z3.And(origB[xx], volF[xx] > 0)), z3.ForAll([xx], st1.mem(qS1, xx) == z3.And(origS[xx], volF[xx] > 0))))]
        return out + M.market_inv(st1, m)
    return ex_post


def ex_trace(st0, st1, a, res):
    m = a["self"]
    lg = st0.read(m, "logger")
    return [("WriteEachFill", z3.And(z3.Not(lg.none), executable(st0, m)), (res.term, lg.term))]


def ex_modifies(st, a):
    m = a["self"]
    bb, sb = books(st, m)
    return [("f:OrderBook.priority_queue", [bb.term, sb.term]), "f:Order.volume", "len", "mem", "el:Ref", "heapok", "nodup", "el:Real", "el:Real?", "el:Int", "len:Tup"] + \
           [("f:ExecutionLog." + f, []) for f in M.XLOG_FIELDS]


HOLDER = {}
EXECUTION = FSpec(QUAL, axioms=lambda st, a: M.market_axioms(st, a["self"]), pre=ex_pre, post=ex_post_factory(HOLDER), modifies=ex_modifies, trace=ex_trace,
                  fresh_result=True, result=("list", ("ref", "ExecutionLog")), props=("C01", "C02", "C03", "C04", "C10"))
BULK_WRITE = emit("BulkWrite")


def ex_setup(ex, st, a):
    m = a["self"]
    B.setup_book(ex, st, a)
    e0 = dict(entry_ghost(st, m), st=st.copy())
    HOLDER["e0"] = e0
    for nm in ("fillB", "fillS"):
        st.set_gh(nm, z3.K(REF, z3.IntVal(0)))
    for nm in ("idxB", "idxS"):
        st.set_gh(nm, z3.K(REF, z3.IntVal(-1)))
    zero_row = z3.K(REF, z3.IntVal(0))
    st.set_gh("fhB", z3.Store(z3.Const("G_fhB0", A2), 0, zero_row)); st.set_gh("fhS", z3.Store(z3.Const("G_fhS0", A2), 0, zero_row))
    for nm in ("pv", "pb", "ps"):
        G(st, nm)
    execution_hooks(ex, e0)
    ex.specs[("idiom", "list-map", QUAL)] = make_map_spec(e0, m)

    def bind_sell_order(ex_, s1):
        s1.env["sell_order"] = fresh(("ref", "Order"), "sell_order_unbound")

    def remember_price(ex_, s1):
        pass
    ex.ghost_after = {"sell_order: Order": bind_sell_order}
    inv = walk_inv(e0)

    def on_exit(ex_, s1, ctx):
        if ctx.get("broke"):
            for nm, g in exit_facts(s1.peek(), e0):
                s1.oblige("cut:" + nm, g, "lemma")
                s1.assume(g)
            s1.ghost["price_term"] = s1.env["price"].term
    ex.loops_extra = {0: LoopSpec(inv, modifies=walk_modifies(e0), decreases=lambda s, c: s.length(e0["qB"]) + s.length(e0["qS"]), header="True", name="walk", on_exit=on_exit)}


@task(QUAL, props=["C01", "C02", "C03", "C04", "C10"], functions=[QUAL], replay="matching", heavy=True)
def t_execution():
    """the whole matching round: walk (invariant of App. A), rebuild, apply fills, final check, logging"""
    HOLDER.clear()
    specs = {("m", "Market", "remain_executable_orders"): REMAIN_EXECUTABLE.handler(), ("m", "Market", "_execute_orders"): M.EXECUTE_ORDERS.handler(),
             ("m", "Logger", "bulk_write"): BULK_WRITE, ("m", "Log", "read_and_write"): M.WRITE}
    loops = {}

    def setup(ex, st, a):
        ex_setup(ex, st, a)
        from pyvc.spec import attach_loops
        attach_loops(QUAL, EXECUTION.fn, ex.loops_extra, ex)
    obl, info = EXECUTION.verify(specs=specs, loops=loops, setup=setup)
    return {"obligations": obl, "info": [info]}
