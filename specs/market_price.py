"""C08: Market._update_market_price -- mid price from the two best quotes, market price = last trade, else mid, else previous."""
import z3

from pyvc.core import *   # noqa
from pyvc.spec import FSpec, task
from .vocab import *      # noqa


def best_price_view(st, book):
    """(non-empty, price V) of the top of a book, as get_best_price reads it"""
    q = queue(st, book)
    n = st.length(q.term)
    s = st.peek()
    top = s.list_get(V(("list", ("ref", "Order")), q.term), mkint(0))
    return n > 0, s.read(top, "price")


def ump_pre(st, a):
    m = a["self"]
    bb, sb = books(st, m)
    cs = series_wf(st, m, 0)
    cs += [("queue-len>=0/buy", st.length(queue(st, bb).term) >= 0), ("queue-len>=0/sell", st.length(queue(st, sb).term) >= 0)]
    return cs


def ump_modifies(st, a):
    m = a["self"]
    return [("el:Real", [series_ref(st, m, "_mid_prices"), series_ref(st, m, "_market_prices")]),
            ("el:Real?", [series_ref(st, m, "_mid_prices"), series_ref(st, m, "_market_prices")])]


def ump_post(st0, st1, a, res):
    m = a["self"]
    t = st0.read(m, "time").term
    bb, sb = books(st0, m)
    nb, pb = best_price_view(st0, bb)
    ns, ps = best_price_view(st0, sb)
    both = z3.And(nb, ns, z3.Not(pb.none), z3.Not(ps.none))
    mid1 = cell(st1, m, "_mid_prices", t); mp1 = cell(st1, m, "_market_prices", t); mp0 = cell(st0, m, "_market_prices", t)
    le = cell(st0, m, "_last_executed_prices", t)
    running = st0.read(m, "_is_running").term
    exp_none = z3.If(running, z3.If(z3.Not(le.none), False, z3.If(z3.Not(mid1.none), False, mp0.none)), mp0.none)
    exp_val = z3.If(running, z3.If(z3.Not(le.none), le.term, z3.If(z3.Not(mid1.none), mid1.term, mp0.term)), mp0.term)
    i = z3.Int("i_ump")
    out = [("mid = (best bid + best ask)/2 iff both best quotes are limit prices, else None",
            z3.If(both, z3.And(z3.Not(mid1.none), mid1.term == (ps.term + pb.term) / 2), mid1.none)),
           ("market price = last trade, else mid, else previous; unchanged when not running",
            z3.And(mp1.none == exp_none, z3.Implies(z3.Not(exp_none), mp1.term == exp_val)))]
    for name in ("_mid_prices", "_market_prices"):
        r = series_ref(st0, m, name)
        e0, e1 = st0.elems(r, ("opt", ("real",))), st1.elems(r, ("opt", ("real",)))
        n0, n1 = st0.elems(r, ("opt", ("real",)), "none"), st1.elems(r, ("opt", ("real",)), "none")
        out.append((f"only slot `time` of {name} is written",
                    z3.ForAll([i], z3.Implies(i != t, z3.And(z3.Select(e1, i) == z3.Select(e0, i), z3.Select(n1, i) == z3.Select(n0, i))))))
        out.append((f"series object {name} and its length unchanged", z3.And(series_ref(st1, m, name) == r, st1.length(r, ("real",)) == st0.length(r, ("real",)))))
    return out


UPDATE_MARKET_PRICE = FSpec("Market._update_market_price", pre=ump_pre, post=ump_post, modifies=ump_modifies, props=("C08",))


@task("Market._update_market_price", props=["C08", "C06"], functions=["Market._update_market_price", "Market.get_best_buy_price",
      "Market.get_best_sell_price", "OrderBook.get_best_price"], replay="market_price")
def t_update_market_price():
    """postcondition of the price refresh (mid, market price, frame on the two series)"""
    obl, info = UPDATE_MARKET_PRICE.verify()
    return {"obligations": obl, "info": [info]}
