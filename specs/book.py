"""OrderBook mutators under contract (C02, C04): BookInv preserved, membership/length/volume effects, expiry boundary."""
import z3

from pyvc.core import *   # noqa
from pyvc.spec import FSpec, LoopSpec, task
from .vocab import *      # noqa

EQ_ID = "Order.__eq__ is identity on accepted orders with distinct ids (lemma `eq-identity` of task Order.compare)"


def book_lists(st, book, keys):
    """refs of the queue and of the bucket lists under the given keys (collapsing to the queue when the bucket does not exist)"""
    q = queue(st, book).term
    return [q] + [z3.If(bucket_dom(st, book, k), bucket_list(st, book, k), q) for k in keys]


def setup_book(ex, st, a):
    ex.eq_identity.add("Order")
    ex.used_assumptions.add(EQ_ID)
    ex.specs[("lib", "heap-order")] = heap_order_hook


# ----------------------------------------------------------------------------- _remove
def remove_pre(st, a):
    b, o = a["self"], a["order"]
    return book_inv(st, b) + [("order rests in this book", st.mem(queue(st, b).term, o.term))]


def remove_modifies(st, a):
    b, o = a["self"], a["order"]
    ls = book_lists(st, b, [exp_key(st, o.term)])
    return [("len", ls), ("mem", ls), ("el:Ref", ls), ("heapok", ls), ("nodup", ls)]


def remove_post(st0, st1, a, res):
    b, o = a["self"], a["order"]
    q = queue(st0, b).term
    y = z3.Const("y_rm", REF)
    out = [("queue object unchanged", queue(st1, b).term == q),
           ("membership = old minus the order", z3.ForAll([y], st1.mem(q, y) == z3.And(st0.mem(q, y), y != o.term))),
           ("length - 1", st1.length(q) == st0.length(q) - 1)]
    return out + book_inv_step(st0, st1, b)


REMOVE = FSpec("OrderBook._remove", axioms=lambda st, a: book_axioms(st, a["self"]), pre=remove_pre, post=remove_post, modifies=remove_modifies, props=("C02", "C04"))


@task("OrderBook._remove", props=["C02", "C04"], functions=["OrderBook._remove"], replay="book")
def t_remove():
    obl, info = REMOVE.verify(setup=setup_book)
    return {"obligations": obl, "info": [info]}


def book_inv_except(st, book, o):
    """BookInv where the order `o` (about to be removed) may already have volume 0"""
    out = []
    x = z3.Const("x_bi", REF)
    q = queue(st, book).term
    for l, f in book_inv(st, book):
        if l.startswith("B1"):
            side = st.read(book, "is_buy").term; time = st.read(book, "time").term; ttln = O(st, "ttl", "none")
            structural = z3.And(z3.Not(O(st, "placed_at", "none")[x]), z3.Not(O(st, "order_id", "none")[x]), (O(st, "kind")[x] == 0) == O(st, "price", "none")[x],
                                z3.Or(O(st, "kind")[x] == 0, O(st, "kind")[x] == 1), O(st, "is_buy")[x] == side, O(st, "placed_at")[x] <= time,
                                z3.Implies(z3.Not(ttln[x]), O(st, "ttl")[x] >= 1), O(st, "volume")[x] >= 0)
            f = z3.ForAll([x], z3.Implies(st.mem(q, x), z3.And(structural, z3.Implies(x != o, z3.And(O(st, "volume")[x] >= 1, z3.Not(O(st, "is_canceled")[x]))))))
        out.append((l, f))
    return out


REMOVE.pre = lambda st, a: book_inv_except(st, a["self"], a["order"].term) + [("order rests in this book", st.mem(queue(st, a["self"]).term, a["order"].term))]


# ----------------------------------------------------------------------------- change_order_volume
def cov_pre(st, a):
    b, o = a["self"], a["order"]
    return book_inv(st, b) + [("order rests in this book", st.mem(queue(st, b).term, o.term)),
                              ("volume + delta >= 0", O(st, "volume")[o.term] + a["delta"].term >= 0)]


def cov_modifies(st, a):
    return [("f:Order.volume", [a["order"].term])] + remove_modifies(st, a)


def cov_post(st0, st1, a, res):
    b, o, dl = a["self"], a["order"], a["delta"]
    q = queue(st0, b).term; y = z3.Const("y_cov", REF)
    v1 = O(st1, "volume")[o.term]
    return [("volume' = volume + delta", v1 == O(st0, "volume")[o.term] + dl.term),
            ("queue object unchanged", queue(st1, b).term == q),
            ("resting iff volume' > 0; other members untouched", z3.ForAll([y], st1.mem(q, y) == z3.And(st0.mem(q, y), z3.Or(y != o.term, v1 > 0)))),
            ("length", st1.length(q) == st0.length(q) - z3.If(v1 == 0, 1, 0))] + book_inv_step(st0, st1, b)


CHANGE_VOLUME = FSpec("OrderBook.change_order_volume", axioms=lambda st, a: book_axioms(st, a["self"]), pre=cov_pre, post=cov_post, modifies=cov_modifies, props=("C04",))


@task("OrderBook.change_order_volume", props=["C04", "C01", "C02", "C03"], functions=["OrderBook.change_order_volume"], replay="book")
def t_change_volume():
    obl, info = CHANGE_VOLUME.verify(specs={("m", "OrderBook", "_remove"): REMOVE.handler()}, setup=setup_book)
    return {"obligations": obl, "info": [info]}


# ----------------------------------------------------------------------------- add
def add_pre(st, a):
    b, o = a["self"], a["order"]
    q = queue(st, b).term; y = z3.Const("y_add", REF); ot = o.term
    return book_inv(st, b) + [
        ("order not resting yet", z3.Not(st.mem(q, ot))),
        ("order acceptable: id assigned, volume >= 1, kind/price agree, not cancelled, ttl None or >= 1",
         z3.And(z3.Not(O(st, "order_id", "none")[ot]), O(st, "volume")[ot] >= 1, (O(st, "kind")[ot] == 0) == O(st, "price", "none")[ot],
                z3.Or(O(st, "kind")[ot] == 0, O(st, "kind")[ot] == 1), z3.Not(O(st, "is_canceled")[ot]),
                z3.Or(O(st, "ttl", "none")[ot], O(st, "ttl")[ot] >= 1))),
        ("order id differs from every resting order's id", z3.ForAll([y], z3.Implies(st.mem(q, y), O(st, "order_id")[y] != O(st, "order_id")[ot])))]


def add_key(st, a):
    return st.read(a["self"], "time").term + O(st, "ttl")[a["order"].term]


def add_modifies(st, a):
    b, o = a["self"], a["order"]
    ls = book_lists(st, b, [add_key(st, a)])
    e = etl(st, b).term
    return [("f:Order.placed_at", [o.term]), ("len", ls), ("mem", ls), ("el:Ref", ls), ("heapok", ls), ("nodup", ls), ("dd:Int_Ref", [e]), ("dv:Int_Ref", [e])]


def add_post(st0, st1, a, res):
    b, o = a["self"], a["order"]
    q = queue(st0, b).term; y = z3.Const("y_add", REF)
    return [("placed_at = book time", z3.And(z3.Not(O(st1, "placed_at", "none")[o.term]), O(st1, "placed_at")[o.term] == st0.read(b, "time").term)),
            ("queue object unchanged", queue(st1, b).term == q),
            ("expiry dict object unchanged", etl(st1, b).term == etl(st0, b).term),
            ("membership = old plus the order", z3.ForAll([y], st1.mem(q, y) == z3.Or(st0.mem(q, y), y == o.term))),
            ("length + 1", st1.length(q) == st0.length(q) + 1)] + book_inv_step(st0, st1, b)


ADD = FSpec("OrderBook.add", axioms=lambda st, a: book_axioms(st, a["self"]), pre=add_pre, post=add_post, modifies=add_modifies, props=("C02", "C04"),
            raises={"ValueError": lambda st, a: O(st, "is_buy")[a["order"].term] != st.read(a["self"], "is_buy").term})


@task("OrderBook.add", props=["C02", "C04"], functions=["OrderBook.add"], replay="book")
def t_add():
    obl, info = ADD.verify(setup=setup_book)
    return {"obligations": obl, "info": [info]}


# ----------------------------------------------------------------------------- cancel
def cancel_pre(st, a):
    b, c = a["self"], a["cancel"]
    o = st.read(c, "order").term
    q = queue(st, b).term; y = z3.Const("y_cn", REF)
    return book_inv(st, b) + [
        ("order is of this book's side (Market._cancel_order picks the book by side)", O(st, "is_buy")[o] == st.read(b, "is_buy").term),
        ("order was accepted: its id differs from every other resting order's id", z3.ForAll([y], z3.Implies(z3.And(st.mem(q, y), y != o), O(st, "order_id")[y] != O(st, "order_id")[o]))),
        ("same class", CLASS_OF(o) == CLASS_OF(o))]


def cancel_modifies(st, a):
    b, c = a["self"], a["cancel"]
    o = st.read(c, "order").term
    ls = book_lists(st, b, [exp_key(st, o)])
    return [("f:Order.is_canceled", [o]), ("f:Cancel.placed_at", [c.term]), ("len", ls), ("mem", ls), ("el:Ref", ls), ("heapok", ls), ("nodup", ls)]


def cancel_post(st0, st1, a, res):
    b, c = a["self"], a["cancel"]
    o = st0.read(c, "order").term
    q = queue(st0, b).term; y = z3.Const("y_cn", REF)
    cp = st1.read(c, "placed_at")
    return [("order marked cancelled", O(st1, "is_canceled")[o]),
            ("cancel.placed_at = book time", z3.And(z3.Not(cp.none), cp.term == st0.read(b, "time").term)),
            ("queue object unchanged", queue(st1, b).term == q),
            ("order no longer rests; others untouched", z3.ForAll([y], st1.mem(q, y) == z3.And(st0.mem(q, y), y != o))),
            ("length", st1.length(q) == st0.length(q) - z3.If(st0.mem(q, o), 1, 0))] + book_inv_step(st0, st1, b)


CANCEL = FSpec("OrderBook.cancel", axioms=lambda st, a: book_axioms(st, a["self"]), pre=cancel_pre, post=cancel_post, modifies=cancel_modifies, props=("C04",))


@task("OrderBook.cancel", props=["C04", "C02"], functions=["OrderBook.cancel"], replay="book")
def t_cancel():
    obl, info = CANCEL.verify(specs={("m", "OrderBook", "_remove"): REMOVE.handler()}, setup=setup_book)
    return {"obligations": obl, "info": [info]}


# ----------------------------------------------------------------------------- _check_expired_orders / _set_time
LOG_FIELDS = ["order_id", "market_id", "time", "order_time", "agent_id", "is_buy", "kind", "volume", "price", "ttl"]


def expired(st, book, x, time=None):
    t = st.read(book, "time").term if time is None else time
    return z3.And(st.mem(queue(st, book).term, x), z3.Not(O(st, "ttl", "none")[x]), exp_key(st, x) < t)


def book_inv_no_b5(st, book):
    return [(l, f) for l, f in book_inv(st, book) if not l.startswith("B5")]


def log_describes(st, lg, st_o, o, book_time):
    """ExpirationLog `lg` carries the fields of order `o` (read in state st_o) and the book time"""
    L = lambda f, part="val": st.F("ExpirationLog", f, part)
    Oo = lambda f, part="val": O(st_o, f, part)
    cs = [L("order_id")[lg] == Oo("order_id")[o], L("order_id", "none")[lg] == Oo("order_id", "none")[o],
          L("market_id")[lg] == Oo("market_id")[o], L("time")[lg] == book_time,
          L("order_time")[lg] == Oo("placed_at")[o], L("order_time", "none")[lg] == Oo("placed_at", "none")[o],
          L("agent_id")[lg] == Oo("agent_id")[o], L("is_buy")[lg] == Oo("is_buy")[o], L("kind")[lg] == Oo("kind")[o],
          L("volume")[lg] == Oo("volume")[o], L("price", "none")[lg] == Oo("price", "none")[o],
          z3.Implies(z3.Not(Oo("price", "none")[o]), L("price")[lg] == Oo("price")[o]),
          L("ttl", "none")[lg] == Oo("ttl", "none")[o], z3.Implies(z3.Not(Oo("ttl", "none")[o]), L("ttl")[lg] == Oo("ttl")[o])]
    return z3.And(*cs)


def ceo_pre(st, a):
    return book_inv_no_b5(st, a["self"])


def ceo_modifies(st, a):
    b = a["self"]
    q = queue(st, b).term; e = etl(st, b).term
    return [("len", [q]), ("mem", [q]), ("el:Ref", [q]), ("heapok", [q]), ("nodup", [q]), ("dd:Int_Ref", [e]), ("dv:Int_Ref", [e])] + \
           [("f:ExpirationLog." + f, []) for f in LOG_FIELDS]


def ceo_post(st0, st1, a, res):
    b = a["self"]
    q = queue(st0, b).term; y = z3.Const("y_ce", REF); j = z3.Int("j_ce")
    t = st0.read(b, "time").term
    n = st1.length(res.term)
    le = st1.elems(res.term, ("ref", "ExpirationLog"))
    src_of = st1.ghost["expired_at"] if "expired_at" in st1.ghost else z3.Function(fresh_name("expired_at"), z3.IntSort(), REF)        # j-th log describes this order
    pos_of = st1.ghost["expired_pos"] if "expired_pos" in st1.ghost else z3.Function(fresh_name("expired_pos"), REF, z3.IntSort())
    return [("queue object unchanged", queue(st1, b).term == q),
            ("removed exactly the overdue resting orders", z3.ForAll([y], st1.mem(q, y) == z3.And(st0.mem(q, y), z3.Not(expired(st0, b, y))))),
            ("one log per expired order: log j describes expired order src(j) with its remaining volume",
             z3.ForAll([j], z3.Implies(z3.And(0 <= j, j < n), z3.And(expired(st0, b, src_of(j)), pos_of(src_of(j)) == j, log_describes(st1, z3.Select(le, j), st0, src_of(j), t),
                                                                     z3.Not(st0.is_alloc(z3.Select(le, j))))))),
            ("every expired order has its log", z3.ForAll([y], z3.Implies(expired(st0, b, y), z3.And(0 <= pos_of(y), pos_of(y) < n, src_of(pos_of(y)) == y)))),
            ("len(result) >= 0, result is a new list", z3.And(n >= 0, z3.Not(st0.is_alloc(res.term))))] + book_inv_step(st0, st1, b)


CHECK_EXPIRED = FSpec("OrderBook._check_expired_orders", axioms=lambda st, a: book_axioms(st, a["self"]), pre=ceo_pre, post=ceo_post, modifies=ceo_modifies, props=("C04",), fresh_result=True,
                      result=("list", ("ref", "ExpirationLog")))


def ceo_loops():
    def inv1(st, ctx):
        e = ctx["entry"]; b = st.env["self"]; i = ctx["i"]
        q = queue(e, b).term; DO = st.env["delete_orders"]; logs = st.env["logs"]
        pos = e.ghost["DO_pos"]; y = z3.Const("y_l1", REF); j = z3.Int("j_l1")
        t = e.read(b, "time").term
        del_el = e.elems(DO.term, ("ref", "Order")); le = st.elems(logs.term, ("ref", "ExpirationLog"))
        return [("queue = entry queue minus the first i overdue orders", z3.ForAll([y], st.mem(q, y) == z3.And(e.mem(q, y), z3.Not(z3.And(e.mem(DO.term, y), pos(y) < i))))),
                ("queue length", st.length(q) == e.length(q) - i),
                ("queue duplicate-free", st.nodup(q)),
                ("len(logs) == i", st.length(logs.term) == i),
                ("logs[j] describes delete_orders[j]; logs are new objects", z3.ForAll([j], z3.Implies(z3.And(0 <= j, j < i),
                    z3.And(log_describes(st, z3.Select(le, j), e, z3.Select(del_el, j), t), z3.Not(ctx["fn_entry"].is_alloc(z3.Select(le, j))), st.is_alloc(z3.Select(le, j)))))),
                ("delete_orders untouched", z3.And(st.length(DO.term) == e.length(DO.term), st.elems(DO.term, ("ref", "Order")) == del_el, st.memset(DO.term) == e.memset(DO.term))),
                ("queue object and book fields unchanged", z3.And(queue(st, b).term == q, st.read(b, "time").term == t))]

    def mods1(st, ctx):
        b = st.env["self"]; q = queue(st, b).term; logs = st.env["logs"].term
        return [("len", [q, logs]), ("mem", [q, logs]), ("el:Ref", [q, logs]), ("heapok", [q, logs]), ("nodup", [q, logs])] + [("f:ExpirationLog." + f, []) for f in LOG_FIELDS]

    def inv2(st, ctx):
        e = ctx["entry"]; b = st.env["self"]; i = ctx["i"]; k = z3.Int("k_l2")
        DK = st.env["delete_keys"]; keyof, idxof, cond_k, kvar = DK.py[2], DK.py[3], DK.py[4], DK.py[5]
        dct0 = etl(e, b)
        dom0 = e.ghost["dom_at_entry"]; val0 = e.ghost["val_at_entry"]
        return [("keys popped so far are exactly the first i selected keys",
                 z3.ForAll([k], z3.Select(st.dict_dom(dct0), k) == z3.And(z3.Select(dom0, k), z3.Not(z3.And(z3.substitute(cond_k, (kvar, k)), idxof(k) < i))))),
                ("bucket lists untouched", st.dict_val(dct0) == val0),
                ("expiry dict object unchanged", etl(st, b).term == dct0.term)]

    def mods2(st, ctx):
        e = etl(st, st.env["self"]).term
        return [("dd:Int_Ref", [e]), ("dv:Int_Ref", [e])]
    return {0: LoopSpec(inv1, mods1, header="delete_orders", name="remove-overdue"), 1: LoopSpec(inv2, mods2, header="delete_keys", name="pop-keys")}


def ceo_setup(ex, st, a):
    setup_book(ex, st, a)
    fn_alloc0 = st.alloc_arr()
    orig_run_for = LoopSpec.run_for

    def ghost_after_do(ex_, s1):       # after `delete_orders = sum([...], [])`: position view + characterisation witness
        DO = s1.env["delete_orders"]
        pos, facts = s1.pos_view(DO.term)
        s1.assume(facts)
        s1.ghost["DO_pos"] = pos
        s1.ghost["expired_pos"] = pos
        src = z3.Function(fresh_name("DO_at"), z3.IntSort(), REF); jj = z3.Int("j_src")
        s1.assume(z3.ForAll([jj], src(jj) == z3.Select(s1.elems(DO.term, ("ref", "Order")), jj)))
        s1.ghost["expired_at"] = src
        b = s1.env["self"]
        s1.ghost["dom_at_entry"] = s1.dict_dom(etl(s1, b)); s1.ghost["val_at_entry"] = s1.dict_val(etl(s1, b))
        # ghost lemma (witness k := placed_at + ttl): delete_orders holds exactly the overdue resting orders
        y = z3.Const("y_char", REF)
        s1.oblige("lemma:delete_orders = the overdue resting orders", z3.ForAll([y], s1.mem(DO.term, y) == expired(s1, b, y)), "lemma")
        s1.assume(z3.ForAll([y], s1.mem(DO.term, y) == expired(s1, b, y)))
        s1.oblige("lemma:delete_orders is duplicate-free (buckets are disjoint)", s1.nodup(DO.term), "lemma")
    ex.ghost_after = {"assign:delete_orders": ghost_after_do}


@task("OrderBook._check_expired_orders", props=["C04", "C10"], functions=["OrderBook._check_expired_orders"], replay="book")
def t_check_expired():
    loops = ceo_loops()

    def extra(ex, st0, s1, a, res):
        pass
    obl, info = CHECK_EXPIRED.verify(loops=loops, setup=ceo_setup)
    return {"obligations": obl, "info": [info]}


# ----------------------------------------------------------------------------- _set_time
def st_pre(st, a):
    return book_inv(st, a["self"]) + [("clock does not go backwards", a["time"].term >= st.read(a["self"], "time").term)]


def st_post(st0, st1, a, res):
    b = a["self"]
    q = queue(st0, b).term; y = z3.Const("y_st", REF); j = z3.Int("j_st")
    t = a["time"].term
    n = st1.length(res.term); le = st1.elems(res.term, ("ref", "ExpirationLog"))
    src_of = st1.ghost["expired_at"] if "expired_at" in st1.ghost else z3.Function(fresh_name("expired_at"), z3.IntSort(), REF)
    pos_of = st1.ghost["expired_pos"] if "expired_pos" in st1.ghost else z3.Function(fresh_name("expired_pos"), REF, z3.IntSort())
    return [("book time = argument", st1.read(b, "time").term == t),
            ("queue object unchanged", queue(st1, b).term == q),
            ("an order leaves the book exactly when the clock passes placed_at + ttl", z3.ForAll([y], st1.mem(q, y) == z3.And(st0.mem(q, y), z3.Not(expired(st0, b, y, t))))),
            ("one expiration log per expired order, with its remaining volume",
             z3.ForAll([j], z3.Implies(z3.And(0 <= j, j < n), z3.And(expired(st0, b, src_of(j), t), pos_of(src_of(j)) == j, log_describes(st1, z3.Select(le, j), st0, src_of(j), t),
                                                                     z3.Not(st0.is_alloc(z3.Select(le, j))))))),
            ("every expired order has its log", z3.ForAll([y], z3.Implies(expired(st0, b, y, t), z3.And(0 <= pos_of(y), pos_of(y) < n, src_of(pos_of(y)) == y)))),
            ("len(result) >= 0, result is a new list", z3.And(n >= 0, z3.Not(st0.is_alloc(res.term))))] + book_inv_step(st0, st1, b)


def st_effect_ghost(st0, st1, a, res):
    pass


SET_TIME = FSpec("OrderBook._set_time", axioms=lambda st, a: book_axioms(st, a["self"]), pre=st_pre, post=st_post,
                 modifies=lambda st, a: [("f:OrderBook.time", [a["self"].term])] + ceo_modifies(st, a), props=("C04", "C06"), fresh_result=True,
                 result=("list", ("ref", "ExpirationLog")))


def _ceo_handler_with_ghost():
    base = CHECK_EXPIRED.handler()

    def h(ex, st, recv, pos, kw, node):
        outs = base(ex, st, recv, pos, kw, node)
        return outs
    return h


@task("OrderBook._set_time", props=["C04", "C06", "C10"], functions=["OrderBook._set_time"], replay="book")
def t_set_time():
    # the Skolem functions of the callee's postcondition become this function's witnesses
    src = z3.Function("expired_at_w", z3.IntSort(), REF); pos = z3.Function("expired_pos_w", REF, z3.IntSort())

    def ce_post(st0, st1, a, res):
        st1.ghost["expired_at"] = src; st1.ghost["expired_pos"] = pos
        return ceo_post(st0, st1, a, res)

    def ce_effect(st0, st1, a, res):
        st1.ghost["expired_at"] = src; st1.ghost["expired_pos"] = pos
    callee = FSpec("OrderBook._check_expired_orders", axioms=CHECK_EXPIRED.axioms, pre=ceo_pre, post=ce_post, modifies=ceo_modifies, fresh_result=True,
                   result=("list", ("ref", "ExpirationLog")), effect=ce_effect)
    obl, info = SET_TIME.verify(specs={("m", "OrderBook", "_check_expired_orders"): callee.handler()}, setup=setup_book)
    return {"obligations": obl, "info": [info]}
