"""OrderBook mutators under contract (C02, C04): BookInv preserved, membership/length/volume effects, expiry boundary."""
import z3

from pyvc.core import *   # noqa
from pyvc.spec import FSpec, LoopSpec, task
from .vocab import *      # noqa

EQ_ID = "Order.__eq__ is identity on accepted orders with distinct ids (lemma `eq-identity` of task Order.compare)"


def book_lists(st, book, keys):
    """refs of the queue and of the bucket lists under the given keys (collapsing to the queue when the bucket does not exist)"""
    q = queue(st, book).term
    return [q] + [z3.If(bucket_dom(st, book, k), bucket_list(st, book, k), q) for k in keys]


def setup_book(ex, st, a):
    ex.eq_identity.add("Order")
    ex.used_assumptions.add(EQ_ID)
    ex.specs[("lib", "heap-order")] = heap_order_hook


# ----------------------------------------------------------------------------- _remove
def remove_pre(st, a):
    b, o = a["self"], a["order"]
    return book_inv(st, b) + [("order rests in this book", st.mem(queue(st, b).term, o.term))]


def remove_modifies(st, a):
    b, o = a["self"], a["order"]
    ls = book_lists(st, b, [exp_key(st, o.term)])
    return [("len", ls), ("mem", ls), ("el:Int", ls), ("heapok", ls), ("nodup", ls)]


def remove_post(st0, st1, a, res):
    b, o = a["self"], a["order"]
    q = queue(st0, b).term
    y = z3.Const("y_rm", REF)
    out = [("queue object unchanged", queue(st1, b).term == q),
           ("membership = old minus the order", z3.ForAll([y], st1.mem(q, y) == z3.And(st0.mem(q, y), y != o.term))),
           ("length - 1", st1.length(q) == st0.length(q) - 1)]
    return out + book_inv(st1, b, "BookInv' ")


REMOVE = FSpec("OrderBook._remove", pre=remove_pre, post=remove_post, modifies=remove_modifies, props=("C02", "C04"))


@task("OrderBook._remove", props=["C02", "C04"], functions=["OrderBook._remove"], replay="book")
def t_remove():
    obl, info = REMOVE.verify(setup=setup_book)
    return {"obligations": obl, "info": [info]}


def book_inv_except(st, book, o):
    """BookInv where the order `o` (about to be removed) may already have volume 0"""
    out = []
    x = z3.Const("x_bi", REF)
    q = queue(st, book).term
    for l, f in book_inv(st, book):
        if l.startswith("B1"):
            side = st.read(book, "is_buy").term; time = st.read(book, "time").term; ttln = O(st, "ttl", "none")
            structural = z3.And(z3.Not(O(st, "placed_at", "none")[x]), z3.Not(O(st, "order_id", "none")[x]), (O(st, "kind")[x] == 0) == O(st, "price", "none")[x],
                                z3.Or(O(st, "kind")[x] == 0, O(st, "kind")[x] == 1), O(st, "is_buy")[x] == side, O(st, "placed_at")[x] <= time,
                                z3.Implies(z3.Not(ttln[x]), O(st, "ttl")[x] >= 1), O(st, "volume")[x] >= 0)
            f = z3.ForAll([x], z3.Implies(st.mem(q, x), z3.And(structural, z3.Implies(x != o, z3.And(O(st, "volume")[x] >= 1, z3.Not(O(st, "is_canceled")[x]))))))
        out.append((l, f))
    return out


REMOVE.pre = lambda st, a: book_inv_except(st, a["self"], a["order"].term) + [("order rests in this book", st.mem(queue(st, a["self"]).term, a["order"].term))]


# ----------------------------------------------------------------------------- change_order_volume
def cov_pre(st, a):
    b, o = a["self"], a["order"]
    return book_inv(st, b) + [("order rests in this book", st.mem(queue(st, b).term, o.term)),
                              ("volume + delta >= 0", O(st, "volume")[o.term] + a["delta"].term >= 0)]


def cov_modifies(st, a):
    return [("f:Order.volume", [a["order"].term])] + remove_modifies(st, a)


def cov_post(st0, st1, a, res):
    b, o, dl = a["self"], a["order"], a["delta"]
    q = queue(st0, b).term; y = z3.Const("y_cov", REF)
    v1 = O(st1, "volume")[o.term]
    return [("volume' = volume + delta", v1 == O(st0, "volume")[o.term] + dl.term),
            ("queue object unchanged", queue(st1, b).term == q),
            ("resting iff volume' > 0; other members untouched", z3.ForAll([y], st1.mem(q, y) == z3.And(st0.mem(q, y), z3.Or(y != o.term, v1 > 0)))),
            ("length", st1.length(q) == st0.length(q) - z3.If(v1 == 0, 1, 0))] + book_inv(st1, b, "BookInv' ")


CHANGE_VOLUME = FSpec("OrderBook.change_order_volume", pre=cov_pre, post=cov_post, modifies=cov_modifies, props=("C04",))


@task("OrderBook.change_order_volume", props=["C04", "C01", "C02", "C03"], functions=["OrderBook.change_order_volume"], replay="book")
def t_change_volume():
    obl, info = CHANGE_VOLUME.verify(specs={("m", "OrderBook", "_remove"): REMOVE.handler()}, setup=setup_book)
    return {"obligations": obl, "info": [info]}


# ----------------------------------------------------------------------------- add
def add_pre(st, a):
    b, o = a["self"], a["order"]
    q = queue(st, b).term; y = z3.Const("y_add", REF); ot = o.term
    return book_inv(st, b) + [
        ("order not resting yet", z3.Not(st.mem(q, ot))),
        ("order acceptable: id assigned, volume >= 1, kind/price agree, not cancelled, ttl None or >= 1",
         z3.And(z3.Not(O(st, "order_id", "none")[ot]), O(st, "volume")[ot] >= 1, (O(st, "kind")[ot] == 0) == O(st, "price", "none")[ot],
                z3.Or(O(st, "kind")[ot] == 0, O(st, "kind")[ot] == 1), z3.Not(O(st, "is_canceled")[ot]),
                z3.Or(O(st, "ttl", "none")[ot], O(st, "ttl")[ot] >= 1))),
        ("order id differs from every resting order's id", z3.ForAll([y], z3.Implies(st.mem(q, y), O(st, "order_id")[y] != O(st, "order_id")[ot])))]


def add_key(st, a):
    return st.read(a["self"], "time").term + O(st, "ttl")[a["order"].term]


def add_modifies(st, a):
    b, o = a["self"], a["order"]
    ls = book_lists(st, b, [add_key(st, a)])
    e = etl(st, b).term
    return [("f:Order.placed_at", [o.term]), ("len", ls), ("mem", ls), ("el:Int", ls), ("heapok", ls), ("nodup", ls), ("dd:Int_Int", [e]), ("dv:Int_Int", [e])]


def add_post(st0, st1, a, res):
    b, o = a["self"], a["order"]
    q = queue(st0, b).term; y = z3.Const("y_add", REF)
    return [("placed_at = book time", z3.And(z3.Not(O(st1, "placed_at", "none")[o.term]), O(st1, "placed_at")[o.term] == st0.read(b, "time").term)),
            ("queue object unchanged", queue(st1, b).term == q),
            ("expiry dict object unchanged", etl(st1, b).term == etl(st0, b).term),
            ("membership = old plus the order", z3.ForAll([y], st1.mem(q, y) == z3.Or(st0.mem(q, y), y == o.term))),
            ("length + 1", st1.length(q) == st0.length(q) + 1)] + book_inv(st1, b, "BookInv' ")


ADD = FSpec("OrderBook.add", pre=add_pre, post=add_post, modifies=add_modifies, props=("C02", "C04"),
            raises={"ValueError": lambda st, a: O(st, "is_buy")[a["order"].term] != st.read(a["self"], "is_buy").term})


@task("OrderBook.add", props=["C02", "C04"], functions=["OrderBook.add"], replay="book")
def t_add():
    obl, info = ADD.verify(setup=setup_book)
    return {"obligations": obl, "info": [info]}


# ----------------------------------------------------------------------------- cancel
def cancel_pre(st, a):
    b, c = a["self"], a["cancel"]
    o = st.read(c, "order").term
    q = queue(st, b).term; y = z3.Const("y_cn", REF)
    return book_inv(st, b) + [
        ("order is of this book's side (Market._cancel_order picks the book by side)", O(st, "is_buy")[o] == st.read(b, "is_buy").term),
        ("order was accepted: its id differs from every other resting order's id", z3.ForAll([y], z3.Implies(z3.And(st.mem(q, y), y != o), O(st, "order_id")[y] != O(st, "order_id")[o]))),
        ("same class", CLASS_OF(o) == CLASS_OF(o))]


def cancel_modifies(st, a):
    b, c = a["self"], a["cancel"]
    o = st.read(c, "order").term
    ls = book_lists(st, b, [exp_key(st, o)])
    return [("f:Order.is_canceled", [o]), ("f:Cancel.placed_at", [c.term]), ("len", ls), ("mem", ls), ("el:Int", ls), ("heapok", ls), ("nodup", ls)]


def cancel_post(st0, st1, a, res):
    b, c = a["self"], a["cancel"]
    o = st0.read(c, "order").term
    q = queue(st0, b).term; y = z3.Const("y_cn", REF)
    cp = st1.read(c, "placed_at")
    return [("order marked cancelled", O(st1, "is_canceled")[o]),
            ("cancel.placed_at = book time", z3.And(z3.Not(cp.none), cp.term == st0.read(b, "time").term)),
            ("queue object unchanged", queue(st1, b).term == q),
            ("order no longer rests; others untouched", z3.ForAll([y], st1.mem(q, y) == z3.And(st0.mem(q, y), y != o))),
            ("length", st1.length(q) == st0.length(q) - z3.If(st0.mem(q, o), 1, 0))] + book_inv(st1, b, "BookInv' ")


CANCEL = FSpec("OrderBook.cancel", pre=cancel_pre, post=cancel_post, modifies=cancel_modifies, props=("C04",))


@task("OrderBook.cancel", props=["C04", "C02"], functions=["OrderBook.cancel"], replay="book")
def t_cancel():
    obl, info = CANCEL.verify(specs={("m", "OrderBook", "_remove"): REMOVE.handler()}, setup=setup_book)
    return {"obligations": obl, "info": [info]}
