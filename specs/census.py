"""Writers census (DESIGN 3.6): class invariants hold in every reachable state because (i) the constructor/setup establishes them, (ii) every writer of the fields they mention
preserves them, and (iii) there are no other writers. This task discharges (iii): an AST scan of all of pams lists every store to those fields; each writing function must be
one of the functions under contract (or a documented public setter / constructor). A new writer anywhere in pams fails the obligation for that field."""
import ast
import z3

from pyvc.core import *   # noqa
from pyvc.spec import task
from pyvc.src import get_src

# field -> functions allowed to write it (all of them are under contract in specs/*, or constructors / documented public API marked as such)
WRITERS = {
    "priority_queue": {"OrderBook.__init__", "OrderBook.add", "OrderBook._remove", "OrderBook._check_expired_orders", "Market._execution"},
    "expire_time_list": {"OrderBook.__init__", "OrderBook.add", "OrderBook._remove", "OrderBook._check_expired_orders"},
    "volume": {"Order.__init__", "OrderBook.change_order_volume", "OrderMistakeShock.hooked_before_order", "OrderLog.__init__", "CancelLog.__init__", "ExpirationLog.__init__", "ExecutionLog.__init__"},
    "placed_at": {"Order.__init__", "Cancel.__init__", "OrderBook.add", "OrderBook.cancel"},
    "order_id": {"Order.__init__", "Market._add_order", "OrderLog.__init__", "CancelLog.__init__", "ExpirationLog.__init__"},
    "is_canceled": {"Order.__init__", "OrderBook.cancel"},
    "price": {"Order.__init__", "Market._add_order", "PriceLimitRule.hooked_before_order", "OrderMistakeShock.hooked_before_order", "OrderLog.__init__", "CancelLog.__init__", "ExpirationLog.__init__", "ExecutionLog.__init__"},
    "ttl": {"Order.__init__", "OrderMistakeShock.hooked_before_order", "OrderLog.__init__", "CancelLog.__init__", "ExpirationLog.__init__"},
    "is_buy": {"Order.__init__", "OrderBook.__init__", "OrderMistakeShock.hooked_before_order", "OrderLog.__init__", "CancelLog.__init__", "ExpirationLog.__init__"},
    "kind": {"Order.__init__", "OrderMistakeShock.hooked_before_order", "OrderLog.__init__", "CancelLog.__init__", "ExpirationLog.__init__"},
    "_market_prices": {"Market.__init__", "Market.setup", "Market._fill_until", "Market._set_time", "Market._update_time", "Market._update_market_price"},
    "_mid_prices": {"Market.__init__", "Market._fill_until", "Market._set_time", "Market._update_time", "Market._update_market_price"},
    "_last_executed_prices": {"Market.__init__", "Market._fill_until", "Market._set_time", "Market._update_time", "Market._execute_orders"},
    "_fundamental_prices": {"Market.__init__", "Market._fill_until", "Market._set_time", "Market._update_time", "Market.change_fundamental_price"},
    "_executed_volumes": {"Market.__init__", "Market._fill_until", "Market._execute_orders"},
    "_executed_total_prices": {"Market.__init__", "Market._fill_until", "Market._execute_orders"},
    "_n_buy_orders": {"Market.__init__", "Market._fill_until", "Market._add_order"},
    "_n_sell_orders": {"Market.__init__", "Market._fill_until", "Market._add_order"},
    "time": {"Market.__init__", "Market._set_time", "Market._update_time", "OrderBook.__init__", "OrderBook._set_time", "OrderBook._update_time", "EventHook.__init__",
             "OrderLog.__init__", "ExpirationLog.__init__", "ExecutionLog.__init__"},
    "_is_running": {"Market.__init__", "SequentialRunner._iterate_market_updates", "TradingHaltRule.hooked_after_execution", "TradingHaltRule.hooked_before_step_for_market"},
    "_next_order_id": {"Market.__init__", "Market._add_order"},
    "cash_amount": {"Agent.__init__", "Agent.setup", "Agent.set_cash_amount", "Agent.update_cash_amount", "Simulator._update_agents_for_execution"},
    "asset_volumes": {"Agent.__init__", "Agent.set_asset_volume", "Agent.set_market_accessible", "Agent.update_asset_volume", "Simulator._update_agents_for_execution"},
    "events_dict": {"Simulator.__init__", "Simulator._add_event"},
    "event_hooks": {"Simulator.__init__", "Simulator._add_event"},
    "with_order_execution": {"Session.__init__", "Session.setup", "TradingHaltRule.hooked_after_execution", "TradingHaltRule.hooked_before_step_for_market"},
    "with_order_placement": {"Session.__init__", "Session.setup"},
    "prices": {"Fundamentals.__init__", "Fundamentals.add_market", "Fundamentals.remove_market", "Fundamentals._generate_next", "Market.change_fundamental_price"},
    "_generated_until": {"Fundamentals.__init__", "Fundamentals.add_market", "Fundamentals.change_volatility", "Fundamentals.change_drift", "Fundamentals.set_correlation",
                         "Fundamentals.remove_correlation", "Fundamentals._generate_next", "Market.change_fundamental_price"},
    "session_start_time": {"Session.__init__"},
    "iteration_steps": {"Session.__init__", "Session.setup"},
    "current_session": {"Simulator.__init__", "SequentialRunner._run"},
    "_components": {"IndexMarket.__init__", "IndexMarket._add_market"},
    "triggerd": {"OrderMistakeShock.__init__", "OrderMistakeShock.hooked_before_order"},
    "halted_session": {"TradingHaltRule.__init__", "TradingHaltRule.hooked_after_execution"},
}
MUTATORS = {"append", "extend", "remove", "pop", "insert", "clear", "sort", "update", "setdefault", "popitem", "reverse"}
HEAPQ = {"heappush", "heappop", "heapify", "heapreplace", "heappushpop"}


def attr_chain_field(node):
    """the attribute name written through `x.<field>`, `x.<field>[...]`, for a store target"""
    while isinstance(node, ast.Subscript):
        node = node.value
    if isinstance(node, ast.Attribute):
        return node.attr
    return None


def writers_of(src):
    found = {}          # field -> {function: [line texts]}
    for qual, (fn, mod, f) in src.funcs.items():
        for n in ast.walk(fn):
            targets = []
            if isinstance(n, ast.Assign):
                targets = n.targets
            elif isinstance(n, (ast.AugAssign, ast.AnnAssign)):
                targets = [n.target] if not (isinstance(n, ast.AnnAssign) and n.value is None) else []
            elif isinstance(n, ast.Delete):
                targets = n.targets
            for t in targets:
                for tt in (t.elts if isinstance(t, ast.Tuple) else [t]):
                    fld = attr_chain_field(tt)
                    if fld in WRITERS:
                        found.setdefault(fld, {}).setdefault(qual, []).append(ast.unparse(n)[:70])
            if isinstance(n, ast.Call) and isinstance(n.func, ast.Attribute):
                if n.func.attr in MUTATORS:
                    fld = attr_chain_field(n.func.value)
                    if fld in WRITERS:
                        found.setdefault(fld, {}).setdefault(qual, []).append(ast.unparse(n)[:70])
                if isinstance(n.func.value, ast.Name) and n.func.value.id == "heapq" and n.func.attr in HEAPQ and n.args:
                    fld = attr_chain_field(n.args[0])
                    if fld in WRITERS:
                        found.setdefault(fld, {}).setdefault(qual, []).append(ast.unparse(n)[:70])
    return found


def call_sites(src):
    """method / function name -> set of functions (quals) containing a call `x.<name>(...)` or `<name>(...)`"""
    sites = {}
    for qual, (fn, mod, f) in src.funcs.items():
        for n in ast.walk(fn):
            if isinstance(n, ast.Call):
                nm = n.func.attr if isinstance(n.func, ast.Attribute) else (n.func.id if isinstance(n.func, ast.Name) else None)
                if nm:
                    sites.setdefault(nm, set()).add(qual)
    return sites


def private_helpers_of(allowed, candidates, sites):
    """writers that are private helpers of allowed writers: the name starts with `_`, there is at least one call site, and every call site
    (matched by bare name anywhere in pams: conservative) lies inside an allowed writer or inside another accepted helper. Such a helper has no
    contract of its own, so each allowed writer is verified with the helper's body inlined (or the engine gives up: exit 3), i.e. its writes are
    covered by the caller's contract."""
    ok = set()
    changed = True
    while changed:
        changed = False
        for q in candidates:
            if q in ok:
                continue
            name = q.rsplit(".", 1)[-1]
            callers = sites.get(name, set())
            if name.startswith("_") and not name.startswith("__") and callers and all(c in allowed or c in ok for c in callers):
                ok.add(q); changed = True
    return ok


@task("census:writers", props=["C01", "C02", "C03", "C04", "C05", "C06", "C08", "C09", "C13", "C16"], functions=[], replay="market_ops")
def t_census():
    src = get_src()
    found = writers_of(src)
    obl = []
    sites = call_sites(src)
    for fld in sorted(WRITERS):
        extra = set(found.get(fld, {})) - WRITERS[fld]
        extra = sorted(extra - private_helpers_of(WRITERS[fld], extra, sites))
        detail = "; ".join(f"{q}: {found[fld][q][0]}" for q in extra[:3])
        obl.append({"name": f"census:writers/field `{fld}` is written only by the functions under contract" + ("" if not extra else f" -- also written by {detail}"),
                    "pc": [], "goal": z3.BoolVal(not extra), "kind": "census", "hints": {"field": fld, "unexpected_writers": extra}})
    obl.append({"name": "census:writers/cover:fields with at least one writer found", "pc": [], "goal": z3.BoolVal(len(found) >= 25), "kind": "cover"})
    info = [{"function": "all of pams (stores, mutating method calls and heapq calls on the invariant fields)", "source_sha": None, "where": "pams/**", "paths": None,
             "assumptions": ["writes through setattr / __dict__ / aliases of the containers are not detected by the census (none occur in pams; user code is bound by DESIGN 3.5)"]}]
    return {"obligations": obl, "info": info}


# ----------------------------------------------------------------------------- call-site census: the protocol functions are called only from the call sites the block proofs cover
# The contracts of the runner are proved per call site (what happens before / after each call of a protocol function: hooks, logging, booking of fills, callbacks).
# They carry a property to "every history" only if there is no other call site.  Call sites are matched by bare name anywhere in pams (conservative).
CALLERS = {
    "matching": (["C01", "C03", "C04", "C05", "C10", "C11", "C13"], "whole_run", {
        "_execution": {"SequentialRunner._handle_orders"}, "_update_agents_for_execution": {"SequentialRunner._handle_orders"},
        "_add_order": {"SequentialRunner._handle_orders"}, "_cancel_order": {"SequentialRunner._handle_orders"}, "_execute_orders": {"Market._execution"},
        "submitted_order": {"SequentialRunner._handle_orders"}, "executed_order": {"SequentialRunner._handle_orders"}, "canceled_order": {"SequentialRunner._handle_orders"},
        "change_order_volume": {"Market._execute_orders"}, "_update_market_price": {"Market._add_order", "Market._cancel_order", "Market._execute_orders"},
        "_trigger_event_before_order": {"SequentialRunner._handle_orders"}, "_trigger_event_after_order": {"SequentialRunner._handle_orders"},
        "_trigger_event_before_cancel": {"SequentialRunner._handle_orders"}, "_trigger_event_after_cancel": {"SequentialRunner._handle_orders"},
        "_trigger_event_after_execution": {"SequentialRunner._handle_orders"}}),
    "clock": (["C06", "C17", "C13"], "index", {
        "_update_time": {"Simulator._update_time_on_market"}, "_update_time_on_market": {"Simulator._update_times_on_markets"},
        "_update_times_on_markets": {"SequentialRunner._iterate_market_updates", "SequentialRunner._run"},
        "_set_time": {"Market._set_time", "Market._update_time"}, "_fill_until": {"Market._set_time", "Market._update_time"},
        "_check_expired_orders": {"OrderBook._set_time", "OrderBook._update_time"},
        "_trigger_event_before_step_for_market": {"SequentialRunner._iterate_market_updates"}, "_trigger_event_after_step_for_market": {"SequentialRunner._iterate_market_updates"},
        "_trigger_event_before_session": {"SequentialRunner._run"}, "_trigger_event_after_session": {"SequentialRunner._run"}}),
    "session-flow": (["C09", "C11"], "whole_run", {
        "_collect_orders_from_normal_agents": {"SequentialRunner._update_markets"}, "_handle_orders": {"SequentialRunner._update_markets"},
        "_update_markets": {"SequentialRunner._iterate_market_updates"}, "_iterate_market_updates": {"SequentialRunner._run"}}),
    "fundamentals": (["C12"], "fundamentals", {
        "_generate_next": {"Fundamentals.get_fundamental_price", "Fundamentals.get_fundamental_prices"}, "_generate_log_return": {"Fundamentals._generate_next"}}),
}


def _callers_task(group, props, replay, table):
    @task(f"census:callers[{group}]", props=props, functions=[], replay=replay)
    def t():
        src = get_src()
        sites = call_sites(src)
        obl = []
        for name in sorted(table):
            allowed = table[name]
            extra = set(sites.get(name, set())) - allowed
            extra = sorted(extra - private_helpers_of(allowed, extra, sites))
            obl.append({"name": f"census:callers/`{name}` is called only from {sorted(allowed)}" + ("" if not extra else f" -- also called from {extra[:3]}"),
                        "pc": [], "goal": z3.BoolVal(not extra), "kind": "census", "hints": {"callee": name, "unexpected_callers": extra}})
        obl.append({"name": "census:callers/cover:every listed function has a call site", "pc": [], "goal": z3.BoolVal(all(sites.get(n) for n in table)), "kind": "cover"})
        info = [{"function": f"all of pams (call sites of the {group} protocol functions, matched by bare name)", "source_sha": None, "where": "pams/**", "paths": None,
                 "assumptions": ["calls through getattr / bound-method aliases are not detected by the census (none occur in pams; user code is bound by DESIGN 3.5)"]}]
        return {"obligations": obl, "info": info}
    return t


for _g, (_p, _r, _t) in CALLERS.items():
    _callers_task(_g, _p, _r, _t)


# ----------------------------------------------------------------------------- call sites of json_extends: only the count / range / naming keys are ever excluded from inheritance (C18)
NON_INHERITABLE = {"numMarkets", "numAgents", "from", "to", "prefix"}


@task("census:json_extends-call-sites", props=["C18"], functions=[], replay="config")
def t_json_extends_sites():
    """every call of json_extends in pams expands an entry of the runner's own settings (`whole_json=self.settings`) and excludes from inheritance only keys that say HOW MANY
    entities a group creates and how they are named - never a parameter of the entity itself (the contract of json_extends is proved for an arbitrary exclusion list)"""
    src = get_src()
    obl = []; n = 0
    for qual, (fn, mod, f) in src.funcs.items():
        for node in ast.walk(fn):
            if not (isinstance(node, ast.Call) and isinstance(node.func, ast.Name) and node.func.id == "json_extends"):
                continue
            n += 1
            kw = {k.arg: k.value for k in node.keywords}
            ex = kw.get("excludes_fields")
            if ex is None:
                keys = []; literal = True
            else:
                literal = isinstance(ex, (ast.List, ast.Tuple)) and all(isinstance(e, ast.Constant) and isinstance(e.value, str) for e in ex.elts)
                keys = [e.value for e in ex.elts] if literal else []
            bad = sorted(set(keys) - NON_INHERITABLE)
            ok = literal and not bad and not node.args and isinstance(kw.get("whole_json"), ast.Attribute) and ast.unparse(kw["whole_json"]) == "self.settings"
            obl.append({"name": f"census:json_extends-call-sites/{qual} line {node.lineno}: settings of the runner, exclusion list a literal within {sorted(NON_INHERITABLE)}"
                                + ("" if ok else f" -- excludes {ast.unparse(ex) if ex is not None else None}, whole_json={ast.unparse(kw['whole_json']) if 'whole_json' in kw else None}"),
                        "pc": [], "goal": z3.BoolVal(bool(ok)), "kind": "census", "hints": {"function": qual, "excluded": keys}})
    obl.append({"name": "census:json_extends-call-sites/cover:call sites found", "pc": [], "goal": z3.BoolVal(n >= 3), "kind": "cover"})
    info = [{"function": "all of pams (calls of json_extends)", "source_sha": None, "where": "pams/**", "paths": None, "assumptions": []}]
    return {"obligations": obl, "info": info}


# ----------------------------------------------------------------------------- overrides census: a proof about Market.f speaks about IndexMarket objects too only if IndexMarket does not replace what f calls
# Calls `self.g(...)` are resolved statically when a function is executed symbolically.  The classes of pams that the contracts speak about (Market, OrderBook, Agent, Simulator,
# Fundamentals, Logger, Session, Order) have subclasses inside pams; an override there of a method the proofs execute would make the proved text differ from the code that runs.
# The overrides that exist are the designed extension points (constructors, `setup`, `submit_orders`, the hook methods of events, logger callbacks): each is under a contract of its own
# or abstract in the base class.  Any OTHER override inside pams is an obligation that fails.
KNOWN_OVERRIDES = {
    ("IndexMarket", "Market"): {"__init__", "setup"},
    ("FCNAgent", "Agent"): {"__init__", "__repr__", "setup", "submit_orders"}, ("ArbitrageAgent", "Agent"): {"__init__", "__repr__", "setup", "submit_orders"},
    ("MarketMakerAgent", "Agent"): {"setup", "submit_orders"}, ("MarketShareFCNAgent", "Agent"): {"submit_orders"}, ("MarketShareFCNAgent", "FCNAgent"): {"submit_orders"},
    ("TestAgent", "Agent"): {"submit_orders"}, ("HighFrequencyAgent", "Agent"): set(),
    ("MarketStepPrintLogger", "Logger"): {"process_market_step_end_log"}, ("MarketStepSaver", "Logger"): {"__init__", "process_market_step_end_log"},
    ("SequentialRunner", "Runner"): {"__init__", "_run", "_setup"},
}
EVENT_EXTENSION_POINTS = {"__init__", "setup", "hook_registration", "hooked_before_order", "hooked_after_order", "hooked_before_cancel", "hooked_after_cancel", "hooked_after_execution",
                          "hooked_before_session", "hooked_after_session", "hooked_before_step_for_market", "hooked_after_step_for_market"}


@task("census:overrides", props=["C01", "C04", "C06", "C08", "C17", "C19", "C20"], functions=[], replay="market_ops")
def t_overrides():
    src = get_src()
    methods = {}
    for qual in src.funcs:
        if "." in qual:
            c, m = qual.split(".", 1)
            methods.setdefault(c, set()).add(m)
    obl = []; n = 0
    for c in sorted(methods):
        for b in src.mro(c)[1:]:
            if b not in methods:
                continue
            over = methods[c] & methods[b]
            allowed = EVENT_EXTENSION_POINTS if b == "EventABC" else KNOWN_OVERRIDES.get((c, b), set())
            extra = sorted(over - allowed)
            n += 1
            obl.append({"name": f"census:overrides/{c} overrides of {b} only the designed extension points {sorted(allowed)}" + ("" if not extra else f" -- also overrides {extra}"),
                        "pc": [], "goal": z3.BoolVal(not extra), "kind": "census", "hints": {"class": c, "base": b, "unexpected": extra}})
    obl.append({"name": "census:overrides/cover:subclass relations found", "pc": [], "goal": z3.BoolVal(n >= 10), "kind": "cover"})
    info = [{"function": "all of pams (methods redefined in subclasses)", "source_sha": None, "where": "pams/**", "paths": None,
             "assumptions": ["user subclasses are bound by DESIGN 3.5 (they may override the extension points only)"]}]
    return {"obligations": obl, "info": info}
