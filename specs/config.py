"""Configuration expansion under contract (C18): count / inclusive id range / names in _generate_markets and _generate_agents, registries, JsonRandom supports."""
import ast
import z3

from pyvc.core import *   # noqa
from pyvc.spec import FSpec, LoopSpec, task, run_block, find_loops, emit
from pyvc.src import get_src
from .session import S, has, get, num


def expansion_task(qual, count_key, nvar, settings_var):
    fn = get_src().funcs[qual][0]
    outer = find_loops(fn, target_name="name", kind=ast.For)
    if len(outer) != 1:
        raise Unsupported(f"anchor-lost: `for name in ...` of {qual}")
    body = outer[0].body

    def assigns(s_, var):
        return isinstance(s_, ast.Assign) and isinstance(s_.targets[0], ast.Name) and s_.targets[0].id == var
    start = [i for i, s_ in enumerate(body) if assigns(s_, nvar)]
    end = [i for i, s_ in enumerate(body) if isinstance(s_, ast.If) and ast.unparse(s_.test) == f"'prefix' in {settings_var}"]
    if not start or not end:
        raise Unsupported(f"anchor-lost: count/range block of {qual}")
    stmts = body[start[0]:end[0] + 1]
    create = [n for n in find_loops(fn, target_name="i", kind=ast.For)]
    if len(create) != 1 or ast.unparse(create[0].iter) != "range(id_from, id_to + 1)":
        raise Unsupported(f"anchor-lost: creation loop `for i in range(id_from, id_to + 1)` of {qual}")
    name_kw = [k.value for n in ast.walk(create[0]) if isinstance(n, ast.Call) for k in n.keywords if k.arg == "name"]
    if len(name_kw) != 1:
        raise Unsupported(f"anchor-lost: name=... of the created entity in {qual}")
    settings = V(("dict", ("str",), ("dyn",)), z3.Const("group_settings", REF))
    nm = V(("str",), z3.Const("group_name", z3.StringSort()))
    runner = sym_obj("SequentialRunner", "runner")
    def assume(st):
        return [z3.Implies(has(st, settings, k), dyn_is_int(get(st, settings, k))) for k in (count_key, "from", "to")] + [z3.Implies(has(st, settings, "prefix"), dyn_is_str(get(st, settings, "prefix")))]
    ex, st0, outs, obl = run_block(qual, stmts, {"self": runner, settings_var: settings, "name": nm}, assume=assume, label=qual + "[count-range-names]")
    h = lambda k: has(st0, settings, k); g = lambda k: get(st0, settings, k)
    ival = lambda k: z3.If(z3.Or(dyn_is_int(g(k)), dyn_is_bool(g(k))), dyn_int(g(k)), z3.If(dyn_real(g(k)) >= 0, FLOOR(dyn_real(g(k))), CEIL(dyn_real(g(k)))))
    n_ok = 0
    for s1, kind, val in outs:
        if kind == "raise":
            s1.oblige("raises:ValueError only for an incomplete range or for a count together with a range",
                      z3.And(z3.BoolVal(val[0] == "ValueError"), z3.Or(h("from") != h("to"), z3.And(h(count_key), z3.Or(h("from"), h("to"))))), "raises")
            continue
        n_ok += 1
        e = s1.env
        n, lo, hi = e[nvar].term, e["id_from"].term, e["id_to"].term
        s1.oblige("raises:ValueError whenever the range is incomplete or count and range are combined", z3.Not(z3.Or(h("from") != h("to"), z3.And(h(count_key), z3.Or(h("from"), h("to"))))), "raises")
        s1.oblige("post:C18 a group declared with a count creates ids 0 .. count-1", z3.Implies(z3.And(h(count_key), z3.Not(h("from"))), z3.And(n == ival(count_key), lo == 0, hi == n - 1)), "post")
        s1.oblige("post:C18 a group declared with an inclusive id range creates the ids from .. to", z3.Implies(h("from"), z3.And(lo == ival("from"), hi == ival("to"))), "post")
        s1.oblige("post:C18 the count used for naming is exactly the number of entities created (to - from + 1 for an inclusive range)", z3.Implies(hi >= lo - 1, n == hi - lo + 1), "post")
        s1.oblige("post:a group without count and range is a single entity", z3.Implies(z3.And(z3.Not(h(count_key)), z3.Not(h("from"))), z3.And(n == 1, lo == 0, hi == 0)), "post")
        for k in (count_key, "from", "to", "prefix"):
            s1.oblige(f"post:the expansion key `{k}` is removed from the settings handed to the entities", z3.Not(has(s1, e[settings_var], k)), "post")
        # names of two different created entities differ
        i, j = z3.Ints("i_name j_name")
        names = []
        for idx in (i, j):
            s2 = s1.copy(); s2.env = dict(s1.env); s2.env["i"] = V(("int",), idx)
            r = ex.ev(name_kw[0], s2, 0)
            names.append([(sx.pc[len(s1.pc):], vx.term) for sx, vx in r])
        inj = z3.ForAll([i, j], z3.Implies(STR_OF_INT(i) == STR_OF_INT(j), i == j))
        for ci, ni in names[0]:
            for cj, nj in names[1]:
                obl.append({"name": qual + "[count-range-names]/post:C18 entities of one group get pairwise different names (prefix + id, or the bare prefix for a single entity)",
                            "pc": list(s1.pc) + list(ci) + list(cj) + [inj, lo <= i, i <= hi, lo <= j, j <= hi, i != j, n == hi - lo + 1], "goal": ni != nj, "kind": "post"})
    obl.append({"name": qual + "[count-range-names]/cover:paths", "pc": [], "goal": z3.BoolVal(n_ok >= 3), "kind": "cover"})
    info = {"function": qual + " (count / range / prefix block and entity names)", "source_sha": get_src().source_hash(qual), "where": get_src().where(qual), "paths": n_ok,
            "assumptions": sorted(ex.used_assumptions | {"str(int) is injective (A-STR)"})}
    return {"obligations": obl, "info": [info]}


task("SequentialRunner._generate_markets[count-range-names]", props=["C18"], functions=["SequentialRunner._generate_markets"], replay="config")(
    lambda: expansion_task("SequentialRunner._generate_markets", "numMarkets", "n_markets", "market_settings"))
task("SequentialRunner._generate_agents[count-range-names]", props=["C18"], functions=["SequentialRunner._generate_agents"], replay="config")(
    lambda: expansion_task("SequentialRunner._generate_agents", "numAgents", "n_agents", "agent_settings"))
