"""Configuration expansion under contract (C18): count / inclusive id range / names in _generate_markets and _generate_agents, registries, JsonRandom supports."""
import ast
import z3

from pyvc.core import *   # noqa
from pyvc.spec import FSpec, LoopSpec, task, run_block, find_loops, emit
from pyvc.src import get_src
from .session import S, has, get, num


def expansion_task(qual, count_key, nvar, settings_var):
    fn = get_src().funcs[qual][0]
    outer = find_loops(fn, target_name="name", kind=ast.For)
    if len(outer) != 1:
        raise Unsupported(f"anchor-lost: `for name in ...` of {qual}")
    body = outer[0].body

    def assigns(s_, var):
        return isinstance(s_, ast.Assign) and isinstance(s_.targets[0], ast.Name) and s_.targets[0].id == var
    start = [i for i, s_ in enumerate(body) if assigns(s_, nvar)]
    end = [i for i, s_ in enumerate(body) if isinstance(s_, ast.If) and ast.unparse(s_.test) == f"'prefix' in {settings_var}"]
    if not start or not end:
        raise Unsupported(f"anchor-lost: count/range block of {qual}")
    stmts = body[start[0]:end[0] + 1]
    create = [n for n in find_loops(fn, target_name="i", kind=ast.For)]
    if len(create) != 1 or ast.unparse(create[0].iter) != "range(id_from, id_to + 1)":
        raise Unsupported(f"anchor-lost: creation loop `for i in range(id_from, id_to + 1)` of {qual}")
    name_kw = [k.value for n in ast.walk(create[0]) if isinstance(n, ast.Call) for k in n.keywords if k.arg == "name"]
    if len(name_kw) != 1:
        raise Unsupported(f"anchor-lost: name=... of the created entity in {qual}")
    settings = V(("dict", ("str",), ("dyn",)), z3.Const("group_settings", REF))
    nm = V(("str",), z3.Const("group_name", z3.StringSort()))
    runner = sym_obj("SequentialRunner", "runner")
    def assume(st):
        return [z3.Implies(has(st, settings, k), dyn_is_int(get(st, settings, k))) for k in (count_key, "from", "to")] + [z3.Implies(has(st, settings, "prefix"), dyn_is_str(get(st, settings, "prefix")))]
    ex, st0, outs, obl = run_block(qual, stmts, {"self": runner, settings_var: settings, "name": nm}, assume=assume, label=qual + "[count-range-names]")
    h = lambda k: has(st0, settings, k); g = lambda k: get(st0, settings, k)
    ival = lambda k: z3.If(z3.Or(dyn_is_int(g(k)), dyn_is_bool(g(k))), dyn_int(g(k)), z3.If(dyn_real(g(k)) >= 0, FLOOR(dyn_real(g(k))), CEIL(dyn_real(g(k)))))
    n_ok = 0
    for s1, kind, val in outs:
        if kind == "raise":
            s1.oblige("raises:ValueError only for an incomplete range or for a count together with a range",
                      z3.And(z3.BoolVal(val[0] == "ValueError"), z3.Or(h("from") != h("to"), z3.And(h(count_key), z3.Or(h("from"), h("to"))))), "raises")
            continue
        n_ok += 1
        e = s1.env
        n, lo, hi = e[nvar].term, e["id_from"].term, e["id_to"].term
        s1.oblige("raises:ValueError whenever the range is incomplete or count and range are combined", z3.Not(z3.Or(h("from") != h("to"), z3.And(h(count_key), z3.Or(h("from"), h("to"))))), "raises")
        s1.oblige("post:C18 a group declared with a count creates ids 0 .. count-1", z3.Implies(z3.And(h(count_key), z3.Not(h("from"))), z3.And(n == ival(count_key), lo == 0, hi == n - 1)), "post")
        s1.oblige("post:C18 a group declared with an inclusive id range creates the ids from .. to", z3.Implies(h("from"), z3.And(lo == ival("from"), hi == ival("to"))), "post")
        s1.oblige("post:C18 the count used for naming is exactly the number of entities created (to - from + 1 for an inclusive range)", z3.Implies(hi >= lo - 1, n == hi - lo + 1), "post")
        s1.oblige("post:a group without count and range is a single entity", z3.Implies(z3.And(z3.Not(h(count_key)), z3.Not(h("from"))), z3.And(n == 1, lo == 0, hi == 0)), "post")
        for k in (count_key, "from", "to", "prefix"):
            s1.oblige(f"post:the expansion key `{k}` is removed from the settings handed to the entities", z3.Not(has(s1, e[settings_var], k)), "post")
        # names of two different created entities differ
        i, j = z3.Ints("i_name j_name")
        names = []
        for idx in (i, j):
            s2 = s1.copy(); s2.env = dict(s1.env); s2.env["i"] = V(("int",), idx)
            r = ex.ev(name_kw[0], s2, 0)
            names.append([(sx.pc[len(s1.pc):], vx.term) for sx, vx in r])
        inj = z3.ForAll([i, j], z3.Implies(STR_OF_INT(i) == STR_OF_INT(j), i == j))
        for ci, ni in names[0]:
            for cj, nj in names[1]:
                obl.append({"name": qual + "[count-range-names]/post:C18 entities of one group get pairwise different names (prefix + id, or the bare prefix for a single entity)",
                            "pc": list(s1.pc) + list(ci) + list(cj) + [inj, lo <= i, i <= hi, lo <= j, j <= hi, i != j, n == hi - lo + 1], "goal": ni != nj, "kind": "post"})
    obl.append({"name": qual + "[count-range-names]/cover:paths", "pc": [], "goal": z3.BoolVal(n_ok >= 3), "kind": "cover"})
    info = {"function": qual + " (count / range / prefix block and entity names)", "source_sha": get_src().source_hash(qual), "where": get_src().where(qual), "paths": n_ok,
            "assumptions": sorted(ex.used_assumptions | {"str(int) is injective (A-STR)"})}
    return {"obligations": obl, "info": [info]}


task("SequentialRunner._generate_markets[count-range-names]", props=["C18"], functions=["SequentialRunner._generate_markets"], replay="config")(
    lambda: expansion_task("SequentialRunner._generate_markets", "numMarkets", "n_markets", "market_settings"))
task("SequentialRunner._generate_agents[count-range-names]", props=["C18"], functions=["SequentialRunner._generate_agents"], replay="config")(
    lambda: expansion_task("SequentialRunner._generate_agents", "numAgents", "n_agents", "agent_settings"))


# ----------------------------------------------------------------------------- JsonRandom.random: randomised values fall in the documented support (C18)
def jr_view(st, jv):
    d = V(("dict", ("str",), ("dyn",)), dyn_ref(jv.term))
    lst = dyn_ref(jv.term)
    le = lambda ref, i: z3.Select(st.elems(ref, ("dyn",)), i)
    return d, lst, le


def numv(v):
    return z3.If(dyn_is_int(v), z3.ToReal(dyn_int(v)), dyn_real(v))


def is_num(v):
    return z3.Or(dyn_is_int(v), dyn_is_real(v), dyn_is_bool(v))


DIST = [("const", 1), ("uniform", 2), ("normal", 2), ("expon", 1)]


def jr_shape(st, jv):
    """well-formedness of a distribution specification, and the argument lists"""
    d, lst, le = jr_view(st, jv)
    v = jv.term
    size = z3.Function("dict_size_String", z3.ArraySort(z3.StringSort(), z3.BoolSort()), z3.IntSort())(st.dict_dom(d))
    arg = lambda k: z3.Select(st.dict_val(d), z3.StringVal(k))
    hask = lambda k: z3.Select(st.dict_dom(d), z3.StringVal(k))
    good_list = z3.And(dyn_is_list(v), st.length(lst, ("dyn",)) == 2)
    branch = {}
    prev = []
    for k, n in DIST:
        branch[k] = z3.And(dyn_is_dict(v), z3.Not(dyn_is_list(v)), size == 1, hask(k), *[z3.Not(hask(p)) for p in prev])
        prev.append(k)
    good_dict = z3.Or(*[z3.And(branch[k], dyn_is_list(arg(k)), st.length(dyn_ref(arg(k)), ("dyn",)) == n) for k, n in DIST])
    plain = z3.And(z3.Not(dyn_is_list(v)), z3.Not(dyn_is_dict(v)))
    return dict(good_list=good_list, good_dict=good_dict, plain=plain, branch=branch, arg=arg, le=le, lst=lst)


def jr_pre(st, a):
    jv = a["json_value"]; sh = jr_shape(st, jv)
    i = z3.Int("i_jr")
    nums = [z3.ForAll([i], z3.Implies(z3.And(dyn_is_list(jv.term), 0 <= i, i < st.length(sh["lst"], ("dyn",))), is_num(sh["le"](sh["lst"], i))))]
    for k, n in DIST:
        ar = sh["arg"](k)
        nums.append(z3.ForAll([i], z3.Implies(z3.And(dyn_is_list(ar), 0 <= i, i < st.length(dyn_ref(ar), ("dyn",))), is_num(sh["le"](dyn_ref(ar), i)))))
    return [("list elements of a distribution specification are numbers; a plain value is a number", z3.And(*nums, z3.Implies(sh["plain"], is_num(jv.term)))),
            ("a JSON value has one shape (list, dict or scalar)", z3.Not(z3.And(dyn_is_list(jv.term), dyn_is_dict(jv.term))))]


def jr_post(st0, st1, a, res):
    jv = a["json_value"]; sh = jr_shape(st0, jv)
    r = res.term
    e = lambda ref, i: numv(sh["le"](ref, z3.IntVal(i)))
    ar = lambda k: dyn_ref(sh["arg"](k))
    lo, hi = e(sh["lst"], 0), e(sh["lst"], 1)
    ulo, uhi = e(ar("uniform"), 0), e(ar("uniform"), 1)
    def unif(lo_, hi_):
        return z3.And(z3.Implies(lo_ < hi_, z3.And(lo_ <= r, r < hi_)), z3.Implies(lo_ == hi_, r == lo_), z3.Implies(lo_ > hi_, z3.And(hi_ < r, r <= lo_)))
    b = sh["branch"]
    return [("[min, max]: uniform on [min, max)", z3.Implies(sh["good_list"], unif(lo, hi))),
            ("{'uniform': [min, max]}: uniform on [min, max)", z3.Implies(z3.And(sh["good_dict"], b["uniform"]), unif(ulo, uhi))),
            ("{'const': [v]}: exactly v", z3.Implies(z3.And(sh["good_dict"], b["const"]), r == e(ar("const"), 0))),
            ("{'expon': [lam]}: non-negative for lam >= 0", z3.Implies(z3.And(sh["good_dict"], b["expon"], e(ar("expon"), 0) >= 0), r >= 0)),
            ("a plain number is returned as it is", z3.Implies(sh["plain"], r == numv(jv.term)))]


def jr_raises(st, a):
    sh = jr_shape(st, a["json_value"])
    return z3.Not(z3.Or(sh["good_list"], sh["good_dict"], sh["plain"]))


JSON_RANDOM = FSpec("JsonRandom.random", pre=jr_pre, post=jr_post, raises={"ValueError": jr_raises}, props=("C18",), param_types={"json_value": ("dyn",)}, result=("real",))


@task("JsonRandom.random", props=["C18"], functions=["JsonRandom.random", "JsonRandom._next_uniform", "JsonRandom._next_normal", "JsonRandom._next_exponential"], replay="config")
def t_json_random():
    obl, info = JSON_RANDOM.verify()
    for ob in obl:
        if ob["name"].endswith("log-of-positive") and z3.is_gt(ob["goal"]):
            ob["region"] = [ob["goal"].arg(0) != 0]       # known finding: the draw 0.0 (probability 2^-53) -- everything else must be proved
    return {"obligations": obl, "info": [info]}


# ----------------------------------------------------------------------------- registries: unique ids / names, no double registration (C18)
def _registry_sep(st, a, lst):
    """The simulator's containers are pairwise distinct objects (each is created by its own `[]` / `{}` in
    Simulator.__init__ and the group lists by their own `[]` in _add_market / _add_agent)."""
    if lst == "sessions":
        return []
    sim = a["self"]; L = st.read(sim, lst).term
    gname, nname = {"agents": ("agents_group_name2agent", "name2agent"), "markets": ("markets_group_name2market", "name2market")}[lst]
    g = st.read(sim, gname); k = z3.Const("k_grp", z3.StringSort()); k2_ = z3.Const("k_grp2", z3.StringSort())
    others = [st.read(sim, f).term for f in (("high_frequency_agents", "normal_frequency_agents") if lst == "agents" else ())]
    return [("the registry list, the pools, the group lists and the dictionaries are distinct existing objects",
             z3.And(*[L != o for o in others], z3.Distinct(*others) if len(others) > 1 else z3.BoolVal(True), *[st.is_alloc(o) for o in others + [L]], g.term != st.read(sim, nname).term,
                    z3.ForAll([k], z3.Implies(z3.Select(st.dict_dom(g), k), z3.And(z3.Select(st.dict_val(g), k) != L, st.is_alloc(z3.Select(st.dict_val(g), k)), *[z3.Select(st.dict_val(g), k) != o for o in others]))),
                    z3.ForAll([k, k2_], z3.Implies(z3.And(z3.Select(st.dict_dom(g), k), z3.Select(st.dict_dom(g), k2_), k != k2_), z3.Select(st.dict_val(g), k) != z3.Select(st.dict_val(g), k2_)))))]


def registry_task(fname, param, lst, id_field, id_dict, name_dict, cls):
    qual = "Simulator." + fname

    def raises(st, a):
        sim, x = a["self"], a[param]
        return z3.Or(st.mem(st.read(sim, lst).term, x.term), st.dict_has(st.read(sim, id_dict), st.read(x, id_field)), st.dict_has(st.read(sim, name_dict), st.read(x, "name")))

    def post(st0, st1, a, res):
        sim, x = a["self"], a[param]
        L = st0.read(sim, lst).term; y = z3.Const("y_reg", REF)
        return [("C18 the entity is appended exactly once and becomes reachable by its id and by its name",
                 z3.And(st1.read(sim, lst).term == L, st1.length(L) == st0.length(L) + 1, z3.ForAll([y], st1.mem(L, y) == z3.Or(st0.mem(L, y), y == x.term)),
                        st1.dict_has(st1.read(sim, id_dict), st0.read(x, id_field)), st1.dict_get(st1.read(sim, id_dict), st0.read(x, id_field), check=False).term == x.term,
                        st1.dict_has(st1.read(sim, name_dict), st0.read(x, "name")), st1.dict_get(st1.read(sim, name_dict), st0.read(x, "name"), check=False).term == x.term))]
    if lst in ("agents", "markets"):
        grp_field = {"agents": "agents_group_name2agent", "markets": "markets_group_name2market"}[lst]
        post0 = post

        def post(st0, st1, a, res):      # noqa: F811
            sim, x = a["self"], a[param]
            g0, g1 = st0.read(sim, grp_field), st1.read(sim, grp_field)
            gn = a["group_name"]; k = z3.Const("k_gt", z3.StringSort()); y = z3.Const("y_gt", REF)
            same = lambda kk: z3.And(z3.Select(st1.dict_dom(g1), kk) == z3.Select(st0.dict_dom(g0), kk),
                                     z3.Implies(z3.Select(st0.dict_dom(g0), kk), z3.And(z3.Select(st1.dict_val(g1), kk) == z3.Select(st0.dict_val(g0), kk),
                                                                                           st1.length(z3.Select(st0.dict_val(g0), kk)) == st0.length(z3.Select(st0.dict_val(g0), kk)),
                                                                                           st1.memset(z3.Select(st0.dict_val(g0), kk)) == st0.memset(z3.Select(st0.dict_val(g0), kk)))))
            mine = z3.Select(st1.dict_val(g1), gn.term)
            return post0(st0, st1, a, res) + [
                ("C18 the group table: only the entry of the given group name changes (no entry under the entity's own name, none without a group name)",
                 z3.And(g1.term == g0.term, z3.ForAll([k], z3.Implies(z3.Or(gn.none, k != gn.term), same(k))))),
                ("C18 the group table: the entity joins the list of its group (created if missing)",
                 z3.Implies(z3.Not(gn.none), z3.And(z3.Select(st1.dict_dom(g1), gn.term),
                                                    z3.ForAll([y], st1.mem(mine, y) == z3.Or(z3.And(z3.Select(st0.dict_dom(g0), gn.term), st0.mem(z3.Select(st0.dict_val(g0), gn.term), y)), y == x.term)))))]
    if lst == "agents":
        base_post = post

        def post(st0, st1, a, res):      # noqa: F811
            sim, x = a["self"], a[param]
            H = st0.read(sim, "high_frequency_agents").term; N = st0.read(sim, "normal_frequency_agents").term; y = z3.Const("y_pool", REF)
            hft = is_instance("HighFrequencyAgent", x.term)
            grow = lambda P, c: z3.And(st1.length(P) == st0.length(P) + z3.If(c, 1, 0), z3.ForAll([y], st1.mem(P, y) == z3.Or(st0.mem(P, y), z3.And(c, y == x.term))))
            what = "C09 the agent joins exactly one consultation pool: the high-frequency pool iff it is a HighFrequencyAgent (of any depth of subclassing), else the normal pool"
            return base_post(st0, st1, a, res) + [
                (what + " [the pool objects stay]", z3.And(st1.read(sim, "high_frequency_agents").term == H, st1.read(sim, "normal_frequency_agents").term == N)),
                (what + " [high-frequency pool]", grow(H, hft)), (what + " [normal pool]", grow(N, z3.Not(hft)))]
    spec = FSpec(qual, post=post, raises={"ValueError": raises}, props=("C18",), param_types={"group_name": ("opt", ("str",))},
                 pre=lambda st, a: [("len >= 0", st.length(st.read(a["self"], lst).term) >= 0)] + _registry_sep(st, a, lst),
                 modifies=lambda st, a: ["len", "mem", "el:Ref", "nodup", "heapok", "dd:Int_Ref", "dv:Int_Ref", "dd:String_Ref", "dv:String_Ref", ("f:Simulator.n_" + lst.rstrip("s") + "s", [a["self"].term])])

    def build():
        obl, info = spec.verify()
        return {"obligations": obl, "info": [info]}
    build.__doc__ = f"{fname}: duplicate object, id or name is a ValueError; otherwise registered once"
    task(qual, props=["C18"], functions=[qual], replay="config")(build)


registry_task("_add_market", "market", "markets", "market_id", "id2market", "name2market", "Market")
registry_task("_add_agent", "agent", "agents", "agent_id", "id2agent", "name2agent", "Agent")
registry_task("_add_session", "session", "sessions", "session_id", "id2session", "name2session", "Session")
