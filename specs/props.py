"""property -> tasks (obligation ownership), level, bounded stand-ins, what is not decided"""
NOT_YET = "contracts for this property are not finished in this commit (work in progress; see DESIGN.md build order)"
NOT_CLAIMED = {f"C{i:02d}": NOT_YET for i in range(1, 21)}

COMMON_NOTE = "float = real (A-REAL), no NaN/inf (A-FINITE); library contracts (heapq, list, random, math) trusted as stated in DESIGN.md App. B; static dispatch"

PROPS = {
    "C08": {
        "level": "proof",
        "level_text": "postconditions and frames of the price/quote/statistics functions proved for all inputs from the real AST",
        "level_note": COMMON_NOTE,
        "tasks": ["Market._update_market_price", "Market._add_order"],
        "not_decided": [],
        "assumptions": [],
    },
    "C14": {
        "level": "proof",
        "level_text": "contracts of both shocks (hook registration window/target, hook body effect and frame, change_fundamental_price) discharged for all inputs",
        "level_note": COMMON_NOTE + "; values of a name->market dict pairwise distinct",
        "tasks": ["OrderMistakeShock.hooked_before_order", "OrderMistakeShock.hook_registration", "FundamentalPriceShock.hooked_before_step_for_market",
                  "FundamentalPriceShock.hook_registration", "Market.change_fundamental_price"],
        "not_decided": [],
    },
    "C15": {
        "level": "proof",
        "level_text": "band clipping, inside-unchanged, market orders and non-target orders untouched: postconditions of the rule's functions discharged for all prices/rates/markets",
        "level_note": COMMON_NOTE,
        "tasks": ["PriceLimitRule.get_limited_price", "PriceLimitRule.hooked_before_order", "PriceLimitRule.hook_registration", "Market._add_order"],
        "not_decided": [],
    },
    "C16": {
        "level": "proof",
        "level_text": "halt decision, resumption schedule and the execution-gate invariant of the halt rule's two hooks discharged for all states",
        "level_note": COMMON_NOTE + "; ghost configured_exec per session",
        "tasks": ["TradingHaltRule.hooked_after_execution", "TradingHaltRule.hooked_before_step_for_market"],
        "not_decided": [],
    },
    "C19": {
        "level": "proof",
        "level_text": "rounding direction, distance < 1 tick, grid membership and on-grid-unchanged are postconditions of Market._add_order, discharged in real arithmetic for every tick > 0 and price",
        "level_note": COMMON_NOTE + "; the float grid effect (0.3 % 0.1) is outside the claim, as the property itself states",
        "tasks": ["Market._add_order"],
        "not_decided": ["IEEE-754 representation of the grid"],
    },
}
for k in PROPS:
    NOT_CLAIMED.pop(k, None)
