"""property -> tasks (obligation ownership), level, bounded stand-ins, what is not decided"""
NOT_YET = "contracts for this property are not finished in this commit (work in progress; see DESIGN.md build order)"
NOT_CLAIMED = {f"C{i:02d}": NOT_YET for i in range(1, 21)}

COMMON_NOTE = "float = real (A-REAL), no NaN/inf (A-FINITE); library contracts (heapq, list, random, math) trusted as stated in DESIGN.md App. B; static dispatch"

PROPS = {
    "C08": {
        "level": "proof",
        "level_text": "postconditions and frames of the price/quote/statistics functions proved for all inputs from the real AST",
        "level_note": COMMON_NOTE,
        "tasks": ["Market._update_market_price", "Market._add_order"],
        "not_decided": [],
        "assumptions": [],
    },
    "C14": {
        "level": "proof",
        "level_text": "contracts of both shocks (hook registration window/target, hook body effect and frame, change_fundamental_price) discharged for all inputs",
        "level_note": COMMON_NOTE + "; values of a name->market dict pairwise distinct",
        "tasks": ["OrderMistakeShock.hooked_before_order", "OrderMistakeShock.hook_registration", "FundamentalPriceShock.hooked_before_step_for_market",
                  "FundamentalPriceShock.hook_registration", "Market.change_fundamental_price"],
        "not_decided": [],
    },
    "C15": {
        "level": "proof",
        "level_text": "band clipping, inside-unchanged, market orders and non-target orders untouched: postconditions of the rule's functions discharged for all prices/rates/markets",
        "level_note": COMMON_NOTE,
        "tasks": ["PriceLimitRule.get_limited_price", "PriceLimitRule.hooked_before_order", "PriceLimitRule.hook_registration", "Market._add_order"],
        "not_decided": [],
    },
    "C16": {
        "level": "proof",
        "level_text": "halt decision, resumption schedule and the execution-gate invariant of the halt rule's two hooks discharged for all states",
        "level_note": COMMON_NOTE + "; ghost configured_exec per session",
        "tasks": ["TradingHaltRule.hooked_after_execution", "TradingHaltRule.hooked_before_step_for_market"],
        "not_decided": [],
    },
    "C19": {
        "level": "proof",
        "level_text": "rounding direction, distance < 1 tick, grid membership and on-grid-unchanged are postconditions of Market._add_order, discharged in real arithmetic for every tick > 0 and price",
        "level_note": COMMON_NOTE + "; the float grid effect (0.3 % 0.1) is outside the claim, as the property itself states",
        "tasks": ["Market._add_order"],
        "not_decided": ["IEEE-754 representation of the grid"],
    },
}
PROPS.update({
    "C05": {
        "level": "proof",
        "level_text": "holdings after a round equal the endowment folded, in order, with the round's fills (loop invariant over spec folds); one fill conserves the parties' cash and shares, incl. self-trades",
        "level_note": COMMON_NOTE + "; total-over-all-agents conservation follows from the per-fill lemma by induction over the agent list (meta-level step)",
        "tasks": ["Simulator._update_agents_for_execution"],
        "not_decided": ["floating-point rounding of total cash (the property allows it)"],
    },
    "C06": {
        "level": "proof",
        "level_text": "clock +1 in lock-step for market and books, frame on all eight series for past slots, storage growth keeps filled slots, future access refused, markets stepped once each with index markets last",
        "level_note": COMMON_NOTE,
        "tasks": ["Market._update_time", "Market._fill_until", "Market._update_market_price", "Market._extract_data_by_time[prices]", "Market._extract_data_by_time[counters]",
                  "Market.get_vwap", "Simulator._update_time_on_market", "Simulator._update_times_on_markets", "Market.change_fundamental_price", "OrderBook._set_time"],
        "not_decided": [],
    },
    "C17": {
        "level": "proof",
        "level_text": "index value = W(n)/S(n) with W, S the share-weighted folds over the components (loop invariants), for market and fundamental index; component validation; index markets stepped after components",
        "level_note": COMMON_NOTE,
        "tasks": ["IndexMarket.compute_market_index", "IndexMarket.compute_fundamental_index", "IndexMarket.get_index", "IndexMarket._add_market",
                  "Simulator._update_time_on_market", "Simulator._update_times_on_markets"],
        "not_decided": [],
    },
    "C18": {
        "level": "proof",
        "level_text": "session parameters incl. deprecated spellings are postconditions of Session.setup for every settings dict",
        "level_note": COMMON_NOTE + "; JSON values modelled by an uninterpreted sort with tag predicates",
        "tasks": ["Session.setup"],
        "not_decided": ["inheritance, count/range expansion, distributions, class lookup: contracts not finished in this commit"],
    },
})
for k in PROPS:
    NOT_CLAIMED.pop(k, None)
