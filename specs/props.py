"""property -> tasks (obligation ownership), level, bounded stand-ins, what is not decided"""
NOT_YET = "contracts for this property are not finished in this commit (work in progress; see DESIGN.md build order)"
NOT_CLAIMED = {f"C{i:02d}": NOT_YET for i in range(1, 21)}

PROPS = {
    "C08": {
        "level": "proof",
        "level_text": "postconditions and frames of the price/quote/statistics functions proved for all inputs from the real AST",
        "level_note": "float = real (A-REAL), no NaN/inf (A-FINITE); heapq trusted",
        "tasks": ["Market._update_market_price"],
        "not_decided": [],
        "assumptions": [],
    },
}
