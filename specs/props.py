"""property -> tasks (obligation ownership), level, bounded stand-ins, what is not decided"""
NOT_YET = "contracts for this property are not finished in this commit (work in progress; see DESIGN.md build order)"
NOT_CLAIMED = {f"C{i:02d}": NOT_YET for i in range(1, 21)}

COMMON_NOTE = "float = real (A-REAL), no NaN/inf (A-FINITE); library contracts (heapq, list, random, math) trusted as stated in DESIGN.md App. B; static dispatch"

PROPS = {
    "C08": {
        "level": "proof",
        "level_text": "postconditions and frames of the price/quote/statistics functions proved for all inputs from the real AST",
        "level_note": COMMON_NOTE,
        "tasks": ["Market._update_market_price", "Market._add_order", "Market._cancel_order", "Market._execute_orders", "Market._update_time", "Market.get_vwap", "Market._fill_until"],
        "bounded": [{"name": "per-price depth view (OrderBook.get_price_volume, Market.get_buy/sell_order_book) against an independent oracle after every event", "replayer": "depth",
                     "bound": "1500 (quick) / 20000 (thorough) seeded random single-market histories (<= 40 events; ties, market orders, cancels, expiries, off-grid prices)", "timeout": 900}],
        "not_decided": ["per-price depth view OrderBook.get_price_volume (set/sort/dict idioms outside the subset): bounded stand-in only"],
        "assumptions": [],
    },
    "C14": {
        "level": "proof",
        "level_text": "contracts of both shocks (hook registration window/target, hook body effect and frame, change_fundamental_price) discharged for all inputs",
        "level_note": COMMON_NOTE + "; values of a name->market dict pairwise distinct",
        "tasks": ["OrderMistakeShock.hooked_before_order", "OrderMistakeShock.hook_registration", "FundamentalPriceShock.hooked_before_step_for_market",
                  "FundamentalPriceShock.hook_registration", "Market.change_fundamental_price"],
        "not_decided": [],
    },
    "C15": {
        "level": "proof",
        "level_text": "band clipping, inside-unchanged, market orders and non-target orders untouched: postconditions of the rule's functions discharged for all prices/rates/markets",
        "level_note": COMMON_NOTE,
        "tasks": ["PriceLimitRule.get_limited_price", "PriceLimitRule.hooked_before_order", "PriceLimitRule.hook_registration", "Market._add_order"],
        "not_decided": [],
    },
    "C16": {
        "level": "proof",
        "level_text": "halt decision, resumption schedule and the execution-gate invariant of the halt rule's two hooks discharged for all states",
        "level_note": COMMON_NOTE + "; ghost configured_exec per session",
        "tasks": ["TradingHaltRule.hooked_after_execution", "TradingHaltRule.hooked_before_step_for_market"],
        "not_decided": [],
    },
    "C19": {
        "level": "proof",
        "level_text": "rounding direction, distance < 1 tick, grid membership and on-grid-unchanged are postconditions of Market._add_order, discharged in real arithmetic for every tick > 0 and price",
        "level_note": COMMON_NOTE + "; the float grid effect (0.3 % 0.1) is outside the claim, as the property itself states",
        "tasks": ["Market._add_order"],
        "bounded": [{"name": "accepted prices over random single-market histories (float and int prices, ticks 1, 0.5, 0.25, 0.125, 2.5; exact rational check for power-of-two ticks)", "replayer": "market_ops",
                     "bound": "3000 (quick) / 40000 (thorough) seeded histories of <= 40 events", "timeout": 1500}],
        "not_decided": ["IEEE-754 representation of the grid: bounded stand-in only", "the dynamic type of the submitted price (int vs float): bounded stand-in only"],
    },
}
PROPS.update({
    "C05": {
        "level": "proof",
        "level_text": "holdings after a round equal the endowment folded, in order, with the round's fills (loop invariant over spec folds); one fill conserves the parties' cash and shares, incl. self-trades",
        "level_note": COMMON_NOTE + "; total-over-all-agents conservation follows from the per-fill lemma by induction over the agent list (meta-level step)",
        "tasks": ["Simulator._update_agents_for_execution"],
        "not_decided": ["floating-point rounding of total cash (the property allows it)"],
    },
    "C06": {
        "level": "proof",
        "level_text": "clock +1 in lock-step for market and books, frame on all eight series for past slots, storage growth keeps filled slots, future access refused, markets stepped once each with index markets last",
        "level_note": COMMON_NOTE,
        "tasks": ["Market._update_time", "Market._fill_until", "Market._update_market_price", "Market._extract_data_by_time[prices]", "Market._extract_data_by_time[counters]",
                  "Market.get_vwap", "Simulator._update_time_on_market", "Simulator._update_times_on_markets", "Market.change_fundamental_price", "OrderBook._set_time"],
        "not_decided": [],
    },
    "C17": {
        "level": "proof",
        "level_text": "index value = W(n)/S(n) with W, S the share-weighted folds over the components (loop invariants), for market and fundamental index; component validation; index markets stepped after components",
        "level_note": COMMON_NOTE,
        "tasks": ["IndexMarket.compute_market_index", "IndexMarket.compute_fundamental_index", "IndexMarket.get_index", "IndexMarket._add_market",
                  "Simulator._update_time_on_market", "Simulator._update_times_on_markets"],
        "not_decided": [],
    },
    "C18": {
        "level": "proof",
        "level_text": "session parameters incl. deprecated spellings are postconditions of Session.setup for every settings dict",
        "level_note": COMMON_NOTE + "; JSON values modelled by an uninterpreted sort with tag predicates",
        "tasks": ["Session.setup", "SequentialRunner._generate_markets[count-range-names]", "SequentialRunner._generate_agents[count-range-names]", "JsonRandom.random",
                  "SequentialRunner._generate_sessions[session]"],
        "bounded": [{"name": "accessible markets of generated agents = the markets of the listed groups; class lookup; all configuration cases of the witness search", "replayer": "config",
                     "bound": "every assignment of 1..3 markets to 3 groups x every ordered selection of groups; registrations over 2 ids x 2 names x 2 groups up to length 3; Agent.setup over id lists up to length 3 from 4 ids", "timeout": 900}],
        "not_decided": ["the flattening expression that computes the accessible market ids in _generate_agents and find_class (import machinery): bounded stand-in only"],
    },
})
EXEC_TASKS = ["Market._execution", "Market._execute_orders", "Market.remain_executable_orders", "OrderBook.change_order_volume", "OrderBook._remove", "Order.compare"]
PROPS.update({
    "C01": {
        "level": "proof",
        "level_text": "pairing, one common price, price within both limits and the price rule are postconditions of Market._execution, proved with an inductive invariant of the matching walk for books of any size",
        "level_note": COMMON_NOTE + "; prices are only compared and copied, so A-REAL is not needed here; rounds that start with market orders on both tops are covered only by the bounded stand-in",
        "tasks": EXEC_TASKS,
        "bounded": [{"name": "rounds starting with market orders on top of both sides", "replayer": "matching", "bound": "4000 (quick) / 60000 (thorough) seeded random histories of <= 14 events, prices 8..12, volumes 1..3, ttl in {None,1,2}", "timeout": 1500}],
        "not_decided": ["rounds whose two best orders are both market orders: bounded only"],
    },
    "C02": {
        "level": "proof",
        "level_text": "strict-total-order lemmas of Order comparisons from the real code; heap contracts; filled orders form a priority prefix (postcondition E6 of Market._execution); BookInv preserved by every book mutator",
        "level_note": COMMON_NOTE,
        "tasks": EXEC_TASKS + ["OrderBook.add", "OrderBook.cancel", "OrderBook._check_expired_orders", "Market._add_order"],
        "not_decided": [],
    },
    "C03": {
        "level": "proof",
        "level_text": "cleared-book postcondition E7, every raise in the round unreachable, termination variant -- under MarketInv, running, and not both best orders market orders; that complement by bounded enumeration",
        "level_note": COMMON_NOTE,
        "tasks": EXEC_TASKS,
        "bounded": [{"name": "rounds starting with market orders on top of both sides", "replayer": "matching", "bound": "4000 (quick) / 60000 (thorough) seeded random histories of <= 14 events, prices 8..12, volumes 1..3, ttl in {None,1,2}", "timeout": 1500}],
        "not_decided": ["rounds whose two best orders are both market orders: bounded only"],
    },
    "C04": {
        "level": "proof",
        "level_text": "order life-cycle: acceptance guards, volume accounting per fill, cancel, expiry boundary (exactly when the clock passes placed_at + ttl), BookInv/MarketInv preserved by every writer",
        "level_note": COMMON_NOTE + "; user agents/events use only the public API (DESIGN 3.5)",
        "tasks": ["Market._add_order", "Market._cancel_order", "Market._execute_orders", "Market._execution", "Market._update_time", "OrderBook.add", "OrderBook._remove", "OrderBook.cancel",
                  "OrderBook.change_order_volume", "OrderBook._check_expired_orders", "OrderBook._set_time", "Order.compare"],
        "not_decided": ["owner check in the runner and Order.__init__ validation: contracts not finished in this commit"],
    },
    "C10": {
        "level": "proof",
        "level_text": "one record per accepted order, cancel, fill and expiry with the event's values: trace contracts of the market functions",
        "level_note": COMMON_NOTE + "; user Logger.process_* overrides are outside",
        "tasks": ["Market._add_order", "Market._cancel_order", "Market._execute_orders", "Market._execution", "Market._update_time", "OrderBook._check_expired_orders"],
        "not_decided": ["flush points in the run loop and Logger dispatch: contracts not finished in this commit"],
    },
})
RUNNER_ELEMS = ["SequentialRunner._handle_orders[normal,Order]", "SequentialRunner._handle_orders[normal,Cancel]", "SequentialRunner._handle_orders[hft,Order]", "SequentialRunner._handle_orders[hft,Cancel]"]
SKELETON = ["SequentialRunner._iterate_market_updates[step]", "SequentialRunner._run[session]", "SequentialRunner._run[frame]"]
TRIGGER_TASKS = ["Simulator._trigger_event_before_order", "Simulator._trigger_event_after_order", "Simulator._trigger_event_before_cancel", "Simulator._trigger_event_after_cancel",
                 "Simulator._trigger_event_after_execution", "Simulator._trigger_event_before_session", "Simulator._trigger_event_after_session",
                 "Simulator._trigger_event_before_step_for_market", "Simulator._trigger_event_after_step_for_market"]
PROPS.update({
    "C09": {
        "level": "proof",
        "level_text": "placement and execution gates, caps (normal and high-frequency), one consultation per agent, session parsing, and the execution-gate invariant of the halt rule: trace contracts and loop invariants on the runner",
        "level_note": COMMON_NOTE + "; for-each rule for loops whose body is verified for an arbitrary element; events touch only what DESIGN 3.5 allows; 'with the configured probability' is the event rate >= u for a trusted uniform u",
        "tasks": RUNNER_ELEMS + ["SequentialRunner._collect_orders_from_normal_agents[Order]", "SequentialRunner._collect_orders_from_normal_agents[Cancel]",
                                 "SequentialRunner._handle_orders[hft-phase,Order]", "SequentialRunner._handle_orders[hft-phase,Cancel]", "Session.setup",
                                 "TradingHaltRule.hooked_after_execution", "TradingHaltRule.hooked_before_step_for_market"] + SKELETON,
        "not_decided": ["the probability of the high-frequency phase (only the event rate >= u is decided)"],
    },
    "C11": {
        "level": "proof",
        "level_text": "per-order trace pattern of _handle_orders proved for the normal and the duplicated high-frequency path: owner notified once with the market's log; after Hold(logs), buyer and seller of every fill notified once each",
        "level_note": COMMON_NOTE + "; for-each rule",
        "tasks": RUNNER_ELEMS,
        "not_decided": [],
    },
    "C13": {
        "level": "proof",
        "level_text": "trigger functions select exactly the hooks of the None bucket and of the occurrence's time bucket (class/instance filter for market steps); call sites in the run loop; registration: no double registration, one entry per key, keys distinct",
        "level_note": COMMON_NOTE + "; for-each rule",
        "tasks": TRIGGER_TASKS + ["Simulator._add_event", "Simulator._add_event[per-key]", "Simulator._add_event[keys-distinct]"] + RUNNER_ELEMS + SKELETON +
                 ["PriceLimitRule.hook_registration", "OrderMistakeShock.hook_registration", "FundamentalPriceShock.hook_registration"],
        "not_decided": [],
    },
})
PROPS["C20"] = {
    "level": "proof",
    "level_text": "order formulas and well-formedness of FCN (fixed margin), market maker and arbitrage agents as postconditions over symbolic market states and parameters; loop invariants for the running max/min and the component basket",
    "level_note": COMMON_NOTE + "; log/exp/gauss uninterpreted (only exp > 0, monotonicity facts); market accessors abstracted to ghost functions, themselves verified under C06/C17",
    "tasks": ["FCNAgent.submit_orders_by_market", "MarketMakerAgent.get_base_price", "MarketMakerAgent.submit_orders", "ArbitrageAgent._submit_orders", "MarketShareFCNAgent.submit_orders",
              "Agent.is_market_accessible"],
    "not_decided": ["MarketShareFCNAgent: the weights (recent traded volume + 1e-10) are not specified, only that the order is the FCN order of one accessible market of the list; normal-margin mode of FCN"],
}
PROPS["C07"] = {
    "level": "other",
    "level_text": "a sufficient condition for reproducibility as effect/frame contracts: no function reads an ambient source of nondeterminism (reads-clauses over the AST, one obligation per function), generators are seeded from the owner's generator, json_extends returns a fresh dict and the expansion writes only such copies; determinism itself is a relation between two runs and is only replayed differentially",
    "level_note": "meta-theorem assumed: a CPython program whose functions satisfy the reads-clauses computes a function of its inputs and the generators it is handed; CPython, numpy, scipy themselves",
    "technique": "effect and frame contracts discharged over the AST and by VC generation (json_extends); differential double-run as bounded replay",
    "explanation": "reads-clauses for every function of pams (ambient random/numpy/time/os/id/hash/set-iteration), seed-chain, module-level state; heap-frame clause of json_extends (fresh result) proved by VC generation; syntactic frame of the settings writes; bounded differential replay across PYTHONHASHSEED values and polluted global generators",
    "tasks": ["effects:no-ambient-nondeterminism", "effects:settings-written-only-through-copies", "json_extends"],
    "bounded": [{"name": "differential double-run (hash seeds 0..2 / 0..5, polluted global generators, settings unchanged)", "replayer": "determinism", "bound": "2 (quick) / 6 (thorough) configurations x 3 / 6 interpreter runs", "timeout": 1500}],
    "not_decided": ["determinism itself (relational property): only the sufficient condition is decided"],
}
PROPS["C12"] = {
    "level": "other",
    "level_text": "partial: start value, registration, parameter setters and regeneration keep every value up to the regeneration point (loop invariant over an ASSUMED contract of the numpy-based _generate_next, pinned to its text); shock contract; the generation algebra and the zero-volatility path only by a bounded stand-in; distribution of returns not decided",
    "level_note": COMMON_NOTE + "; numpy/scipy trusted; contract of _generate_next assumed",
    "technique": "contracts + VC generation for the pure-Python part; assumed (pinned) contract and bounded run-time check for the numpy part",
    "explanation": "deductive: add_market, change_volatility, change_drift, get_fundamental_price (prefix preservation, termination variant) and Market.change_fundamental_price; assumed: contract of _generate_next; bounded: that contract, zero-volatility closed form, L.Z + drift with L.L^T = diag(vol).C.diag(vol) for both key orders of a correlation pair, again after a correlation or a volatility has been given a new value between two chunks",
    "tasks": ["Fundamentals.add_market", "Fundamentals.change_volatility", "Fundamentals.change_drift", "Fundamentals.get_fundamental_price", "Market.change_fundamental_price"],
    "bounded": [{"name": "_generate_next contract, zero-volatility path, covariance algebra", "replayer": "fundamentals", "bound": "150 (quick) / 3000 (thorough) seeded cases per clause: 1-4 markets, chunk 3/5/100, 1-6 operations", "timeout": 1500}],
    "not_decided": ["that sample log-returns have mean = drift, standard deviation = volatility and the configured correlations (a statement about numpy's standard_normal)"],
}
PROPS["C18"]["tasks"] += ["json_extends", "Simulator._add_market", "Simulator._add_agent", "Simulator._add_session",
                          "Agent.setup", "Agent.is_market_accessible", "Agent.set_market_accessible", "Agent.set_asset_volume"]
PROPS["C17"]["tasks"] += ["IndexMarket._add_markets", "IndexMarket.setup"]
PROPS["C18"]["tasks"] += ["effects:settings-written-only-through-copies"]      # counts / ranges / prefixes are consumed from COPIES: a later group that inherits them still sees them
PROPS["C05"]["tasks"] += ["Agent.update_asset_volume", "Agent.update_cash_amount", "Agent.set_asset_volume", "Agent.set_cash_amount", "Agent.get_asset_volume", "Agent.get_cash_amount"]
PROPS["C10"]["tasks"] += SKELETON
PROPS["C05"]["tasks"] += RUNNER_ELEMS
PROPS["C06"]["tasks"] += SKELETON + ["SequentialRunner._generate_sessions[session]", "Market._extract_sequential_data_by_time[prices,times]", "Market._extract_sequential_data_by_time[prices,all]",
                          "Market._extract_sequential_data_by_time[counters,times]"]
PROPS["C10"]["tasks"] += ["Logger.write", "Log.read_and_write", "Logger._process", "Logger.process"]
PROPS["C10"]["not_decided"] = []
PROPS["C04"]["tasks"] += ["Order.__init__", "Order lifetime predicates", "SequentialRunner._collect_orders_from_normal_agents[Order]", "SequentialRunner._collect_orders_from_normal_agents[Cancel]",
                          "SequentialRunner._handle_orders[hft-phase,Order]", "SequentialRunner._handle_orders[hft-phase,Cancel]"]
PROPS["C04"]["not_decided"] = []
for _p in ("C02", "C04"):
    PROPS[_p]["tasks"].append("OrderBook.__init__ establishes BookInv")
for _p in ("C04", "C06", "C08"):
    PROPS[_p]["tasks"].append("Market.__init__ + setup establish the pre-first-tick MarketInv")
# the built-in events act through the hook dispatch: their properties depend on the trigger functions and on the call sites of the triggers in the run loop
REGISTRATION = ["Simulator._add_event", "Simulator._add_event[per-key]", "Simulator._add_event[keys-distinct]", "SequentialRunner._generate_sessions[event]"]
PROPS["C13"]["tasks"].append("SequentialRunner._generate_sessions[event]")
PROPS["C14"]["tasks"] += ["FundamentalPriceShock.setup", "OrderMistakeShock.setup"]
PROPS["C10"]["tasks"] += ["IndexMarket.__init__", "SequentialRunner._generate_markets[create]"]
PROPS["C17"]["tasks"] += ["IndexMarket.__init__"]
PROPS["C12"]["tasks"] += ["SequentialRunner._generate_markets[fundamental-parameters]", "SequentialRunner._generate_markets[create]"]
PROPS["C18"]["tasks"] += ["SequentialRunner._generate_markets[fundamental-parameters]", "SequentialRunner._generate_markets[create]"]
# C07 "running does not modify the caller's settings object": every function that receives (a part of) the settings has a frame that excludes the settings maps
PROPS["C07"]["tasks"] += ["Session.setup", "Agent.setup", "FundamentalPriceShock.setup", "OrderMistakeShock.setup", "PriceLimitRule.setup", "TradingHaltRule.setup", "IndexMarket.setup",
                          "Market.__init__ + setup establish the pre-first-tick MarketInv"]
PROPS["C20"]["tasks"] += ["FCNAgent.setup", "MarketMakerAgent.setup", "ArbitrageAgent.setup", "FCNAgent.submit_orders", "ArbitrageAgent.submit_orders"]
for _p in ("C06", "C08"):
    PROPS[_p]["tasks"].append("Market accessors read their own series")
for _p in ("C09", "C11"):
    PROPS[_p]["tasks"].append("SequentialRunner._update_markets")
# later dependencies found by seeded changes (round 6): an index query is a market query (C06); the per-fill booking is what "after holdings have been updated" rests on (C11);
# a fundamental-price shock shows only through the regenerating accessor of the fundamentals (C14: task + the bounded stand-in for the assumed generator contract)
PROPS["C06"]["tasks"] = PROPS["C06"]["tasks"] + ["IndexMarket.get_index", "IndexMarket.compute_market_index", "IndexMarket.compute_fundamental_index"]
PROPS["C11"]["tasks"] = PROPS["C11"]["tasks"] + ["Simulator._update_agents_for_execution"]
PROPS["C14"]["tasks"] = PROPS["C14"]["tasks"] + ["Fundamentals.get_fundamental_price", "census:callers[fundamentals]"]
PROPS["C14"]["bounded"] = list(PROPS["C14"].get("bounded") or []) + list(PROPS["C12"]["bounded"])
PROPS["C16"]["tasks"] = PROPS["C16"]["tasks"] + ["Market._execute_orders", "Market._update_market_price"]      # the halt line is tested against the market price a fill leaves behind
for _p in ("C13", "C18"):
    PROPS[_p]["tasks"] = PROPS[_p]["tasks"] + ["Simulator.__init__[registries]"]
PROPS["C12"]["tasks"] = PROPS["C12"]["tasks"] + ["Fundamentals.get_fundamental_prices"]
for _p in ("C17", "C06"):
    PROPS[_p]["tasks"] = PROPS[_p]["tasks"] + ["IndexMarket.get_fundamental_index"]
PROPS["C18"]["tasks"] = PROPS["C18"]["tasks"] + ["SequentialRunner._setup"]
PROPS["C12"]["tasks"] = PROPS["C12"]["tasks"] + ["SequentialRunner._set_fundamental_correlation[pair]"]
PROPS["C09"]["tasks"] = PROPS["C09"]["tasks"] + ["Simulator._add_agent"]      # who is consulted in which phase is decided at registration
# round 7: the configured fundamental parameters reach the generator through the expanded group settings (C12 depends on json_extends);
# the shock events compute their trigger times from the recorded session start (C14 depends on the session generation block)
PROPS["C12"]["tasks"] = PROPS["C12"]["tasks"] + ["json_extends"]
PROPS["C14"]["tasks"] = PROPS["C14"]["tasks"] + ["SequentialRunner._generate_sessions[session]"]
# round 7: the properties of the matching core and of price rounding hold for runs only if the runner calls the market in the proved order (before-order hooks BEFORE acceptance,
# the session's execution switch consulted AFTER the hooks): the per-order blocks of _handle_orders are dependencies of C01-C04, C08, C19 as well
for _p in ("C01", "C02", "C03", "C04", "C08", "C19"):
    PROPS[_p]["tasks"] = PROPS[_p]["tasks"] + [t for t in RUNNER_ELEMS if t not in PROPS[_p]["tasks"]]
PROPS["C18"]["tasks"] = PROPS["C18"]["tasks"] + ["census:json_extends-call-sites"]
# round 8: the built-in events hand rewritten prices to `_add_order`; the side-dependent rounding happens there and nowhere else (C19 depends on what the hooks write)
PROPS["C19"]["tasks"] = PROPS["C19"]["tasks"] + ["OrderMistakeShock.hooked_before_order", "PriceLimitRule.hooked_before_order", "PriceLimitRule.get_limited_price"]
# round 8: "recorded values never change afterwards" is a frame clause of every market mutator, not only of the clock (C06 depends on the book-event mutators);
# fills are observed through the logger the market was built with (C05 depends on the index market's constructor forwarding it)
PROPS["C06"]["tasks"] = PROPS["C06"]["tasks"] + [t for t in ("Market._add_order", "Market._cancel_order", "Market._execute_orders") if t not in PROPS["C06"]["tasks"]]
PROPS["C05"]["tasks"] = PROPS["C05"]["tasks"] + ["IndexMarket.__init__"]
# round 8: "a function of the configuration and the seed and of nothing else" - also not of whether a logger is attached: the run-loop blocks are proved with and without one (C07)
PROPS["C07"]["tasks"] = PROPS["C07"]["tasks"] + [t for t in SKELETON + RUNNER_ELEMS if t not in PROPS["C07"]["tasks"]]
# round 8: the best quotes are read from the top of the heap, so "quotes describe the current book" rests on the heap invariant kept by every book operation (C08)
PROPS["C08"]["tasks"] = PROPS["C08"]["tasks"] + [t for t in ("OrderBook.add", "OrderBook.cancel", "OrderBook._remove", "OrderBook.change_order_volume", "OrderBook._check_expired_orders") if t not in PROPS["C08"]["tasks"]]
# round 8: a matching round is only started on a running market; the halt rule is the one built-in writer of that switch besides the session start (C03 depends on its gate invariant)
PROPS["C03"]["tasks"] = PROPS["C03"]["tasks"] + ["TradingHaltRule.hooked_before_step_for_market", "TradingHaltRule.hooked_after_execution"]
# round 9: a notification goes to the agent whose id the order carries, so "the right party" rests on the owner check of the collection phase (C11)
PROPS["C11"]["tasks"] = PROPS["C11"]["tasks"] + ["SequentialRunner._collect_orders_from_normal_agents[Order]", "SequentialRunner._collect_orders_from_normal_agents[Cancel]"]
# round 9: the parameters of the built-in events come from their expanded settings (C14-C16 depend on json_extends and on where the runner calls it)
for _p in ("C14", "C15", "C16"):
    PROPS[_p]["tasks"] = PROPS[_p]["tasks"] + [t for t in ("json_extends", "census:json_extends-call-sites") if t not in PROPS[_p]["tasks"]]
# round 9: "no higher than the buyer's limit" speaks about the limit the buyer SUBMITTED; it reaches the book through the side-dependent rounding of `_add_order` (C01 depends on it)
PROPS["C01"]["tasks"] = PROPS["C01"]["tasks"] + [t for t in ("Market._add_order",) if t not in PROPS["C01"]["tasks"]]
PROPS["C05"]["tasks"] = PROPS["C05"]["tasks"] + [t for t in ("Market._execute_orders",) if t not in PROPS["C05"]["tasks"]]      # every fill is reported to the logger the market holds (fills are observed through it)
# round 10: the caps a session runs with are the configured ones (C09 depends on the session generation block); the time stamps of the records come from the book operations (C10)
PROPS["C09"]["tasks"] = PROPS["C09"]["tasks"] + [t for t in ("SequentialRunner._generate_sessions[session]", "Session.setup") if t not in PROPS["C09"]["tasks"]]
PROPS["C10"]["tasks"] = PROPS["C10"]["tasks"] + [t for t in ("OrderBook.cancel", "OrderBook.add", "OrderBook._check_expired_orders", "OrderBook._set_time") if t not in PROPS["C10"]["tasks"]]
for _p in ("C01", "C04", "C06", "C08", "C17", "C19", "C20"):
    PROPS[_p]["tasks"] = PROPS[_p]["tasks"] + ["census:overrides"]      # the proofs about Market / Agent methods cover the subclasses of pams only while these do not redefine them
# round 10: IndexMarket.setup is proved for lists of registered market names; what it does with other entries (group names, repetitions) is only checked within a bound
PROPS["C17"]["bounded"] = list(PROPS["C17"].get("bounded") or []) + [
    {"name": "index set-up names, component registration and index values on the real classes", "replayer": "index",
     "bound": "7 set-up name lists (names, group names, repetitions), all registration sequences over 3 markets up to length 3, 40 (quick) / 400 (thorough) seeded clock histories of 3 steps", "timeout": 600}]
from .census import CALLERS as _CALLERS
for _g, (_ps, _r, _t) in _CALLERS.items():
    for _p in _ps:
        PROPS[_p]["tasks"].append(f"census:callers[{_g}]")
for _p in ("C07", "C13", "C15", "C16", "C18"):
    PROPS[_p]["tasks"].append("effects:no-shared-mutable-state")
PROPS["C15"]["tasks"] += ["PriceLimitRule.setup"]
PROPS["C16"]["tasks"] += ["TradingHaltRule.setup", "TradingHaltRule.hook_registration"]
PROPS["C13"]["tasks"] += ["TradingHaltRule.hook_registration"]
PROPS["C14"]["tasks"] += ["Simulator._trigger_event_before_step_for_market", "Simulator._trigger_event_before_order", "SequentialRunner._iterate_market_updates[step]"] + RUNNER_ELEMS + REGISTRATION
PROPS["C15"]["tasks"] += ["Simulator._trigger_event_before_order"] + RUNNER_ELEMS + REGISTRATION
PROPS["C16"]["tasks"] += ["Simulator._trigger_event_after_execution", "Simulator._trigger_event_before_step_for_market", "SequentialRunner._iterate_market_updates[step]"] + RUNNER_ELEMS + REGISTRATION
for _p in ("C01", "C02", "C03", "C04", "C05", "C06", "C08", "C09", "C13", "C16"):
    PROPS[_p]["tasks"].append("census:writers")
for k in PROPS:
    NOT_CLAIMED.pop(k, None)
