"""Logger under contract (C10): write appends to the pending list; _process hands the pending list to process() in order and empties it; process() dispatches every record
to exactly one process_* method (the record classes are pairwise unrelated); step records go through write_and_direct_process (synchronous)."""
import ast
import z3

from pyvc.core import *   # noqa
from pyvc.spec import FSpec, ForEachTrace, task, emit, ELEM, implied
from pyvc.src import get_src

LOG_CLASSES = ["OrderLog", "CancelLog", "ExpirationLog", "ExecutionLog", "SimulationBeginLog", "SimulationEndLog", "SessionBeginLog", "SessionEndLog", "MarketStepBeginLog", "MarketStepEndLog"]
METHOD = {"OrderLog": "process_order_log", "CancelLog": "process_cancel_log", "ExpirationLog": "process_expiration_log", "ExecutionLog": "process_execution_log",
          "SimulationBeginLog": "process_simulation_begin_log", "SimulationEndLog": "process_simulation_end_log", "SessionBeginLog": "process_session_begin_log",
          "SessionEndLog": "process_session_end_log", "MarketStepBeginLog": "process_market_step_begin_log", "MarketStepEndLog": "process_market_step_end_log"}


def w_post(st0, st1, a, res):
    lg, log = a["self"], a["log"]
    pl = st0.read(lg, "pending_logs").term
    i = z3.Int("i_w")
    n0 = st0.length(pl)
    return [("C10 the record is appended to the pending list: same earlier records, this one last", z3.And(st1.read(lg, "pending_logs").term == pl, st1.length(pl) == n0 + 1,
             z3.Select(st1.elems(pl, ("ref", "Log")), n0) == log.term,
             z3.ForAll([i], z3.Implies(z3.And(0 <= i, i < n0), z3.Select(st1.elems(pl, ("ref", "Log")), i) == z3.Select(st0.elems(pl, ("ref", "Log")), i)))))]


LOGGER_WRITE = FSpec("Logger.write", post=w_post, props=("C10",), pre=lambda st, a: [("len >= 0", st.length(st.read(a["self"], "pending_logs").term) >= 0)],
                     modifies=lambda st, a: [(k, [st.read(a["self"], "pending_logs").term]) for k in ("len", "mem", "el:Ref", "nodup", "heapok")])


@task("Logger.write", props=["C10"], functions=["Logger.write"], replay="whole_run")
def t_logger_write():
    obl, info = LOGGER_WRITE.verify()
    return {"obligations": obl, "info": [info]}


@task("Log.read_and_write", props=["C10"], functions=["Log.read_and_write", "Log.read_and_write_with_direct_process", "Logger.write_and_direct_process"], replay="whole_run")
def t_log_raw():
    """Log.read_and_write(logger) is exactly logger.write(log); the step-record variant is exactly logger.process([log]) (synchronous delivery)"""
    spec = FSpec("Log.read_and_write", props=("C10",), trace=lambda st0, st1, a, res: [("LoggerWrite", None, (a["logger"].term, a["self"].term))])
    obl, info = spec.verify(specs={("m", "Logger", "write"): emit("LoggerWrite")})
    spec2 = FSpec("Log.read_and_write_with_direct_process", props=("C10",))

    def extra(ex, st0, s1, a, res):
        tr = s1.trace
        if [t[0] for t in tr] != ["Process"]:
            s1.oblige(f"trace:one synchronous process() call (got {[t[0] for t in tr]})", z3.BoolVal(False), "trace"); return
        lst = tr[0][2][1]
        s1.oblige("trace:C10 a step record is processed at once: process() is called on the one-element list holding this record",
                  z3.And(tr[0][2][0] == a["logger"].term, s1.length(lst) == 1, z3.Select(s1.elems(lst, ("ref", "Log")), 0) == a["self"].term), "trace")
    obl2, info2 = spec2.verify(specs={("m", "Logger", "process"): emit("Process")}, extra_goals=extra)
    return {"obligations": obl + obl2, "info": [info, info2]}


@task("Logger._process", props=["C10"], functions=["Logger._process"], replay="whole_run")
def t_logger_flush():
    """a flush hands exactly the pending list to process() and leaves an empty pending list"""
    spec = FSpec("Logger._process", props=("C10",), modifies=lambda st, a: [("f:Logger.pending_logs", [a["self"].term]), "len", "mem", "nodup", "el:Ref", "heapok"])

    def extra(ex, st0, s1, a, res):
        tr = s1.trace
        ok = [t[0] for t in tr] == ["Process"]
        s1.oblige("trace:exactly one process() call per flush", z3.BoolVal(ok), "trace")
        if ok:
            s1.oblige("trace:C10 the records handed over are exactly the pending records, in order (the pending list itself)", z3.And(tr[0][2][0] == a["self"].term, tr[0][2][1] == st0.read(a["self"], "pending_logs").term), "trace")
        s1.oblige("post:the pending list is a new empty list afterwards", z3.And(s1.length(s1.read(a["self"], "pending_logs").term) == 0, z3.Not(st0.is_alloc(s1.read(a["self"], "pending_logs").term))), "post")
    obl, info = spec.verify(specs={("m", "Logger", "process"): emit("Process")}, extra_goals=extra)
    return {"obligations": obl, "info": [info]}


@task("Logger.process", props=["C10"], functions=["Logger.process"], replay="whole_run")
def t_logger_dispatch():
    """every record of the list is dispatched, in list order, to exactly the process_* method of its class"""
    src = get_src()
    spec = FSpec("Logger.process", props=("C10",), param_types={"logs": ("list", ("ref", "Log"))})
    spec.may_raise = {"NotImplementedError": lambda st, a: z3.BoolVal(True)}
    specs = {("m", "Logger", m): emit("Dispatch:" + c) for c, m in METHOD.items()}

    def extra(ex, st0, s1, a, res):
        tr = s1.trace
        if [t[0] for t in tr] != ["ForEach"]:
            s1.oblige(f"trace:one pass over the records (got {[t[0] for t in tr]})", z3.BoolVal(False), "trace"); return
        seq, tmpl = tr[0][2]
        s1.oblige("trace:the pass ranges over the given list", seq == a["logs"].term, "trace")
        for c in LOG_CLASSES:
            only_c = z3.And(is_instance(c, ELEM), *[z3.Not(is_instance(d_, ELEM)) for d_ in LOG_CLASSES if d_ != c])
            hits = [t for t in tmpl if t[1] is None or not implied([only_c], z3.Not(t[1]))]
            good = len(hits) == 1 and hits[0][0] == "Dispatch:" + c
            s1.oblige(f"trace:C10 a {c} is handed to {METHOD[c]} and to nothing else (got {[t[0] for t in hits]})", z3.BoolVal(good), "trace")
            if good:
                s1.oblige(f"trace:{METHOD[c]} receives this logger's call with the record itself", z3.Implies(only_c, z3.And(hits[0][2][0] == a["self"].term, hits[0][2][1] == ELEM)), "trace")
    obl, info = spec.verify(loops={0: ForEachTrace(name="records")}, specs=specs, extra_goals=extra)
    # the record classes are pairwise unrelated, so an object is an instance of exactly one of them
    for c in LOG_CLASSES:
        others = [d_ for d_ in LOG_CLASSES if d_ != c and (c in src.mro(d_) or d_ in src.mro(c))]
        obl.append({"name": f"Logger.process/hierarchy:{c} is unrelated to the other record classes" + ("" if not others else f" -- related to {others}"), "pc": [], "goal": z3.BoolVal(not others), "kind": "census"})
    return {"obligations": obl, "info": [info]}
