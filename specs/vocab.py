"""Shared specification vocabulary (DESIGN.md section 3): series well-formedness, order rank, BookInv, MarketInv pieces."""
import z3

from pyvc.core import *   # noqa

SERIES = [("_market_prices", ("opt", ("real",))), ("_mid_prices", ("opt", ("real",))), ("_last_executed_prices", ("opt", ("real",))),
          ("_fundamental_prices", ("opt", ("real",))), ("_executed_volumes", ("int",)), ("_executed_total_prices", ("real",)),
          ("_n_buy_orders", ("int",)), ("_n_sell_orders", ("int",))]
SERIES_TY = dict(SERIES)


def series_ref(st, m, name):
    return st.read(m, name).term


def series_refs(st, m):
    return [series_ref(st, m, n) for n, _ in SERIES]


def cell(st, m, name, t):
    """value (V, possibly optional) of series `name` of market m at index t; no obligations"""
    s = st.peek()
    return s.list_get(V(("list", SERIES_TY[name]), series_ref(st, m, name)), V(("int",), t))


def series_wf(st, m, min_time=0):
    """clock and storage shape after the first tick: time >= min_time, the eight series are distinct lists longer than time"""
    t = st.read(m, "time").term
    refs = series_refs(st, m)
    cs = [("clock>=%d" % min_time, t >= min_time), ("series-distinct", z3.Distinct(*refs))]
    for (n, _), r in zip(SERIES, refs):
        cs.append((f"len({n})>time", st.length(r) > t))
    return cs


def books(st, m):
    bb, sb = st.read(m, "buy_order_book"), st.read(m, "sell_order_book")
    return bb, sb


def queue(st, book):
    return st.read(book, "priority_queue")


def O(st, f, part="val"):
    return st.F("Order", f, part)


def tie(st, a, b):
    pat, oid = O(st, "placed_at"), O(st, "order_id")
    return z3.Or(pat[a] < pat[b], z3.And(pat[a] == pat[b], oid[a] < oid[b]))


def before(st, a, b, is_buy):
    """rank order of accepted orders of one side (DESIGN 3.1): market first, better price, earlier, lower id"""
    pr, prn = O(st, "price"), O(st, "price", "none")
    better = (pr[a] > pr[b]) if is_buy is True else ((pr[a] < pr[b]) if is_buy is False else z3.If(is_buy, pr[a] > pr[b], pr[a] < pr[b]))
    return z3.If(z3.And(prn[a], prn[b]), tie(st, a, b), z3.If(prn[a], True, z3.If(prn[b], False, z3.If(pr[a] != pr[b], better, tie(st, a, b)))))


def wf_order(st, x):
    """WF(o) of an accepted order: placed, id assigned, kind/price agree, volume >= 1"""
    return z3.And(z3.Not(O(st, "placed_at", "none")[x]), z3.Not(O(st, "order_id", "none")[x]), O(st, "volume")[x] >= 1,
                  (O(st, "kind")[x] == 0) == O(st, "price", "none")[x], z3.Or(O(st, "kind")[x] == 0, O(st, "kind")[x] == 1))
