"""Shared specification vocabulary (DESIGN.md section 3): series well-formedness, order rank, BookInv, MarketInv pieces."""
import z3

from pyvc.core import *   # noqa

SERIES = [("_market_prices", ("opt", ("real",))), ("_mid_prices", ("opt", ("real",))), ("_last_executed_prices", ("opt", ("real",))),
          ("_fundamental_prices", ("opt", ("real",))), ("_executed_volumes", ("int",)), ("_executed_total_prices", ("real",)),
          ("_n_buy_orders", ("int",)), ("_n_sell_orders", ("int",))]
SERIES_TY = dict(SERIES)


def series_ref(st, m, name):
    return st.read(m, name).term


def series_refs(st, m):
    return [series_ref(st, m, n) for n, _ in SERIES]


def cell(st, m, name, t):
    """value (V, possibly optional) of series `name` of market m at index t; no obligations"""
    s = st.peek()
    return s.list_get(V(("list", SERIES_TY[name]), series_ref(st, m, name)), V(("int",), t))


def series_wf(st, m, min_time=0):
    """clock and storage shape after the first tick: time >= min_time, the eight series are distinct lists longer than time"""
    t = st.read(m, "time").term
    refs = series_refs(st, m)
    cs = [("clock>=%d" % min_time, t >= min_time), ("series-distinct", z3.Distinct(*refs)), ("series-allocated", z3.And(*[st.is_alloc(r) for r in refs]))]
    for (n, ety), r in zip(SERIES, refs):
        cs.append((f"len({n})>time", st.length(r, ety) > t))
    return cs


def books(st, m):
    bb, sb = st.read(m, "buy_order_book"), st.read(m, "sell_order_book")
    return bb, sb


def queue(st, book):
    return st.read(book, "priority_queue")


def O(st, f, part="val"):
    return st.F("Order", f, part)


def tie(st, a, b):
    pat, oid = O(st, "placed_at"), O(st, "order_id")
    return z3.Or(pat[a] < pat[b], z3.And(pat[a] == pat[b], oid[a] < oid[b]))


def before(st, a, b, is_buy):
    """rank order of accepted orders of one side (DESIGN 3.1): market first, better price, earlier, lower id"""
    pr, prn = O(st, "price"), O(st, "price", "none")
    better = (pr[a] > pr[b]) if is_buy is True else ((pr[a] < pr[b]) if is_buy is False else z3.If(is_buy, pr[a] > pr[b], pr[a] < pr[b]))
    return z3.If(z3.And(prn[a], prn[b]), tie(st, a, b), z3.If(prn[a], True, z3.If(prn[b], False, z3.If(pr[a] != pr[b], better, tie(st, a, b)))))


def wf_order(st, x):
    """WF(o) of an accepted order: placed, id assigned, kind/price agree, volume >= 1"""
    return z3.And(z3.Not(O(st, "placed_at", "none")[x]), z3.Not(O(st, "order_id", "none")[x]), O(st, "volume")[x] >= 1,
                  (O(st, "kind")[x] == 0) == O(st, "price", "none")[x], z3.Or(O(st, "kind")[x] == 0, O(st, "kind")[x] == 1))


# ----------------------------------------------------------------------------- BookInv (DESIGN 3.2) over the collection views
def etl(st, book):
    return st.read(book, "expire_time_list")


def bucket_dom(st, book, k):
    return z3.Select(st.dict_dom(etl(st, book)), k)


def bucket_list(st, book, k):
    return z3.Select(st.dict_val(etl(st, book)), k)


def exp_key(st, x):
    return O(st, "placed_at")[x] + O(st, "ttl")[x]


def top_min(st, q, is_buy):
    """heap order seen through the views: q[0] is a member and precedes every other member"""
    y = z3.Const("y_top", REF)
    top = z3.Select(st.elems(q, ("ref", "Order")), 0)
    return z3.Implies(st.length(q) > 0, z3.And(st.mem(q, top), z3.ForAll([y], z3.Implies(z3.And(st.mem(q, y), y != top), before(st, top, y, is_buy)))))


def book_inv(st, book, tag=""):
    x, y, k, k2 = z3.Consts("x_bi y_bi k_bi k2_bi", REF)
    q = queue(st, book).term
    side = st.read(book, "is_buy").term
    time = st.read(book, "time").term
    ttln = O(st, "ttl", "none")
    mem = lambda o: st.mem(q, o)
    cs = [("B0 queue and bucket lists duplicate-free", z3.And(st.nodup(q), z3.ForAll([k], z3.Implies(bucket_dom(st, book, k), st.nodup(bucket_list(st, book, k)))))),
          ("B1 members are well-formed accepted orders of this side, not cancelled, placed no later than now",
           z3.ForAll([x], z3.Implies(mem(x), z3.And(wf_order(st, x), O(st, "is_buy")[x] == side, z3.Not(O(st, "is_canceled")[x]), O(st, "placed_at")[x] <= time,
                                                     z3.Implies(z3.Not(ttln[x]), O(st, "ttl")[x] >= 1))))),
          ("B2 order ids pairwise distinct", z3.ForAll([x, y], z3.Implies(z3.And(mem(x), mem(y), x != y), O(st, "order_id")[x] != O(st, "order_id")[y]))),
          ("B3 heap shape", st.heapok(q)),
          ("B3 top is minimal", top_min(st, q, side)),
          ("B4a resting order with ttl is indexed under placed_at+ttl", z3.ForAll([x], z3.Implies(z3.And(mem(x), z3.Not(ttln[x])),
                z3.And(bucket_dom(st, book, exp_key(st, x)), st.mem(bucket_list(st, book, exp_key(st, x)), x))))),
          ("B4b expiry index holds only resting orders under their own key", z3.ForAll([k, x], z3.Implies(z3.And(bucket_dom(st, book, k), st.mem(bucket_list(st, book, k), x)),
                z3.And(mem(x), z3.Not(ttln[x]), exp_key(st, x) == k)))),
          ("B5 nothing overdue rests", z3.ForAll([x], z3.Implies(z3.And(mem(x), z3.Not(ttln[x])), exp_key(st, x) >= time))),
          ("B6 queue and bucket lists are allocated objects", z3.And(st.is_alloc(q), st.is_alloc(etl(st, book).term),
              z3.ForAll([k], z3.Implies(bucket_dom(st, book, k), st.is_alloc(bucket_list(st, book, k)))),
              z3.ForAll([x], z3.Implies(mem(x), st.is_alloc(x))))),
          ("B6 separation: bucket lists are not the queue and pairwise distinct", z3.And(
              z3.ForAll([k], z3.Implies(bucket_dom(st, book, k), bucket_list(st, book, k) != q)),
              z3.ForAll([k, k2], z3.Implies(z3.And(bucket_dom(st, book, k), bucket_dom(st, book, k2), k != k2), bucket_list(st, book, k) != bucket_list(st, book, k2)))))]
    return [(tag + l, f) for l, f in cs]


def book_inv_step(st0, st1, book, tag="BookInv' "):
    """BookInv after a book operation, plus the separation fact every caller needs: a bucket list after the operation is the
    bucket list that was stored under the same key before, or an object that did not exist before the operation"""
    k = z3.Const("k_bis", z3.IntSort())
    return book_inv(st1, book, tag) + [
        (tag + "B7 bucket lists are the previous ones (same key) or new objects",
         z3.ForAll([k], z3.Implies(bucket_dom(st1, book, k), z3.Or(z3.And(bucket_dom(st0, book, k), bucket_list(st1, book, k) == bucket_list(st0, book, k)),
                                                                    z3.Not(st0.is_alloc(bucket_list(st1, book, k)))))))]


def heap_order_hook(ex, st, q, popped, op):
    """trusted heapq contract, stated over the views: after heapify/heappush/heappop the top precedes all other members;
    heappop returns an element that precedes every remaining member. Meaningful because Order.__lt__ is a strict total order on
    well-formed accepted orders of one side with distinct ids (task Order.compare) -- those member facts are obligations here."""
    if q.ty[1] != ("ref", "Order"):
        return
    qt = q.term
    x, y = z3.Consts("x_ho y_ho", REF)
    if popped is not None:
        side = O(st, "is_buy")[popped.term]
        st.assume(z3.ForAll([y], z3.Implies(st.mem(qt, y), before(st, popped.term, y, side))))
        st.assume(top_min(st, qt, side))       # the remainder is still a heap
    else:
        top = z3.Select(st.elems(qt, ("ref", "Order")), 0)
        st.assume(top_min(st, qt, O(st, "is_buy")[top]))


def book_axioms(st, book):
    """facts about real Python lists seen through the views (assumed, not invariants): len >= 0; for a duplicate-free list len == 0 <=> no member"""
    q = queue(st, book).term
    x = z3.Const("x_bax", REF); n = st.length(q)
    return [n >= 0, z3.Implies(st.nodup(q), z3.And(z3.Implies(n == 0, z3.ForAll([x], z3.Not(st.mem(q, x)))), z3.Implies(z3.ForAll([x], z3.Not(st.mem(q, x))), n == 0)))]
