"""Market mutators under contract: _add_order (C19, C04, C08, C10), _cancel_order, _execute_orders, _update_time/_fill_until (C06)."""
import z3

from pyvc.core import *   # noqa
from pyvc.spec import FSpec, LoopSpec, ForEachTrace, task, emit, event
from .vocab import *      # noqa
from . import book as B
from .market_price import UPDATE_MARKET_PRICE

WRITE = emit("Write")            # Log.read_and_write(logger): one record handed to the logger (trace event Write(log, logger))


def book_list_refs_disjoint(st, b1, b2):
    k, k2 = z3.Ints("k_m2 k2_m2")
    q1, q2 = queue(st, b1).term, queue(st, b2).term
    return z3.And(q1 != q2, etl(st, b1).term != etl(st, b2).term,
                  z3.ForAll([k], z3.Implies(bucket_dom(st, b1, k), bucket_list(st, b1, k) != q2)),
                  z3.ForAll([k], z3.Implies(bucket_dom(st, b2, k), bucket_list(st, b2, k) != q1)),
                  z3.ForAll([k, k2], z3.Implies(z3.And(bucket_dom(st, b1, k), bucket_dom(st, b2, k2)), bucket_list(st, b1, k) != bucket_list(st, b2, k2))))


def market_inv(st, m, series=True, skip=()):
    bb, sb = books(st, m)
    qB, qS = queue(st, bb).term, queue(st, sb).term
    x, y = z3.Consts("x_mi y_mi", REF)
    t = st.read(m, "time").term
    cs = []
    if series:
        cs += series_wf(st, m, 0)
    cs += [("M1 two distinct books, buy and sell, on the market clock",
            z3.And(bb.term != sb.term, st.read(bb, "is_buy").term, z3.Not(st.read(sb, "is_buy").term), st.read(bb, "time").term == t, st.read(sb, "time").term == t))]
    cs += book_inv(st, bb, "buy:") + book_inv(st, sb, "sell:")
    d = book_list_refs_disjoint(st, bb, sb)
    cs += [(f"M2 the lists of the two books are separate objects ({w})", d.arg(i)) for i, w in enumerate(("queues", "expiry maps", "buy buckets vs sell queue", "sell buckets vs buy queue", "buckets"))]
    cs += [
           ("M3 resting orders belong to this market and carry ids below the next id",
            z3.ForAll([x], z3.Implies(z3.Or(st.mem(qB, x), st.mem(qS, x)), z3.And(O(st, "market_id")[x] == st.read(m, "market_id").term,
                                                                                     O(st, "order_id")[x] < st.read(m, "_next_order_id").term)))),
           ("M4 ids are distinct across the two books", z3.ForAll([x, y], z3.Implies(z3.And(st.mem(qB, x), st.mem(qS, y)), O(st, "order_id")[x] != O(st, "order_id")[y])))]
    return [(l, f) for l, f in cs if not any(l.startswith(s) for s in skip)]


def market_axioms(st, m):
    bb, sb = books(st, m)
    return book_axioms(st, bb) + book_axioms(st, sb)


# ----------------------------------------------------------------------------- _add_order
def ao_pre(st, a):
    m, o = a["self"], a["order"]; ot = o.term
    return market_inv(st, m) + [
        ("tick size positive", st.read(m, "tick_size").term > 0),
        ("order is a valid Order object (constructor conditions), not cancelled",
         z3.And(O(st, "volume")[ot] >= 1, (O(st, "kind")[ot] == 0) == O(st, "price", "none")[ot], z3.Or(O(st, "kind")[ot] == 0, O(st, "kind")[ot] == 1),
                z3.Or(O(st, "ttl", "none")[ot], O(st, "ttl")[ot] >= 1), z3.Not(O(st, "is_canceled")[ot])))]


def ao_raises(st, a):
    m, o = a["self"], a["order"]; ot = o.term
    return z3.Or(O(st, "market_id")[ot] != st.read(m, "market_id").term, z3.Not(O(st, "placed_at", "none")[ot]), z3.Not(O(st, "order_id", "none")[ot]))


def ao_modifies(st, a):
    m, o = a["self"], a["order"]; ot = o.term
    bb, sb = books(st, m)
    t = st.read(m, "time").term
    key = t + O(st, "ttl")[ot]
    ls = B.book_lists(st, bb, [key]) + B.book_lists(st, sb, [key])
    ser = [series_ref(st, m, n) for n in ("_mid_prices", "_market_prices")]
    cnt = [series_ref(st, m, n) for n in ("_n_buy_orders", "_n_sell_orders")]
    return [("f:Order.price", [ot]), ("f:Order.order_id", [ot]), ("f:Order.placed_at", [ot]), ("f:Market._next_order_id", [m.term]),
            ("len", ls), ("mem", ls), ("el:Ref", ls), ("heapok", ls), ("nodup", ls),
            ("dd:Int_Ref", [etl(st, bb).term, etl(st, sb).term]), ("dv:Int_Ref", [etl(st, bb).term, etl(st, sb).term]),
            ("el:Real", ser), ("el:Real?", ser), ("el:Int", cnt)] + [("f:OrderLog." + f, []) for f in ("order_id", "market_id", "time", "agent_id", "is_buy", "kind", "price", "volume", "ttl")]


def rounding_clauses(st0, st1, m, ot):
    p0n, p0 = O(st0, "price", "none")[ot], O(st0, "price")[ot]
    p1n, p1 = O(st1, "price", "none")[ot], O(st1, "price")[ot]
    tick = st0.read(m, "tick_size").term; buy = O(st0, "is_buy")[ot]
    k = z3.Int("k_grid")
    return [("C19 market order keeps price None", p1n == p0n),
            ("C19 buy limit price rounds down by less than one tick", z3.Implies(z3.And(z3.Not(p0n), buy), z3.And(p1 <= p0, p0 - p1 < tick))),
            ("C19 sell limit price rounds up by less than one tick", z3.Implies(z3.And(z3.Not(p0n), z3.Not(buy)), z3.And(p1 >= p0, p1 - p0 < tick))),
            ("C19 accepted price is on the tick grid", z3.Implies(z3.Not(p0n), z3.Exists([k], p1 == z3.ToReal(k) * tick))),
            # k_grid0 is a free constant: the clause is proved for an arbitrary grid index (same as quantifying over it)
            ("C19 a price on the grid is accepted unchanged", z3.Implies(z3.And(z3.Not(p0n), p0 == z3.ToReal(K_GRID) * tick), p1 == p0))]


K_GRID = z3.Int("k_grid0")


def ao_post(st0, st1, a, res):
    m, o = a["self"], a["order"]; ot = o.term
    bb, sb = books(st0, m)
    qB, qS = queue(st0, bb).term, queue(st0, sb).term
    y = z3.Const("y_ao", REF)
    t = st0.read(m, "time").term
    buy = O(st0, "is_buy")[ot]
    L = lambda f, part="val": st1.F("OrderLog", f, part)
    lg = res.term
    nb0, nb1 = cell(st0, m, "_n_buy_orders", t).term, cell(st1, m, "_n_buy_orders", t).term
    ns0, ns1 = cell(st0, m, "_n_sell_orders", t).term, cell(st1, m, "_n_sell_orders", t).term
    out = rounding_clauses(st0, st1, m, ot)
    out += [("C04 fresh id, next id advanced, placed now",
             z3.And(z3.Not(O(st1, "order_id", "none")[ot]), O(st1, "order_id")[ot] == st0.read(m, "_next_order_id").term,
                    st1.read(m, "_next_order_id").term == st0.read(m, "_next_order_id").term + 1,
                    z3.Not(O(st1, "placed_at", "none")[ot]), O(st1, "placed_at")[ot] == t)),
            ("C04 the order rests on its side; the other side and all other orders are untouched",
             z3.And(z3.ForAll([y], st1.mem(qB, y) == z3.Or(st0.mem(qB, y), z3.And(buy, y == ot))),
                    z3.ForAll([y], st1.mem(qS, y) == z3.Or(st0.mem(qS, y), z3.And(z3.Not(buy), y == ot))))),
            ("C08 per-step order counters: +1 on the order's side only", z3.And(nb1 == nb0 + z3.If(buy, 1, 0), ns1 == ns0 + z3.If(buy, 0, 1))),
            ("C10 the returned OrderLog carries the accepted order's values",
             z3.And(L("order_id")[lg] == O(st1, "order_id")[ot], L("market_id")[lg] == O(st0, "market_id")[ot], L("time")[lg] == t,
                    L("agent_id")[lg] == O(st0, "agent_id")[ot], L("is_buy")[lg] == buy, L("kind")[lg] == O(st0, "kind")[ot], L("volume")[lg] == O(st0, "volume")[ot],
                    L("price", "none")[lg] == O(st1, "price", "none")[ot], z3.Implies(z3.Not(O(st1, "price", "none")[ot]), L("price")[lg] == O(st1, "price")[ot]),
                    L("ttl", "none")[lg] == O(st0, "ttl", "none")[ot], z3.Implies(z3.Not(O(st0, "ttl", "none")[ot]), L("ttl")[lg] == O(st0, "ttl")[ot]),
                    z3.Not(st0.is_alloc(lg)))),
            ("market objects unchanged", z3.And(books(st1, m)[0].term == bb.term, books(st1, m)[1].term == sb.term, st1.read(m, "time").term == t,
                                                queue(st1, bb).term == qB, queue(st1, sb).term == qS))]
    out += price_refresh_clauses(st0, st1, m)
    out += market_inv(st1, m)
    return out


def price_refresh_clauses(st0, st1, m, le_from=None):
    """what a trailing `_update_market_price()` leaves in slot `time` (C08), stated over the FINAL book"""
    from .market_price import best_price_view
    t = st0.read(m, "time").term
    bb, sb = books(st1, m)
    nb, pb = best_price_view(st1, bb); ns, ps = best_price_view(st1, sb)
    both = z3.And(nb, ns, z3.Not(pb.none), z3.Not(ps.none))
    mid1 = cell(st1, m, "_mid_prices", t); mp1 = cell(st1, m, "_market_prices", t); mp0 = cell(st0, m, "_market_prices", t)
    le = cell(le_from or st1, m, "_last_executed_prices", t)
    running = st0.read(m, "_is_running").term
    exp_none = z3.If(running, z3.If(z3.Not(le.none), False, z3.If(z3.Not(mid1.none), False, mp0.none)), mp0.none)
    exp_val = z3.If(running, z3.If(z3.Not(le.none), le.term, z3.If(z3.Not(mid1.none), mid1.term, mp0.term)), mp0.term)
    return [("C08 mid refreshed from the resulting book", z3.If(both, z3.And(z3.Not(mid1.none), mid1.term == (ps.term + pb.term) / 2), mid1.none)),
            ("C08 market price = last trade, else mid, else previous; unchanged when not running", z3.And(mp1.none == exp_none, z3.Implies(z3.Not(exp_none), mp1.term == exp_val)))]


def ao_trace(st0, st1, a, res):
    m = a["self"]
    lg = st0.read(m, "logger")
    return [event("Write", res, V(("ref", "Logger"), lg.term), guard=z3.Not(lg.none))]


def grid_division_lemma(st, a):
    """instance of the lemma `t > 0 and k*t == p  =>  p/t == k` (proved as obligation `lemma:grid-division` of this task) for the order's
    price and the market's tick size: the solver does not find this nonlinear cancellation by itself within a load-independent budget"""
    ot = a["order"].term
    p = O(st, "price")[ot]; t = st.read(a["self"], "tick_size").term
    return [z3.Implies(z3.And(t > 0, z3.ToReal(K_GRID) * t == p), RDIV(p, t) == z3.ToReal(K_GRID))]


ADD_ORDER = FSpec("Market._add_order", axioms=lambda st, a: market_axioms(st, a["self"]) + grid_division_lemma(st, a), pre=ao_pre, post=ao_post, modifies=ao_modifies,
                  raises={"ValueError": ao_raises}, trace=ao_trace, fresh_result=True, props=("C19", "C04", "C08", "C10"))


def market_callee_specs():
    return {("m", "OrderBook", "add"): B.ADD.handler(), ("m", "OrderBook", "cancel"): B.CANCEL.handler(),
            ("m", "OrderBook", "change_order_volume"): B.CHANGE_VOLUME.handler(), ("m", "OrderBook", "_set_time"): B.SET_TIME.handler(),
            ("m", "Market", "_update_market_price"): UPDATE_MARKET_PRICE.handler(),
            ("m", "Log", "read_and_write"): WRITE}


@task("Market._add_order", props=["C19", "C04", "C08", "C10", "C02"], functions=["Market._add_order", "Market.convert_to_tick_level",
      "Market.convert_to_tick_level_rounded_lower", "Market.convert_to_tick_level_rounded_upper", "OrderLog.__init__"], replay="market_ops", heavy=True)
def t_add_order():
    obl, info = ADD_ORDER.verify(specs=market_callee_specs(), setup=B.setup_book)
    p, t, q = z3.Reals("p_gdl t_gdl q_gdl"); k = z3.Int("k_gdl0")
    obl.append({"name": "Market._add_order/lemma:grid-division t > 0, q*t == p, k*t == p => q == k", "pc": [t > 0, q * t == p, z3.ToReal(k) * t == p], "goal": q == z3.ToReal(k), "kind": "lemma"})
    return {"obligations": obl, "info": [info]}


# ----------------------------------------------------------------------------- _fill_until (C06: storage grows in chunks, filled slots untouched)
def series_same_len(st, m):
    refs = series_refs(st, m)
    n0 = st.length(refs[0], SERIES[0][1])
    return z3.And(*[st.length(r, ety) == n0 for (nm, ety), r in zip(SERIES[1:], refs[1:])])


def fu_pre(st, a):
    m = a["self"]
    refs = series_refs(st, m)
    nmid = st.length(series_ref(st, m, "_mid_prices"), ("real",))
    return [("chunk size positive", st.read(m, "chunk_size").term > 0), ("time >= 0", a["time"].term >= 0),
            ("the eight series are distinct lists, none shorter than the mid-price series",
             z3.And(z3.Distinct(*refs), nmid >= 0, *[st.length(r, ety) >= nmid for (nm, ety), r in zip(SERIES, refs)])),
            ("the eight series are allocated lists", z3.And(*[st.is_alloc(r) for r in refs]))]


def series_prefix_kept(st0, st1, m, upto=None):
    """for each series: the old content is a prefix of the new one (value and None-flag)"""
    i = z3.Int("i_pref"); cs = []
    for nm, ety in SERIES:
        r0, r1 = series_ref(st0, m, nm), series_ref(st1, m, nm)
        n0 = st0.length(r0, ety) if upto is None else upto
        same = z3.Select(st1.elems(r1, ety), i) == z3.Select(st0.elems(r0, ety), i)
        if ety[0] == "opt":
            same = z3.And(same, z3.Select(st1.elems(r1, ety, "none"), i) == z3.Select(st0.elems(r0, ety, "none"), i))
        cs.append((f"recorded values of {nm} are kept", z3.ForAll([i], z3.Implies(z3.And(0 <= i, i < n0), same))))
    return cs


def fu_post(st0, st1, a, res):
    m = a["self"]; t = a["time"].term
    i = z3.Int("i_fu"); cs = []
    nmid = st0.length(series_ref(st0, m, "_mid_prices"), ("real",))
    short = nmid < t + 1
    c = st0.read(m, "chunk_size").term
    L = (t / c + 1) * c
    for nm, ety in SERIES:
        r0, r1 = series_ref(st0, m, nm), series_ref(st1, m, nm)
        n0, n1 = st0.length(r0, ety), st1.length(r1, ety)
        cs.append((f"{nm}: long enough, never shorter; grows to the chunk boundary only when the mid series is too short",
                   z3.And(n1 >= t + 1, n1 >= n0, n1 == z3.If(short, z3.If(L > n0, L, n0), n0))))
        fresh_slot = z3.Select(st1.elems(r1, ety, "none"), i) if ety[0] == "opt" else (z3.Select(st1.elems(r1, ety), i) == 0)
        cs.append((f"{nm}: new slots are empty (None / 0)", z3.ForAll([i], z3.Implies(z3.And(n0 <= i, i < n1), fresh_slot))))
        cs.append((f"{nm}: storage is either the old list or a new object", z3.Or(r1 == r0, z3.Not(st0.is_alloc(r1)))))
    cs.append(("the eight series stay distinct lists", z3.Distinct(*series_refs(st1, m))))
    cs.append(("the eight series are allocated lists", z3.And(*[st1.is_alloc(r) for r in series_refs(st1, m)])))
    return cs + series_prefix_kept(st0, st1, m)


FILL_UNTIL = FSpec("Market._fill_until", pre=fu_pre, post=fu_post, props=("C06",),
                   modifies=lambda st, a: [("f:Market." + nm, [a["self"].term]) for nm, _ in SERIES] + ["len:Real", "len:Int", "el:Real", "el:Real?", "el:Int"])


@task("Market._fill_until", props=["C06", "C08"], functions=["Market._fill_until"], replay="market_ops")
def t_fill_until():
    obl, info = FILL_UNTIL.verify()
    return {"obligations": obl, "info": [info]}


# ----------------------------------------------------------------------------- _update_time (C06 clock and history, C08 carry rules, C04/C10 expiry)
def clock_shape(st, m):
    """before the first tick: market at -1, books at 0, only the configured market price stored; afterwards: lock-step, equal series lengths"""
    t = st.read(m, "time").term
    bb, sb = books(st, m)
    bt, stt = st.read(bb, "time").term, st.read(sb, "time").term
    refs = series_refs(st, m)
    lens = [st.length(r, ety) for (nm, ety), r in zip(SERIES, refs)]
    first = z3.And(t == -1, bt == 0, stt == 0, lens[0] == 1, *[l == 0 for l in lens[1:]])
    later = z3.And(t >= 0, bt == t, stt == t, lens[0] > t, *[l == lens[0] for l in lens[1:]])
    return z3.Or(first, later)


def future_empty(st, m, after):
    """slots beyond `after` have never been written: None for prices, 0 for counters"""
    i = z3.Int("i_fut"); cs = []
    for nm, ety in SERIES:
        r = series_ref(st, m, nm); n = st.length(r, ety)
        if nm == "_market_prices":
            continue       # slot 0 of the market price series is pre-set by Market.setup
        empty = z3.Select(st.elems(r, ety, "none"), i) if ety[0] == "opt" else (z3.Select(st.elems(r, ety), i) == 0)
        cs.append(z3.ForAll([i], z3.Implies(z3.And(after < i, i < n), empty)))
    r = series_ref(st, m, "_market_prices")
    cs.append(z3.ForAll([i], z3.Implies(z3.And(after < i, i < st.length(r, ("real",)), i >= 1), z3.Select(st.elems(r, ("opt", ("real",)), "none"), i))))
    return z3.And(*cs)


def ut_pre(st, a):
    m = a["self"]
    inv = market_inv(st, m, series=False, skip=("M1",))
    bb, sb = books(st, m)
    return inv + [("M1' two distinct books, buy and sell", z3.And(bb.term != sb.term, st.read(bb, "is_buy").term, z3.Not(st.read(sb, "is_buy").term))),
                  ("clock shape (pre-first-tick or lock-step)", clock_shape(st, m)), ("series are distinct lists", z3.Distinct(*series_refs(st, m))),
                  ("series are allocated lists", z3.And(*[st.is_alloc(r) for r in series_refs(st, m)])),
                  ("slots after the current time are still empty", future_empty(st, m, st.read(m, "time").term)),
                  ("chunk size positive", st.read(m, "chunk_size").term > 0)]


def ut_modifies(st, a):
    m = a["self"]
    bb, sb = books(st, m)
    return [("f:Market.time", [m.term]), ("f:OrderBook.time", [bb.term, sb.term])] + [("f:Market." + nm, [m.term]) for nm, _ in SERIES] + \
           ["len:Real", "len:Int", "el:Real", "el:Real?", "el:Int"] + B.ceo_modifies(st, {"self": bb}) + B.ceo_modifies(st, {"self": sb})


def ut_post(st0, st1, a, res):
    m, nf = a["self"], a["next_fundamental_price"]
    t0 = st0.read(m, "time").term; t1 = t0 + 1
    bb, sb = books(st0, m)
    qB, qS = queue(st0, bb).term, queue(st0, sb).term
    y = z3.Const("y_ut", REF)
    running = st0.read(m, "_is_running").term
    le0 = cell(st0, m, "_last_executed_prices", t0); mid0 = cell(st0, m, "_mid_prices", t0); mp0_ = cell(st0, m, "_market_prices", t0)
    le1 = cell(st1, m, "_last_executed_prices", t1); mid1 = cell(st1, m, "_mid_prices", t1); mp1 = cell(st1, m, "_market_prices", t1)
    f1 = cell(st1, m, "_fundamental_prices", t1)
    mpz = cell(st0, m, "_market_prices", z3.IntVal(0))
    def same_opt(x, y_):
        return z3.And(x.none == y_.none, z3.Implies(z3.Not(y_.none), x.term == y_.term))
    exp_mp = z3.If(running, z3.If(z3.Not(le0.none), le0.term, z3.If(z3.Not(mid0.none), mid0.term, mp0_.term)), mp0_.term)
    exp_mp_none = z3.If(running, z3.If(z3.Not(le0.none), False, z3.If(z3.Not(mid0.none), False, mp0_.none)), mp0_.none)
    out = [("C06 the clock advances by exactly one, for the market and both of its books",
            z3.And(st1.read(m, "time").term == t1, st1.read(bb, "time").term == t1, st1.read(sb, "time").term == t1,
                   books(st1, m)[0].term == bb.term, books(st1, m)[1].term == sb.term, queue(st1, bb).term == qB, queue(st1, sb).term == qS)),
           ("C06 the fundamental price handed in is recorded for the new time", z3.And(z3.Not(f1.none), f1.term == to_real(nf))),
           ("C08 last-trade and mid price are carried into the new slot", z3.Implies(t1 > 0, z3.And(same_opt(le1, le0), same_opt(mid1, mid0)))),
           ("C08 market price in the new slot: last trade, else mid, else previous while running; carried unchanged while not running",
            z3.Implies(t1 > 0, z3.And(mp1.none == exp_mp_none, z3.Implies(z3.Not(exp_mp_none), mp1.term == exp_mp)))),
           ("C06 first step: the configured market price is kept, else the fundamental price is used",
            z3.Implies(t1 == 0, z3.And(z3.Not(mp1.none), mp1.term == z3.If(mpz.none, to_real(nf), mpz.term)))),
           ("C04 an order leaves its book exactly when the clock passes placed_at + ttl (buy side)", z3.ForAll([y], st1.mem(qB, y) == z3.And(st0.mem(qB, y), z3.Not(B.expired(st0, bb, y, t1))))),
           ("C04 an order leaves its book exactly when the clock passes placed_at + ttl (sell side)", z3.ForAll([y], st1.mem(qS, y) == z3.And(st0.mem(qS, y), z3.Not(B.expired(st0, sb, y, t1))))),
           ("C08 counters of the new step start from zero", future_empty(st1, m, t1))]
    # C06: recorded history (slots <= old time) never changes, for all eight series
    i = z3.Int("i_hist")
    for nm, ety in SERIES:
        r0, r1 = series_ref(st0, m, nm), series_ref(st1, m, nm)
        same = z3.Select(st1.elems(r1, ety), i) == z3.Select(st0.elems(r0, ety), i)
        if ety[0] == "opt":
            same = z3.And(z3.Select(st1.elems(r1, ety, "none"), i) == z3.Select(st0.elems(r0, ety, "none"), i), same)
        out.append((f"C06 values recorded in {nm} for past times are unchanged", z3.ForAll([i], z3.Implies(z3.And(0 <= i, i <= t0), same))))
    return out + market_inv(st1, m)


def ut_trace(st0, st1, a, res):
    m = a["self"]
    lg = st0.read(m, "logger")
    tmpl = ((("Write", None, (ELEM_, lg.term))),)
    lb = st1.ghost.get("logs_buy"); ls = st1.ghost.get("logs_sell")
    return [("ForEach", z3.Not(lg.none), (lb, (("Write", None, (ELEM_, lg.term)),))), ("ForEach", z3.Not(lg.none), (ls, (("Write", None, (ELEM_, lg.term)),)))]


from pyvc.spec import ELEM as ELEM_     # noqa

UPDATE_TIME = FSpec("Market._update_time", axioms=lambda st, a: market_axioms(st, a["self"]), pre=ut_pre, post=ut_post, modifies=ut_modifies, trace=ut_trace,
                    props=("C06", "C08", "C04", "C10"))


def ut_setup(ex, st, a):
    B.setup_book(ex, st, a)

    def g1(ex_, s1):
        s1.ghost["logs_buy"] = s1.env["logs"].term

    def g2(ex_, s1):
        s1.ghost["logs_sell"] = s1.env["logs_"].term
    ex.ghost_after = {"assign:logs": g1, "assign:logs_": g2}


@task("Market._update_time", props=["C06", "C08", "C04", "C10"], functions=["Market._update_time"], replay="market_ops", heavy=True)
def t_update_time():
    specs = market_callee_specs()
    specs[("m", "Market", "_fill_until")] = FILL_UNTIL.handler()
    loops = {0: ForEachTrace(name="write-buy-expirations"), 1: ForEachTrace(name="write-sell-expirations")}      # which list each loop iterates is checked by the trace contract
    obl, info = UPDATE_TIME.verify(specs=specs, loops=loops, setup=ut_setup)
    return {"obligations": obl, "info": [info]}


# ----------------------------------------------------------------------------- accessors: no access to the future (C06), VWAP (C08)
def acc_spec(qual, ety, tag):
    def raises(st, a):
        m, t, p = a["self"], a["time"], a["parameters"]
        tt = z3.If(t.none, st.read(m, "time").term, t.term)
        s = st.peek(); v = s.list_get(p, V(("int",), tt))
        isnone = v.none if ety[0] == "opt" else z3.BoolVal(False)
        return z3.Or(z3.And(z3.Not(t.none), t.term > st.read(m, "time").term), z3.And(isnone, z3.Not(a["allow_none"].term)))

    def pre(st, a):
        m, t, p = a["self"], a["time"], a["parameters"]
        tt = z3.If(t.none, st.read(m, "time").term, t.term)
        return [("the series covers every time up to the clock; requested time >= 0", z3.And(st.length(p.term, ety) > st.read(m, "time").term, tt >= 0))]

    def post(st0, st1, a, res):
        m, t, p = a["self"], a["time"], a["parameters"]
        tt = z3.If(t.none, st0.read(m, "time").term, t.term)
        s = st0.peek(); v = s.list_get(p, V(("int",), tt))
        eq = res.term == v.term
        if ety[0] == "opt":
            rn = res.none if res.ty[0] == "opt" else z3.BoolVal(False)
            eq = z3.And(rn == v.none, z3.Implies(z3.Not(v.none), eq))
        return [("returns the value recorded for the requested (default: current) time", eq)]
    return FSpec(qual, pre=pre, post=post, raises={"AssertionError": raises}, props=("C06",), param_types={"parameters": ("list", ety), "time": ("opt", ("int",))},
                 result=ety if ety[0] == "opt" else ("opt", ety))


EXTRACT_OPT_REAL = acc_spec("Market._extract_data_by_time", ("opt", ("real",)), "price series")
EXTRACT_INT = acc_spec("Market._extract_data_by_time", ("int",), "counter series")


@task("Market._extract_data_by_time[prices]", props=["C06"], functions=["Market._extract_data_by_time"], replay="market_ops")
def t_extract_prices():
    obl, info = EXTRACT_OPT_REAL.verify()
    return {"obligations": obl, "info": [info]}


@task("Market._extract_data_by_time[counters]", props=["C06"], functions=["Market._extract_data_by_time"], replay="market_ops")
def t_extract_counters():
    obl, info = EXTRACT_INT.verify()
    return {"obligations": obl, "info": [info]}


def vwap_pre(st, a):
    m = a["self"]
    t = st.read(m, "time").term
    return [("clock >= 0; volume and turnover series cover the clock; requested time >= 0",
             z3.And(t >= 0, st.length(series_ref(st, m, "_executed_volumes"), ("int",)) > t, st.length(series_ref(st, m, "_executed_total_prices"), ("real",)) > t,
                    z3.Or(a["time"].none, a["time"].term >= 0)))]


def vwap_post(st0, st1, a, res):
    m = a["self"]
    tt = z3.If(a["time"].none, st0.read(m, "time").term, a["time"].term)
    vol = st0.elems(series_ref(st0, m, "_executed_volumes"), ("int",)); tot = st0.elems(series_ref(st0, m, "_executed_total_prices"), ("real",))
    den = SUM_INT(vol, tt + 1)
    return [("VWAP = turnover up to the time / executed volume up to the time (NaN when nothing was executed)", z3.Implies(den != 0, res.term == SUM_REAL(tot, tt + 1) / z3.ToReal(den)))]


GET_VWAP = FSpec("Market.get_vwap", pre=vwap_pre, post=vwap_post, props=("C08", "C06"),
                 raises={"AssertionError": lambda st, a: z3.And(z3.Not(a["time"].none), a["time"].term > st.read(a["self"], "time").term)})


@task("Market.get_vwap", props=["C08", "C06"], functions=["Market.get_vwap"], replay="market_ops")
def t_vwap():
    obl, info = GET_VWAP.verify()
    return {"obligations": obl, "info": [info]}


# ----------------------------------------------------------------------------- _execute_orders (C01 fill record, C04 volumes, C08 statistics, C16 guard)
XLOG_FIELDS = ["market_id", "time", "buy_agent_id", "sell_agent_id", "buy_order_id", "sell_order_id", "price", "volume"]


def eo_pre(st, a):
    m, b, s_, v = a["self"], a["buy_order"], a["sell_order"], a["volume"]
    bb, sb = books(st, m)
    return market_inv(st, m) + [("the buy order rests in this market's buy book and the sell order in its sell book", z3.And(st.mem(queue(st, bb).term, b.term), st.mem(queue(st, sb).term, s_.term))),
                                ("1 <= volume <= both remaining volumes", z3.And(v.term >= 1, v.term <= O(st, "volume")[b.term], v.term <= O(st, "volume")[s_.term]))]


def eo_modifies(st, a):
    m, b, s_ = a["self"], a["buy_order"], a["sell_order"]
    bb, sb = books(st, m)
    ls = B.book_lists(st, bb, [exp_key(st, b.term)]) + B.book_lists(st, sb, [exp_key(st, s_.term)])
    ser = [series_ref(st, m, n) for n in ("_mid_prices", "_market_prices", "_last_executed_prices")]
    return [("f:Order.volume", [b.term, s_.term]), ("len", ls), ("mem", ls), ("el:Ref", ls), ("heapok", ls), ("nodup", ls),
            ("el:Real", ser + [series_ref(st, m, "_executed_total_prices")]), ("el:Real?", ser), ("el:Int", [series_ref(st, m, "_executed_volumes")])] + \
           [("f:ExecutionLog." + f, []) for f in XLOG_FIELDS]


def eo_post(st0, st1, a, res):
    m, b, s_, v, p = a["self"], a["buy_order"], a["sell_order"], a["volume"], a["price"]
    bb, sb = books(st0, m)
    qB, qS = queue(st0, bb).term, queue(st0, sb).term
    t = st0.read(m, "time").term
    y = z3.Const("y_eo", REF)
    L = lambda f: st1.F("ExecutionLog", f)[res.term]
    vb1, vs1 = O(st1, "volume")[b.term], O(st1, "volume")[s_.term]
    le1 = cell(st1, m, "_last_executed_prices", t)
    ev0, ev1 = cell(st0, m, "_executed_volumes", t).term, cell(st1, m, "_executed_volumes", t).term
    et0, et1 = cell(st0, m, "_executed_total_prices", t).term, cell(st1, m, "_executed_total_prices", t).term
    pr = to_real(p)
    out = [("C01 the fill record pairs this buy and this sell order of this market at the given price and volume, stamped with the market time",
            z3.And(L("price") == pr, L("volume") == v.term, L("market_id") == st0.read(m, "market_id").term, L("time") == t,
                   L("buy_agent_id") == O(st0, "agent_id")[b.term], L("sell_agent_id") == O(st0, "agent_id")[s_.term],
                   L("buy_order_id") == O(st0, "order_id")[b.term], L("sell_order_id") == O(st0, "order_id")[s_.term], z3.Not(st0.is_alloc(res.term)))),
           ("C04 both orders' volumes are reduced by the filled volume", z3.And(vb1 == O(st0, "volume")[b.term] - v.term, vs1 == O(st0, "volume")[s_.term] - v.term)),
           ("C04 an order leaves the book exactly when its volume reaches zero; other orders untouched",
            z3.And(z3.ForAll([y], st1.mem(qB, y) == z3.And(st0.mem(qB, y), z3.Or(y != b.term, vb1 > 0))), z3.ForAll([y], st1.mem(qS, y) == z3.And(st0.mem(qS, y), z3.Or(y != s_.term, vs1 > 0))))),
           ("C08 last-trade price of the step is the fill price", z3.And(z3.Not(le1.none), le1.term == pr)),
           ("C08 executed volume and turnover of the step grow by the fill", z3.And(ev1 == ev0 + v.term, et1 == et0 + z3.ToReal(v.term) * pr)),
           ("market objects unchanged", z3.And(books(st1, m)[0].term == bb.term, books(st1, m)[1].term == sb.term, st1.read(m, "time").term == t,
                                               queue(st1, bb).term == qB, queue(st1, sb).term == qS, st1.read(m, "_is_running").term == st0.read(m, "_is_running").term))]
    out += price_refresh_clauses(st0, st1, m)
    return out + market_inv(st1, m)


def eo_trace(st0, st1, a, res):
    lg = st0.read(a["self"], "logger")
    return [event("Write", res, V(("ref", "Logger"), lg.term), guard=z3.Not(lg.none))]


EXECUTE_ORDERS = FSpec("Market._execute_orders", axioms=lambda st, a: market_axioms(st, a["self"]), pre=eo_pre, post=eo_post, modifies=eo_modifies, trace=eo_trace, fresh_result=True,
                       raises={"AssertionError": lambda st, a: z3.Not(st.read(a["self"], "_is_running").term)}, props=("C01", "C04", "C08", "C16", "C10"))


@task("Market._execute_orders", props=["C01", "C04", "C08", "C16", "C10", "C03"], functions=["Market._execute_orders", "ExecutionLog.__init__"], replay="market_ops", heavy=True)
def t_execute_orders():
    obl, info = EXECUTE_ORDERS.verify(specs=market_callee_specs(), setup=B.setup_book)
    return {"obligations": obl, "info": [info]}


# ----------------------------------------------------------------------------- _cancel_order (C04, C08, C10)
CLOG_FIELDS = ["order_id", "market_id", "cancel_time", "order_time", "agent_id", "is_buy", "kind", "price", "volume", "ttl"]


def co_order(st, a):
    return st.read(a["cancel"], "order").term


def co_pre(st, a):
    m = a["self"]; o = co_order(st, a)
    bb, sb = books(st, m)
    y = z3.Const("y_co", REF)
    return market_inv(st, m) + [("the order was accepted by this market: no other resting order carries its id",
                                 z3.ForAll([y], z3.Implies(z3.And(z3.Or(st.mem(queue(st, bb).term, y), st.mem(queue(st, sb).term, y)), y != o), O(st, "order_id")[y] != O(st, "order_id")[o]))),
                                ("an order rests only in the book of its own side", z3.And(z3.Implies(st.mem(queue(st, bb).term, o), O(st, "is_buy")[o]), z3.Implies(st.mem(queue(st, sb).term, o), z3.Not(O(st, "is_buy")[o]))))]


def co_raises(st, a):
    m = a["self"]; o = co_order(st, a)
    return z3.Or(st.read(m, "market_id").term != O(st, "market_id")[o], O(st, "order_id", "none")[o], O(st, "placed_at", "none")[o])


def co_modifies(st, a):
    m, c = a["self"], a["cancel"]; o = co_order(st, a)
    bb, sb = books(st, m)
    ls = B.book_lists(st, bb, [exp_key(st, o)]) + B.book_lists(st, sb, [exp_key(st, o)])
    ser = [series_ref(st, m, n) for n in ("_mid_prices", "_market_prices")]
    return [("f:Order.is_canceled", [o]), ("f:Cancel.placed_at", [c.term]), ("len", ls), ("mem", ls), ("el:Ref", ls), ("heapok", ls), ("nodup", ls),
            ("el:Real", ser), ("el:Real?", ser)] + [("f:CancelLog." + f, []) for f in CLOG_FIELDS]


def co_post(st0, st1, a, res):
    m, c = a["self"], a["cancel"]; o = co_order(st0, a)
    bb, sb = books(st0, m)
    qB, qS = queue(st0, bb).term, queue(st0, sb).term
    t = st0.read(m, "time").term
    y = z3.Const("y_cop", REF)
    L = lambda f, part="val": st1.F("CancelLog", f, part)[res.term]
    out = [("C04 the order is marked cancelled and rests in no book afterwards; other orders untouched",
            z3.And(O(st1, "is_canceled")[o], z3.ForAll([y], st1.mem(qB, y) == z3.And(st0.mem(qB, y), y != o)), z3.ForAll([y], st1.mem(qS, y) == z3.And(st0.mem(qS, y), y != o)))),
           ("C10 the CancelLog reports the order's identity and its remaining volume at the cancel time",
            z3.And(L("order_id") == O(st0, "order_id")[o], L("market_id") == O(st0, "market_id")[o], L("cancel_time") == t, L("order_time") == O(st0, "placed_at")[o],
                   L("agent_id") == O(st0, "agent_id")[o], L("is_buy") == O(st0, "is_buy")[o], L("kind") == O(st0, "kind")[o], L("volume") == O(st0, "volume")[o],
                   L("price", "none") == O(st0, "price", "none")[o], z3.Implies(z3.Not(O(st0, "price", "none")[o]), L("price") == O(st0, "price")[o]),
                   L("ttl", "none") == O(st0, "ttl", "none")[o], z3.Implies(z3.Not(O(st0, "ttl", "none")[o]), L("ttl") == O(st0, "ttl")[o]), z3.Not(st0.is_alloc(res.term)))),
           ("market objects unchanged", z3.And(books(st1, m)[0].term == bb.term, books(st1, m)[1].term == sb.term, st1.read(m, "time").term == t,
                                               queue(st1, bb).term == qB, queue(st1, sb).term == qS))]
    out += price_refresh_clauses(st0, st1, m)
    return out + market_inv(st1, m)


def co_trace(st0, st1, a, res):
    lg = st0.read(a["self"], "logger")
    return [event("Write", res, V(("ref", "Logger"), lg.term), guard=z3.Not(lg.none))]


CANCEL_ORDER = FSpec("Market._cancel_order", axioms=lambda st, a: market_axioms(st, a["self"]), pre=co_pre, post=co_post, modifies=co_modifies, trace=co_trace, fresh_result=True,
                     raises={"ValueError": co_raises}, props=("C04", "C08", "C10"))


@task("Market._cancel_order", props=["C04", "C08", "C10"], functions=["Market._cancel_order", "CancelLog.__init__"], replay="market_ops", heavy=True)
def t_cancel_order():
    obl, info = CANCEL_ORDER.verify(specs=market_callee_specs(), setup=B.setup_book)
    return {"obligations": obl, "info": [info]}


# ----------------------------------------------------------------------------- establishment of the invariants (step (i) of DESIGN 3.6)
@task("OrderBook.__init__ establishes BookInv", props=["C02", "C04"], functions=["OrderBook.__init__"], replay=None)
def t_book_init():
    from pyvc.spec import Executor
    ex = Executor(current="OrderBook.__init__"); B.setup_book(ex, None, None)
    st = State(); st.labels = ["OrderBook.__init__"]
    side = V(("bool",), z3.Bool("side_is_buy"))
    outs = ex.construct(V(("class",), None, py="OrderBook"), [], {"is_buy": side}, st, 0, None)
    for s1, bk in outs:
        for l, f in book_inv(s1.peek(), bk):
            s1.oblige("post:a new book satisfies " + l, f, "post")
        s1.oblige("post:a new book is at time 0 on its side", z3.And(s1.read(bk, "time").term == 0, s1.read(bk, "is_buy").term == side.term), "post")
    st.obl.append({"name": "OrderBook.__init__/cover:paths", "pc": [], "goal": z3.BoolVal(len(outs) == 1 and not ex.escaped), "kind": "cover"})
    src = get_src_m()
    return {"obligations": st.obl, "info": [{"function": "OrderBook.__init__", "source_sha": src.source_hash("OrderBook.__init__"), "where": src.where("OrderBook.__init__"), "paths": len(outs), "assumptions": sorted(ex.used_assumptions)}]}


def get_src_m():
    from pyvc.src import get_src
    return get_src()


@task("Market.__init__ + setup establish the pre-first-tick MarketInv", props=["C04", "C06", "C08"], functions=["Market.__init__", "Market.setup", "OrderBook.__init__"], replay=None)
def t_market_init():
    """a freshly constructed and configured market satisfies the precondition of its first clock tick (ut_pre): so MarketInv holds from time 0 on (induction base)"""
    from pyvc.spec import Executor
    from .session import has, get
    ex = Executor(current="Market.__init__"); B.setup_book(ex, None, None)
    st = State(); st.labels = ["Market.__init__+setup"]
    settings = V(("dict", ("str",), ("dyn",)), z3.Const("market_settings", REF)); st.assume_alloc(settings)
    sim = sym_obj("Simulator", "sim"); st.assume_alloc(sim)
    prng = sym_obj("Random", "prng")
    num = lambda v: z3.Or(dyn_is_int(v), dyn_is_real(v))
    st.assume(z3.And(has(st, settings, "tickSize"), dyn_is_real(get(st, settings, "tickSize")), z3.Or(has(st, settings, "marketPrice"), has(st, settings, "fundamentalPrice")),
                     z3.Implies(has(st, settings, "marketPrice"), num(get(st, settings, "marketPrice"))), z3.Implies(has(st, settings, "fundamentalPrice"), num(get(st, settings, "fundamentalPrice"))),
                     z3.Implies(has(st, settings, "outstandingShares"), dyn_is_int(get(st, settings, "outstandingShares")))))
    n = 0
    outs = ex.construct(V(("class",), None, py="Market"), [], {"market_id": mkint(0), "prng": prng, "simulator": sim, "name": V(("str",), z3.StringVal("m"))}, st, 0, None)
    for s1, m in outs:
        for s2, _ in ex.call_method(m, "setup", [], {"settings": settings}, s1.copy(), 0, None):
            n += 1
            a = {"self": m, "next_fundamental_price": V(("real",), z3.Real("f0"))}
            for l, f in ut_pre(s2.peek(), a):
                if l.startswith("chunk size"):
                    continue
                s2.oblige("post:a configured new market satisfies " + l, f, "post")
            s2.oblige("post:chunk size positive", s2.read(m, "chunk_size").term > 0, "post")
            s2.oblige("post:C07 the settings handed to Market.setup are not written", z3.And(s2.dict_dom(settings) == st.dict_dom(settings), s2.dict_val(settings) == st.dict_val(settings)), "post")
    for s_, k_, v_ in ex.escaped:
        s_.oblige(f"no-raise:{v_[0]}@{v_[1]}", z3.BoolVal(False), "no-raise")
    st.obl.append({"name": "Market.__init__/cover:paths", "pc": [], "goal": z3.BoolVal(n >= 1), "kind": "cover"})
    src = get_src_m()
    return {"obligations": st.obl, "info": [{"function": q, "source_sha": src.source_hash(q), "where": src.where(q), "paths": n, "assumptions": sorted(ex.used_assumptions)} for q in ("Market.__init__", "Market.setup")]}


# ----------------------------------------------------------------------------- _extract_sequential_data_by_time: no element of a requested range may lie in the future (C06)
def seq_spec(ety, tag, with_times):
    qual = "Market._extract_sequential_data_by_time"

    def times_view(st, a):
        ts = a["times"]
        return ts.term, st.length(ts.term, ("int",)), st.elems(ts.term, ("int",))

    def future(st, a):
        if not with_times:
            return z3.BoolVal(False)
        L, n, el = times_view(st, a); i = z3.Int("i_sq")
        return z3.Exists([i], z3.And(0 <= i, i < n, z3.Select(el, i) > st.read(a["self"], "time").term))

    def some_none(st, a):
        if ety[0] != "opt":
            return z3.BoolVal(False)
        p = a["parameters"]; i = z3.Int("i_sqn")
        nn = st.elems(p.term, ety, "none")
        if with_times:
            L, n, el = times_view(st, a)
            return z3.Exists([i], z3.And(0 <= i, i < n, z3.Select(nn, z3.Select(el, i))))
        return z3.Exists([i], z3.And(0 <= i, i <= st.read(a["self"], "time").term, z3.Select(nn, i)))

    def pre(st, a):
        m, p = a["self"], a["parameters"]
        cs = [("the series covers every time up to the clock", z3.And(st.length(p.term, ety) > st.read(m, "time").term, st.read(m, "time").term >= 0))]
        if with_times:
            L, n, el = times_view(st, a); i = z3.Int("i_sqp")
            cs.append(("requested times are >= 0", z3.And(n >= 0, z3.ForAll([i], z3.Implies(z3.And(0 <= i, i < n), z3.Select(el, i) >= 0)))))
        return cs

    def post(st0, st1, a, res):
        m, p = a["self"], a["parameters"]; i = z3.Int("i_sqo")
        if with_times:
            L, n, el = times_view(st0, a)
            src = lambda j: z3.Select(el, j)
        else:
            n = st0.read(m, "time").term + 1
            src = lambda j: j
        pe = st0.elems(p.term, ety); re_ = st1.elems(res.term, ety)
        same = z3.Select(re_, i) == z3.Select(pe, src(i))
        if ety[0] == "opt":
            pn = st0.elems(p.term, ety, "none"); rn = st1.elems(res.term, ety, "none")
            same = z3.And(z3.Select(rn, i) == z3.Select(pn, src(i)), z3.Implies(z3.Not(z3.Select(pn, src(i))), same))
        return [("C06 one value per requested time, each the value recorded for that time (all times up to the clock when no range is given)",
                 z3.And(st1.length(res.term, ety) == n, z3.ForAll([i], z3.Implies(z3.And(0 <= i, i < n), same))))]
    pt = {"parameters": ("list", ety)}
    if with_times:
        pt["times"] = ("list", ("int",))
    spec = FSpec(qual, pre=pre, post=post, props=("C06",), param_types=pt, result=("list", ety), fresh_result=True,
                 raises={"AssertionError": lambda st, a: z3.Or(future(st, a), z3.And(some_none(st, a), z3.Not(a["allow_none"].term)))},
                 modifies=lambda st, a: [])
    return spec


def _seq_task(ety, tag, with_times):
    tid = f"Market._extract_sequential_data_by_time[{tag},{'times' if with_times else 'all'}]"

    def build():
        spec = seq_spec(ety, tag, with_times)

        def setup(ex, st, a):
            if not with_times:
                st.env["times"] = NONE
        obl, info = spec.verify(setup=setup if not with_times else None)
        return {"obligations": obl, "info": [info]}
    build.__doc__ = "range accessor: a requested time in the future is refused; otherwise exactly the recorded values are returned"
    task(tid, props=["C06"], functions=["Market._extract_sequential_data_by_time"], replay="market_ops")(build)
    return tid


SEQ_TASKS = [_seq_task(("opt", ("real",)), "prices", True), _seq_task(("opt", ("real",)), "prices", False), _seq_task(("int",), "counters", True)]


# ----------------------------------------------------------------------------- the public accessors read THEIR OWN series (C06 history, C08 statistics): a table of thin wrappers
ACCESSOR_TABLE = {
    "get_market_price": ("_market_prices", False, False), "get_market_prices": ("_market_prices", True, False),
    "get_mid_price": ("_mid_prices", False, True), "get_mid_prices": ("_mid_prices", True, True),
    "get_last_executed_price": ("_last_executed_prices", False, True), "get_last_executed_prices": ("_last_executed_prices", True, True),
    "get_fundamental_price": ("_fundamental_prices", False, False), "get_fundamental_prices": ("_fundamental_prices", True, False),
    "get_executed_volume": ("_executed_volumes", False, False), "get_executed_volumes": ("_executed_volumes", True, False),
    "get_executed_total_price": ("_executed_total_prices", False, False), "get_executed_total_prices": ("_executed_total_prices", True, False),
    "get_n_buy_order": ("_n_buy_orders", False, False), "get_n_buy_orders": ("_n_buy_orders", True, False),
    "get_n_sell_order": ("_n_sell_orders", False, False), "get_n_sell_orders": ("_n_sell_orders", True, False),
}


@task("Market accessors read their own series", props=["C06", "C08"], functions=["Market." + k for k in ACCESSOR_TABLE] + ["Market.get_time", "Market.get_best_buy_price", "Market.get_best_sell_price",
                                                                                                                       "Market.get_buy_order_book", "Market.get_sell_order_book"], replay="market_ops")
def t_accessor_table():
    """every public getter hands exactly its own series (and the caller's time argument) to the checked extraction functions, with `None` allowed only for the mid and last-trade series;
    the quote getters read the book of their own side"""
    from pyvc.spec import Executor
    obl = []; infos = []
    src = get_src_m()
    for name, (series, plural, allow_none) in ACCESSOR_TABLE.items():
        ex = Executor(current="Market." + name)
        calls = []

        def mk(kind):
            def h(ex_, st, recv, pos, kw, node, kind=kind):
                st = st.copy()
                names = ("times" if kind == "seq" else "time", "parameters", "allow_none")
                a = dict(zip(names, pos)); a.update(kw)
                st.ghost["calls"] = st.ghost.get("calls", ()) + ((kind, recv, a),)
                ety = a["parameters"].ty[1] if a["parameters"].ty[0] == "list" else ("dyn",)
                res = V(("list", ety), st.new_ref("extracted")) if kind == "seq" else fresh(ety if ety[0] == "opt" else ("opt", ety), "extracted")
                return [(st, res)]
            return h
        ex.specs[("m", "Market", "_extract_data_by_time")] = mk("one")
        ex.specs[("m", "Market", "_extract_sequential_data_by_time")] = mk("seq")
        st = State(); st.labels = ["Market." + name]
        m = sym_obj("Market", "the_market"); st.assume_alloc(m)
        if plural:
            targ = V(("opt", ("list", ("int",))), z3.Const("times_arg", REF), none=z3.Bool("times_arg?"))
        else:
            targ = V(("opt", ("int",)), z3.Int("time_arg"), none=z3.Bool("time_arg?"))
        outs = ex.call_method(m, name, [], {"times" if plural else "time": targ}, st, 0, None)
        n = 0
        for s1, res in outs:
            n += 1
            cs = s1.ghost.get("calls", ())
            if len(cs) != 1:
                s1.oblige(f"trace:exactly one extraction per query (got {len(cs)})", z3.BoolVal(False), "trace"); continue
            kind, recv, a = cs[0]
            an = a.get("allow_none")
            an_term = z3.BoolVal(False) if an is None else an.term
            targ_ok = (a["times" if plural else "time"].term == targ.term) if a.get("times" if plural else "time") is not None else z3.BoolVal(False)
            s1.oblige(f"post:{name} reads the series {series} of this market for the requested time(s); None allowed: {allow_none}",
                      z3.And(z3.BoolVal(kind == ("seq" if plural else "one")), recv.term == m.term, a["parameters"].term == s1.read(m, series).term, targ_ok, an_term == z3.BoolVal(allow_none)), "post")
        for s_, k_, v_ in ex.escaped:
            s_.oblige(f"no-raise:{v_[0]}@{v_[1]}", z3.BoolVal(False), "no-raise")
        obl += st.obl
        obl.append({"name": f"Market.{name}/cover:paths", "pc": [], "goal": z3.BoolVal(n >= 1), "kind": "cover"})
        infos.append({"function": "Market." + name, "source_sha": src.source_hash("Market." + name), "where": src.where("Market." + name), "paths": n, "assumptions": sorted(ex.used_assumptions)})
    # quote getters and the clock
    for name, book, meth in (("get_best_buy_price", "buy_order_book", "get_best_price"), ("get_best_sell_price", "sell_order_book", "get_best_price"),
                             ("get_buy_order_book", "buy_order_book", "get_price_volume"), ("get_sell_order_book", "sell_order_book", "get_price_volume")):
        ex = Executor(current="Market." + name)

        def hq(ex_, st, recv, pos, kw, node):
            st = st.copy(); st.ghost["qcalls"] = st.ghost.get("qcalls", ()) + (recv,)
            return [(st, fresh(("opt", ("real",)), "quote") if meth == "get_best_price" else V(("dict", ("real",), ("int",)), st.new_ref("depth")))]
        ex.specs[("m", "OrderBook", meth)] = hq
        st = State(); st.labels = ["Market." + name]
        m = sym_obj("Market", "the_market"); st.assume_alloc(m)
        outs = ex.call_method(m, name, [], {}, st, 0, None)
        for s1, res in outs:
            q = s1.ghost.get("qcalls", ())
            s1.oblige(f"post:{name} asks the {book} of this market", z3.And(z3.BoolVal(len(q) == 1), q[0].term == s1.read(m, book).term) if len(q) == 1 else z3.BoolVal(False), "post")
        obl += st.obl
        obl.append({"name": f"Market.{name}/cover:paths", "pc": [], "goal": z3.BoolVal(len(outs) >= 1), "kind": "cover"})
        infos.append({"function": "Market." + name, "source_sha": src.source_hash("Market." + name), "where": src.where("Market." + name), "paths": len(outs), "assumptions": []})
    ex = Executor(current="Market.get_time")
    st = State(); st.labels = ["Market.get_time"]
    m = sym_obj("Market", "the_market"); st.assume_alloc(m)
    for s1, res in ex.call_method(m, "get_time", [], {}, st, 0, None):
        s1.oblige("post:get_time is the market's clock", res.term == s1.read(m, "time").term, "post")
    obl += st.obl
    return {"obligations": obl, "info": infos}
