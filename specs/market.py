"""Market mutators under contract: _add_order (C19, C04, C08, C10), _cancel_order, _execute_orders, _update_time/_fill_until (C06)."""
import z3

from pyvc.core import *   # noqa
from pyvc.spec import FSpec, LoopSpec, ForEachTrace, task, emit, event
from .vocab import *      # noqa
from . import book as B
from .market_price import UPDATE_MARKET_PRICE

WRITE = emit("Write")            # Log.read_and_write(logger): one record handed to the logger (trace event Write(log, logger))


def book_list_refs_disjoint(st, b1, b2):
    k, k2 = z3.Ints("k_m2 k2_m2")
    q1, q2 = queue(st, b1).term, queue(st, b2).term
    return z3.And(q1 != q2, etl(st, b1).term != etl(st, b2).term,
                  z3.ForAll([k], z3.Implies(bucket_dom(st, b1, k), bucket_list(st, b1, k) != q2)),
                  z3.ForAll([k], z3.Implies(bucket_dom(st, b2, k), bucket_list(st, b2, k) != q1)),
                  z3.ForAll([k, k2], z3.Implies(z3.And(bucket_dom(st, b1, k), bucket_dom(st, b2, k2)), bucket_list(st, b1, k) != bucket_list(st, b2, k2))))


def market_inv(st, m, series=True, skip=()):
    bb, sb = books(st, m)
    qB, qS = queue(st, bb).term, queue(st, sb).term
    x, y = z3.Consts("x_mi y_mi", REF)
    t = st.read(m, "time").term
    cs = []
    if series:
        cs += series_wf(st, m, 0)
    cs += [("M1 two distinct books, buy and sell, on the market clock",
            z3.And(bb.term != sb.term, st.read(bb, "is_buy").term, z3.Not(st.read(sb, "is_buy").term), st.read(bb, "time").term == t, st.read(sb, "time").term == t))]
    cs += book_inv(st, bb, "buy:") + book_inv(st, sb, "sell:")
    cs += [("M2 the lists of the two books are separate objects", book_list_refs_disjoint(st, bb, sb)),
           ("M3 resting orders belong to this market and carry ids below the next id",
            z3.ForAll([x], z3.Implies(z3.Or(st.mem(qB, x), st.mem(qS, x)), z3.And(O(st, "market_id")[x] == st.read(m, "market_id").term,
                                                                                     O(st, "order_id")[x] < st.read(m, "_next_order_id").term)))),
           ("M4 ids are distinct across the two books", z3.ForAll([x, y], z3.Implies(z3.And(st.mem(qB, x), st.mem(qS, y)), O(st, "order_id")[x] != O(st, "order_id")[y])))]
    return [(l, f) for l, f in cs if not any(l.startswith(s) for s in skip)]


def market_axioms(st, m):
    bb, sb = books(st, m)
    return book_axioms(st, bb) + book_axioms(st, sb)


# ----------------------------------------------------------------------------- _add_order
def ao_pre(st, a):
    m, o = a["self"], a["order"]; ot = o.term
    return market_inv(st, m) + [
        ("tick size positive", st.read(m, "tick_size").term > 0),
        ("order is a valid Order object (constructor conditions), not cancelled",
         z3.And(O(st, "volume")[ot] >= 1, (O(st, "kind")[ot] == 0) == O(st, "price", "none")[ot], z3.Or(O(st, "kind")[ot] == 0, O(st, "kind")[ot] == 1),
                z3.Or(O(st, "ttl", "none")[ot], O(st, "ttl")[ot] >= 1), z3.Not(O(st, "is_canceled")[ot])))]


def ao_raises(st, a):
    m, o = a["self"], a["order"]; ot = o.term
    return z3.Or(O(st, "market_id")[ot] != st.read(m, "market_id").term, z3.Not(O(st, "placed_at", "none")[ot]), z3.Not(O(st, "order_id", "none")[ot]))


def ao_modifies(st, a):
    m, o = a["self"], a["order"]; ot = o.term
    bb, sb = books(st, m)
    t = st.read(m, "time").term
    key = t + O(st, "ttl")[ot]
    ls = B.book_lists(st, bb, [key]) + B.book_lists(st, sb, [key])
    ser = [series_ref(st, m, n) for n in ("_mid_prices", "_market_prices")]
    cnt = [series_ref(st, m, n) for n in ("_n_buy_orders", "_n_sell_orders")]
    return [("f:Order.price", [ot]), ("f:Order.order_id", [ot]), ("f:Order.placed_at", [ot]), ("f:Market._next_order_id", [m.term]),
            ("len", ls), ("mem", ls), ("el:Ref", ls), ("heapok", ls), ("nodup", ls),
            ("dd:Int_Ref", [etl(st, bb).term, etl(st, sb).term]), ("dv:Int_Ref", [etl(st, bb).term, etl(st, sb).term]),
            ("el:Real", ser), ("el:Real?", ser), ("el:Int", cnt)] + [("f:OrderLog." + f, []) for f in ("order_id", "market_id", "time", "agent_id", "is_buy", "kind", "price", "volume", "ttl")]


def rounding_clauses(st0, st1, m, ot):
    p0n, p0 = O(st0, "price", "none")[ot], O(st0, "price")[ot]
    p1n, p1 = O(st1, "price", "none")[ot], O(st1, "price")[ot]
    tick = st0.read(m, "tick_size").term; buy = O(st0, "is_buy")[ot]
    k = z3.Int("k_grid")
    return [("C19 market order keeps price None", p1n == p0n),
            ("C19 buy limit price rounds down by less than one tick", z3.Implies(z3.And(z3.Not(p0n), buy), z3.And(p1 <= p0, p0 - p1 < tick))),
            ("C19 sell limit price rounds up by less than one tick", z3.Implies(z3.And(z3.Not(p0n), z3.Not(buy)), z3.And(p1 >= p0, p1 - p0 < tick))),
            ("C19 accepted price is on the tick grid", z3.Implies(z3.Not(p0n), z3.Exists([k], p1 == z3.ToReal(k) * tick))),
            ("C19 a price on the grid is accepted unchanged", z3.ForAll([k], z3.Implies(z3.And(z3.Not(p0n), p0 == z3.ToReal(k) * tick), p1 == p0)))]


def ao_post(st0, st1, a, res):
    m, o = a["self"], a["order"]; ot = o.term
    bb, sb = books(st0, m)
    qB, qS = queue(st0, bb).term, queue(st0, sb).term
    y = z3.Const("y_ao", REF)
    t = st0.read(m, "time").term
    buy = O(st0, "is_buy")[ot]
    L = lambda f, part="val": st1.F("OrderLog", f, part)
    lg = res.term
    nb0, nb1 = cell(st0, m, "_n_buy_orders", t).term, cell(st1, m, "_n_buy_orders", t).term
    ns0, ns1 = cell(st0, m, "_n_sell_orders", t).term, cell(st1, m, "_n_sell_orders", t).term
    out = rounding_clauses(st0, st1, m, ot)
    out += [("C04 fresh id, next id advanced, placed now",
             z3.And(z3.Not(O(st1, "order_id", "none")[ot]), O(st1, "order_id")[ot] == st0.read(m, "_next_order_id").term,
                    st1.read(m, "_next_order_id").term == st0.read(m, "_next_order_id").term + 1,
                    z3.Not(O(st1, "placed_at", "none")[ot]), O(st1, "placed_at")[ot] == t)),
            ("C04 the order rests on its side; the other side and all other orders are untouched",
             z3.And(z3.ForAll([y], st1.mem(qB, y) == z3.Or(st0.mem(qB, y), z3.And(buy, y == ot))),
                    z3.ForAll([y], st1.mem(qS, y) == z3.Or(st0.mem(qS, y), z3.And(z3.Not(buy), y == ot))))),
            ("C08 per-step order counters: +1 on the order's side only", z3.And(nb1 == nb0 + z3.If(buy, 1, 0), ns1 == ns0 + z3.If(buy, 0, 1))),
            ("C10 the returned OrderLog carries the accepted order's values",
             z3.And(L("order_id")[lg] == O(st1, "order_id")[ot], L("market_id")[lg] == O(st0, "market_id")[ot], L("time")[lg] == t,
                    L("agent_id")[lg] == O(st0, "agent_id")[ot], L("is_buy")[lg] == buy, L("kind")[lg] == O(st0, "kind")[ot], L("volume")[lg] == O(st0, "volume")[ot],
                    L("price", "none")[lg] == O(st1, "price", "none")[ot], z3.Implies(z3.Not(O(st1, "price", "none")[ot]), L("price")[lg] == O(st1, "price")[ot]),
                    L("ttl", "none")[lg] == O(st0, "ttl", "none")[ot], z3.Implies(z3.Not(O(st0, "ttl", "none")[ot]), L("ttl")[lg] == O(st0, "ttl")[ot]),
                    z3.Not(st0.is_alloc(lg)))),
            ("market objects unchanged", z3.And(books(st1, m)[0].term == bb.term, books(st1, m)[1].term == sb.term, st1.read(m, "time").term == t,
                                                queue(st1, bb).term == qB, queue(st1, sb).term == qS))]
    out += price_refresh_clauses(st0, st1, m)
    out += market_inv(st1, m)
    return out


def price_refresh_clauses(st0, st1, m, le_from=None):
    """what a trailing `_update_market_price()` leaves in slot `time` (C08), stated over the FINAL book"""
    from .market_price import best_price_view
    t = st0.read(m, "time").term
    bb, sb = books(st1, m)
    nb, pb = best_price_view(st1, bb); ns, ps = best_price_view(st1, sb)
    both = z3.And(nb, ns, z3.Not(pb.none), z3.Not(ps.none))
    mid1 = cell(st1, m, "_mid_prices", t); mp1 = cell(st1, m, "_market_prices", t); mp0 = cell(st0, m, "_market_prices", t)
    le = cell(le_from or st1, m, "_last_executed_prices", t)
    running = st0.read(m, "_is_running").term
    exp_none = z3.If(running, z3.If(z3.Not(le.none), False, z3.If(z3.Not(mid1.none), False, mp0.none)), mp0.none)
    exp_val = z3.If(running, z3.If(z3.Not(le.none), le.term, z3.If(z3.Not(mid1.none), mid1.term, mp0.term)), mp0.term)
    return [("C08 mid refreshed from the resulting book", z3.If(both, z3.And(z3.Not(mid1.none), mid1.term == (ps.term + pb.term) / 2), mid1.none)),
            ("C08 market price = last trade, else mid, else previous; unchanged when not running", z3.And(mp1.none == exp_none, z3.Implies(z3.Not(exp_none), mp1.term == exp_val)))]


def ao_trace(st0, st1, a, res):
    m = a["self"]
    lg = st0.read(m, "logger")
    return [event("Write", res, V(("ref", "Logger"), lg.term), guard=z3.Not(lg.none))]


ADD_ORDER = FSpec("Market._add_order", axioms=lambda st, a: market_axioms(st, a["self"]), pre=ao_pre, post=ao_post, modifies=ao_modifies,
                  raises={"ValueError": ao_raises}, trace=ao_trace, fresh_result=True, props=("C19", "C04", "C08", "C10"))


def market_callee_specs():
    return {("m", "OrderBook", "add"): B.ADD.handler(), ("m", "OrderBook", "cancel"): B.CANCEL.handler(),
            ("m", "OrderBook", "change_order_volume"): B.CHANGE_VOLUME.handler(), ("m", "OrderBook", "_set_time"): B.SET_TIME.handler(),
            ("m", "Market", "_update_market_price"): UPDATE_MARKET_PRICE.handler(),
            ("m", "Log", "read_and_write"): WRITE}


@task("Market._add_order", props=["C19", "C04", "C08", "C10", "C02"], functions=["Market._add_order", "Market.convert_to_tick_level",
      "Market.convert_to_tick_level_rounded_lower", "Market.convert_to_tick_level_rounded_upper", "OrderLog.__init__"], replay="market_ops", heavy=True)
def t_add_order():
    obl, info = ADD_ORDER.verify(specs=market_callee_specs(), setup=B.setup_book)
    return {"obligations": obl, "info": [info]}
