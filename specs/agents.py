"""Built-in agents under contract (C20): FCN order formula, market maker quotes, arbitrage basket; every emitted order is well-formed, under the agent's own id, for an accessible market."""
import z3

from pyvc.core import *   # noqa
from pyvc.spec import FSpec, LoopSpec, task, emit
from .vocab import *      # noqa

# market state seen by agents, as ghost functions (the accessors themselves are verified in tasks Market._extract_data_by_time[*], IndexMarket.*)
MP = z3.Function("market_price_at", REF, z3.IntSort(), z3.RealSort())
FP = z3.Function("fundamental_price_now", REF, z3.RealSort())


def acc_time(ex, st, recv, pos, kw, node):
    return [(st, st.read(recv, "time"))]


def acc_market_price(ex, st, recv, pos, kw, node):
    t = (pos[0] if pos else kw.get("time")) if (pos or kw) else None
    tt = st.read(recv, "time").term if t is None or t.ty[0] == "none" else (z3.If(t.none, st.read(recv, "time").term, t.term) if t.ty[0] == "opt" else t.term)
    return [(st, V(("real",), MP(recv.term, tt)))]


def acc_fundamental(ex, st, recv, pos, kw, node):
    return [(st, V(("real",), FP(recv.term)))]


ACCESSORS = {("m", "Market", "get_time"): acc_time, ("m", "Market", "get_market_price"): acc_market_price, ("m", "Market", "get_fundamental_price"): acc_fundamental}


def accessible(st, agent, mid):
    av = st.read(agent, "asset_volumes")
    return z3.Select(st.dict_dom(av), mid)


def order_is(st, o, agent, market_id, is_buy, volume, price, ttl):
    return z3.And(O(st, "agent_id")[o] == st.read(agent, "agent_id").term, O(st, "market_id")[o] == market_id, O(st, "is_buy")[o] == is_buy, O(st, "kind")[o] == 1,
                  O(st, "volume")[o] == volume, z3.Not(O(st, "price", "none")[o]), O(st, "price")[o] == price, z3.Not(O(st, "ttl", "none")[o]), O(st, "ttl")[o] == ttl,
                  O(st, "placed_at", "none")[o], O(st, "order_id", "none")[o], z3.Not(O(st, "is_canceled")[o]))


ORDER_FIELDS = ["agent_id", "market_id", "is_buy", "kind", "volume", "placed_at", "price", "order_id", "ttl", "is_canceled"]
ORDER_MODS = [("f:Order." + f, []) for f in ORDER_FIELDS] + ["len", "mem", "el:Ref", "nodup", "heapok"]
ORDER_MODS_TIGHT = [("f:Order." + f, []) for f in ORDER_FIELDS] + [(k, []) for k in ("len", "mem", "el:Ref", "nodup", "heapok")]       # only objects created by the call


# ----------------------------------------------------------------------------- FCNAgent.submit_orders_by_market
def fcn_pre(st, a):
    ag, m = a["self"], a["market"]
    R = lambda f: st.read(ag, f).term
    t = st.read(m, "time").term
    tw = z3.If(t <= R("time_window_size"), t, R("time_window_size"))
    return [("admissible parameters: weights >= 0 and not all zero, 0 <= margin <= 1 (fixed margin), timeWindowSize >= 1, meanReversionTime >= 1",
             z3.And(R("fundamental_weight") >= 0, R("chart_weight") >= 0, R("noise_weight") >= 0, R("fundamental_weight") + R("chart_weight") + R("noise_weight") > 0,
                    R("order_margin") >= 0, R("order_margin") <= 1, R("time_window_size") >= 1, R("mean_reversion_time") >= 1, R("margin_type") == 0)),
            ("market state: clock >= 0, positive market and fundamental prices", z3.And(t >= 0, MP(m.term, t) > 0, FP(m.term) > 0, MP(m.term, t - tw) > 0))]


def fcn_expected(st, ag, m, g):
    R = lambda f: st.read(ag, f).term
    t = st.read(m, "time").term
    mp = MP(m.term, t)
    tw = z3.If(t <= R("time_window_size"), t, R("time_window_size"))
    mx = lambda x: z3.If(x >= 1, x, 1)
    div = lambda a_, b_: RDIV(a_, b_)            # rdiv(a, b) is real division a / b (defining instance rdiv(a,b) * b == a supplied by the engine at each `/`)
    one = z3.RealVal(1)
    F = div(one, z3.ToReal(mx(R("mean_reversion_time")))) * LOG(div(FP(m.term), mp))
    C = div(one, z3.ToReal(mx(tw))) * LOG(div(mp, MP(m.term, t - tw)))
    N = R("noise_scale") * g
    sign = z3.If(st.read(ag, "is_chart_following").term, z3.RealVal(1), z3.RealVal(-1))
    ret = div(one, R("fundamental_weight") + R("chart_weight") + R("noise_weight")) * (R("fundamental_weight") * F + R("chart_weight") * C * sign + R("noise_weight") * N)
    return mp * EXP(ret * z3.ToReal(R("time_window_size"))), mp


FIELD_OVERRIDE[("FCNAgent", "is_chart_following")] = ("bool",)
FCN_BY_MARKET = FSpec("FCNAgent.submit_orders_by_market", pre=fcn_pre, props=("C20",), fresh_result=True, result=("list", ("ref", "Order")), modifies=lambda st, a: ORDER_MODS_TIGHT)


@task("FCNAgent.submit_orders_by_market", props=["C20"], functions=["FCNAgent.submit_orders_by_market", "Order.__init__", "Agent.is_market_accessible"], replay="agents", heavy=True)
def t_fcn():
    """fixed-margin FCN agent: buys exactly when the expected future price exceeds the market price, sells when below, at the expected price shaded by the margin"""
    def extra(ex, st0, s1, a, res):
        ag, m = a["self"], a["market"]
        n = s1.length(res.term)
        acc = accessible(st0, ag, st0.read(m, "market_id").term)
        draws = [t for t in s1.trace if t[0] == "Draw"]
        if not implied_(s1, acc):
            s1.oblige("post:C20 no order for a market the agent cannot access", z3.Implies(z3.Not(acc), n == 0), "post")
            return
        if len(draws) != 1:
            s1.oblige(f"trace:exactly one noise draw from the agent's own generator (got {len(draws)})", z3.BoolVal(False), "trace"); return
        s1.oblige("trace:the noise is drawn from the agent's own generator", draws[0][2][0] == st0.read(ag, "prng").term, "trace")
        E, mp = fcn_expected(st0, ag, m, draws[0][2][1])
        k = st0.read(ag, "order_margin").term
        o0 = z3.Select(s1.elems(res.term, ("ref", "Order")), 0)
        mid = st0.read(m, "market_id").term; tws = st0.read(ag, "time_window_size").term
        s1.oblige("post:C20 buys exactly when the expected future price exceeds the market price: one buy order of volume 1 at expected price x (1 - margin)",
                  z3.Implies(E > mp, z3.And(n == 1, order_is(s1, o0, ag, mid, True, 1, E * (1 - k), tws))), "post")
        s1.oblige("post:C20 sells exactly when the expected future price is below the market price: one sell order of volume 1 at expected price x (1 + margin)",
                  z3.Implies(E < mp, z3.And(n == 1, order_is(s1, o0, ag, mid, False, 1, E * (1 + k), tws))), "post")
        s1.oblige("post:C20 no order when the expected future price equals the market price", z3.Implies(E == mp, n == 0), "post")
    obl, info = FCN_BY_MARKET.verify(specs=dict(ACCESSORS), extra_goals=extra)
    return {"obligations": obl, "info": [info]}


def implied_(st, f):
    from pyvc.spec import implied
    return implied(st.pc, f)


# ----------------------------------------------------------------------------- MarketMakerAgent.get_base_price / submit_orders
MAXB = z3.Function("MAXB", z3.IntSort(), z3.RealSort())     # running max of the best bids of the first i accessible markets that have one (-INF if none)
MINS = z3.Function("MINS", z3.IntSort(), z3.RealSort())


def best_quote(st, m, side):
    bk = st.read(V(("ref", "Market"), m), "buy_order_book" if side == "buy" else "sell_order_book")
    q = st.read(bk, "priority_queue").term
    top = z3.Select(st.elems(q, ("ref", "Order")), 0)
    has = z3.And(st.length(q) > 0, z3.Not(O(st, "price", "none")[top]))
    return has, O(st, "price")[top]


def gbp_defs(st, a):
    ag, mk = a["self"], a["markets"]
    i = z3.Int("i_gbp")
    m_i = z3.Select(st.elems(mk.term, ("ref", "Market")), i)
    acc = accessible(st, ag, st.F("Market", "market_id")[m_i])
    hb, pb = best_quote(st, m_i, "buy"); hs, ps = best_quote(st, m_i, "sell")
    n = st.length(mk.term)
    return [MAXB(0) == -INF, MINS(0) == INF,
            z3.ForAll([i], z3.Implies(z3.And(0 <= i, i < n), z3.And(MAXB(i + 1) == z3.If(z3.And(acc, hb), z3.If(MAXB(i) >= pb, MAXB(i), pb), MAXB(i)),
                                                                    MINS(i + 1) == z3.If(z3.And(acc, hs), z3.If(MINS(i) <= ps, MINS(i), ps), MINS(i))))),
            z3.ForAll([i], z3.Implies(z3.And(0 <= i, i < n), z3.And(z3.Implies(hb, z3.And(-INF < pb, pb < INF)), z3.Implies(hs, z3.And(-INF < ps, ps < INF))))), INF > 0]


def gbp_post(st0, st1, a, res):
    n = st0.length(a["markets"].term)
    none = z3.Or(MAXB(n) == -INF, MINS(n) == INF)
    rn = res.none if res.ty[0] == "opt" else z3.BoolVal(res.ty[0] == "none")
    rv = res.term if res.term is not None else z3.RealVal(0)
    return [("base price = (highest best bid + lowest best ask over accessible markets) / 2; None when one of the two does not exist",
             z3.And(rn == none, z3.Implies(z3.Not(none), rv == (MAXB(n) + MINS(n)) / 2)))]


GET_BASE_PRICE = FSpec("MarketMakerAgent.get_base_price", post=gbp_post, props=("C20",), result=("opt", ("real",)),
                       axioms=lambda st, a: gbp_defs(st.ghost.get("entry_view", st), a), pre=lambda st, a: [("len >= 0", st.length(a["markets"].term) >= 0)])


def gbp_loops():
    inv1 = lambda st, ctx: [("max_buy = running maximum of the accessible best bids", st.env["max_buy"].term == MAXB(ctx["i"]))]
    inv2 = lambda st, ctx: [("min_sell = running minimum of the accessible best asks", st.env["min_sell"].term == MINS(ctx["i"])),
                            ("max_buy settled", st.env["max_buy"].term == MAXB(ctx["n"]))]
    return {0: LoopSpec(inv1, header="markets", name="best-bids"), 1: LoopSpec(inv2, header="markets", name="best-asks")}


@task("MarketMakerAgent.get_base_price", props=["C20"], functions=["MarketMakerAgent.get_base_price", "Market.get_best_buy_price", "Market.get_best_sell_price"], replay="agents")
def t_base_price():
    def setup(ex, st, a):
        st.ghost["entry_view"] = st.copy()
    obl, info = GET_BASE_PRICE.verify(loops=gbp_loops(), setup=setup)
    return {"obligations": obl, "info": [info]}


def mm_pre(st, a):
    ag = a["self"]
    tm = st.read(ag, "target_market")
    return [("admissible parameters: order lifetime >= 1", st.read(ag, "order_time_length").term >= 1), ("len >= 0", st.length(a["markets"].term) >= 0)]


def mm_post(st0, st1, a, res):
    ag = a["self"]
    tm = st0.read(ag, "target_market")
    n = st1.length(res.term)
    o0 = z3.Select(st1.elems(res.term, ("ref", "Order")), 0); o1 = z3.Select(st1.elems(res.term, ("ref", "Order")), 1)
    nm = st0.length(a["markets"].term)
    none = z3.Or(MAXB(nm) == -INF, MINS(nm) == INF)
    base = z3.If(none, MP(tm.term, st0.read(tm, "time").term), (MAXB(nm) + MINS(nm)) / 2)
    margin = FP(tm.term) * st0.read(ag, "net_interest_spread").term * z3.RealVal("0.5")
    mid = st0.read(tm, "market_id").term; ttl = st0.read(ag, "order_time_length").term
    return [("C20 exactly one buy and one sell limit order of volume 1 on the target market, under the agent's own id",
             z3.And(n == 2, order_is(st1, o0, ag, mid, True, 1, base - margin, ttl), order_is(st1, o1, ag, mid, False, 1, base + margin, ttl))),
            ("C20 quotes symmetric around the base price and separated by fundamental price x spread",
             z3.And(O(st1, "price")[o0] + O(st1, "price")[o1] == 2 * base, O(st1, "price")[o1] - O(st1, "price")[o0] == FP(tm.term) * st0.read(ag, "net_interest_spread").term))]


MM_SUBMIT = FSpec("MarketMakerAgent.submit_orders", pre=mm_pre, post=mm_post, props=("C20",), fresh_result=True, result=("list", ("ref", "Order")), modifies=lambda st, a: ORDER_MODS,
                  axioms=lambda st, a: gbp_defs(st.ghost.get("entry_view", st), a))


@task("MarketMakerAgent.submit_orders", props=["C20"], functions=["MarketMakerAgent.submit_orders"], replay="agents")
def t_mm_submit():
    def setup(ex, st, a):
        st.ghost["entry_view"] = st.copy()
    specs = dict(ACCESSORS); specs[("m", "MarketMakerAgent", "get_base_price")] = GET_BASE_PRICE.handler()
    obl, info = MM_SUBMIT.verify(specs=specs, setup=setup)
    return {"obligations": obl, "info": [info]}


# ----------------------------------------------------------------------------- ArbitrageAgent._submit_orders
IDX = z3.Function("computed_index", REF, z3.RealSort())       # IndexMarket.get_index() (task IndexMarket.get_index: share-weighted average)


def arb_specs():
    sp = dict(ACCESSORS)
    sp[("m", "IndexMarket", "get_index")] = lambda ex, st, recv, pos, kw, node: [(st, V(("real",), IDX(recv.term)))]
    return sp


def arb_pre(st, a):
    ag, m = a["self"], a["market"]
    comps = st.read(V(("ref", "IndexMarket"), m.term), "_components").term
    i = z3.Int("i_arb")
    return [("admissible parameters: order volume >= 1, lifetime >= 1", z3.And(st.read(ag, "order_volume").term >= 1, st.read(ag, "order_time_length").term >= 1)),
            ("the index has at least one component", st.length(comps) >= 1)]


def arb_basket_clauses(st0, st1, ag, m, rel, base, n):
    """the basket that market `m` calls for (read in st0) occupies rel[base .. base+n) (orders read in st1)"""
    ix = V(("ref", "IndexMarket"), m.term)
    comps = st0.read(ix, "_components").term; cel = st0.elems(comps, ("ref", "Market")); nc = st0.length(comps)
    i = z3.Int("i_arbp")
    t = st0.read(m, "time").term
    mp = MP(m.term, t); idx = IDX(m.term); thr = to_real(st0.read(ag, "order_threshold_price"))
    v = st0.read(ag, "order_volume").term; ttl = st0.read(ag, "order_time_length").term
    run = st0.F("Market", "_is_running")
    allrun = z3.ForAll([i], z3.Implies(z3.And(0 <= i, i < nc), run[z3.Select(cel, i)]))
    active = z3.And(is_instance("IndexMarket", m.term), accessible(st0, ag, st0.read(m, "market_id").term), run[m.term], allrun)
    cheap = z3.And(mp < idx, idx - mp > thr); dear = z3.And(mp > idx, mp - idx > thr)
    def basket(index_buys):
        comp_i = z3.Select(cel, i - base - 1)
        return z3.And(n == nc + 1, order_is(st1, z3.Select(rel, base), ag, st0.read(m, "market_id").term, index_buys, nc * v, mp, ttl),
                      z3.ForAll([i], z3.Implies(z3.And(base + 1 <= i, i <= base + nc), order_is(st1, z3.Select(rel, i), ag, st0.F("Market", "market_id")[comp_i], not index_buys, v,
                                                                                                 MP(comp_i, st0.F("Market", "time")[comp_i]), ttl))))
    return [("C20 no order unless the market is an accessible, running index market whose components all run and the gap exceeds the threshold", z3.Implies(z3.Not(z3.And(active, z3.Or(cheap, dear))), n == 0)),
            ("C20 index below the computed index by more than the threshold: buy n x v of the index, sell v of every component", z3.Implies(z3.And(active, cheap), basket(True))),
            ("C20 index above the computed index by more than the threshold: sell n x v of the index, buy v of every component", z3.Implies(z3.And(active, dear), basket(False)))]


def arb_post(st0, st1, a, res):
    ag, m = a["self"], a["market"]
    n = st1.length(res.term); rel = st1.elems(res.term, ("ref", "Order")); j = z3.Int("j_arbf")
    return arb_basket_clauses(st0, st1, ag, m, rel, z3.IntVal(0), n) + [
        ("every returned order is an object created by this call", z3.ForAll([j], z3.Implies(z3.And(0 <= j, j < n), z3.And(z3.Not(st0.is_alloc(z3.Select(rel, j))), st1.is_alloc(z3.Select(rel, j))))))]


ARB_SUBMIT = FSpec("ArbitrageAgent._submit_orders", pre=arb_pre, post=arb_post, props=("C20",), fresh_result=True, result=("list", ("ref", "Order")), modifies=lambda st, a: ORDER_MODS_TIGHT)
ARB_SUBMIT.may_raise = {"NotImplementedError": lambda st, a: z3.BoolVal(True)}      # components with unequal outstanding shares are refused (documented limitation)


def arb_loops(index_buys):
    def inv(st, ctx):
        e = st.env; i = ctx["i"]; ent = ctx["fn_entry"]
        ag, ixm = e["self"], e["index"]
        orders = e["orders"].term; rel = st.elems(orders, ("ref", "Order"))
        comps = ent.read(ixm, "_components").term; cel = ent.elems(comps, ("ref", "Market"))
        j = z3.Int("j_arbl")
        v = ent.read(ag, "order_volume").term; ttl = ent.read(ag, "order_time_length").term
        comp_j = z3.Select(cel, j - 1)
        t = ent.read(V(("ref", "Market"), ixm.term), "time").term
        return [("one index order plus one order per component handled so far", st.length(orders) == i + 1),
                ("the index order is kept", order_is(st, z3.Select(rel, 0), ag, ent.read(ixm, "market_id").term, index_buys, ent.length(comps) * v, MP(ixm.term, t), ttl)),
                ("component orders so far: v on the opposite side at the component's market price",
                 z3.ForAll([j], z3.Implies(z3.And(1 <= j, j <= i), order_is(st, z3.Select(rel, j), ag, ent.F("Market", "market_id")[comp_j], not index_buys, v, MP(comp_j, ent.F("Market", "time")[comp_j]), ttl)))),
                ("orders are objects created by this call", z3.And(z3.Not(ent.is_alloc(orders)), z3.ForAll([j], z3.Implies(z3.And(0 <= j, j <= i), z3.And(z3.Not(ent.is_alloc(z3.Select(rel, j))), st.is_alloc(z3.Select(rel, j)))))))]
    mods = lambda st, ctx: [("f:Order." + f, []) for f in ORDER_FIELDS] + [(k, [st.env["orders"].term]) for k in ("len", "mem", "el:Ref", "nodup", "heapok")]
    return LoopSpec(inv, modifies=mods, header="spots", name="component-orders-" + ("sell" if index_buys else "buy"), frame_since_entry=False)


@task("ArbitrageAgent._submit_orders", props=["C20"], functions=["ArbitrageAgent._submit_orders", "IndexMarket.is_all_markets_running", "IndexMarket.get_components"], replay="agents", heavy=True)
def t_arbitrage():
    obl, info = ARB_SUBMIT.verify(specs=arb_specs(), loops={0: arb_loops(True), 1: arb_loops(False)})
    return {"obligations": obl, "info": [info]}


# ----------------------------------------------------------------------------- ArbitrageAgent.submit_orders: the result is the concatenation, in list order, of the baskets of the listed markets (C20)
ARB_OFF = z3.Function("arb_basket_offset", z3.IntSort(), z3.IntSort())       # spec function: where the basket of the k-th listed market starts in the result
ARB_LEN = z3.Function("arb_basket_length", z3.IntSort(), z3.IntSort())       # spec function: its length (0, or 1 + number of components), determined by the entry state


def _arb_market(st, a, k):
    ms = a["markets"]
    return V(("ref", "Market"), z3.Select(st.elems(ms.term, ("ref", "Market")), k))


def arb_len_def(st0, a, k):
    """ARB_LEN(k) / ARB_OFF(k+1) for one k, read in the entry state"""
    ag = a["self"]; m = _arb_market(st0, a, k)
    ix = V(("ref", "IndexMarket"), m.term)
    comps = st0.read(ix, "_components").term; cel = st0.elems(comps, ("ref", "Market")); nc = st0.length(comps)
    i = z3.Int("i_arbd")
    t = st0.read(m, "time").term
    mp = MP(m.term, t); idx = IDX(m.term); thr = to_real(st0.read(ag, "order_threshold_price"))
    run = st0.F("Market", "_is_running")
    allrun = z3.ForAll([i], z3.Implies(z3.And(0 <= i, i < nc), run[z3.Select(cel, i)]))
    active = z3.And(is_instance("IndexMarket", m.term), accessible(st0, ag, st0.read(m, "market_id").term), run[m.term], allrun)
    gap = z3.Or(z3.And(mp < idx, idx - mp > thr), z3.And(mp > idx, mp - idx > thr))
    return z3.And(ARB_LEN(k) == z3.If(z3.And(active, gap), nc + 1, 0), ARB_OFF(k + 1) == ARB_OFF(k) + ARB_LEN(k))


def arb_wrap_axioms(st0, a):
    k = z3.Int("k_arbx"); nm = st0.length(a["markets"].term)
    return [ARB_OFF(0) == 0, z3.ForAll([k], z3.Implies(z3.And(0 <= k, k < nm), arb_len_def(st0, a, k)), patterns=[ARB_LEN(k)])]


def arb_wrap_pre(st, a):
    k = z3.Int("k_arbw"); nm = st.length(a["markets"].term)
    m = _arb_market(st, a, k)
    per = z3.And(*[f for _, f in arb_pre(st, {"self": a["self"], "market": m})])
    closed = z3.And(st.is_alloc(m.term), st.is_alloc(st.read(V(("ref", "IndexMarket"), m.term), "_components").term))
    return [("len >= 0", nm >= 0), ("every listed index market satisfies the basket preconditions", z3.ForAll([k], z3.Implies(z3.And(0 <= k, k < nm), per))),
            ("closed heap: the listed markets and their component lists are existing objects", z3.ForAll([k], z3.Implies(z3.And(0 <= k, k < nm), closed)))]


def arb_wrap_post(st0, st1, a, res):
    k = z3.Int("k_arbq"); nm = st0.length(a["markets"].term)
    rel = st1.elems(res.term, ("ref", "Order"))
    per = z3.And(*[f for _, f in arb_basket_clauses(st0, st1, a["self"], _arb_market(st0, a, k), rel, ARB_OFF(k), ARB_LEN(k))])
    return [("C20 the result has exactly the orders of the baskets", st1.length(res.term) == ARB_OFF(nm)),
            ("C20 the basket of the k-th listed market occupies result[offset(k) .. offset(k+1)) - nothing dropped, repeated, reordered or added", z3.ForAll([k], z3.Implies(z3.And(0 <= k, k < nm), per), patterns=[ARB_LEN(k)]))]


ARB_WRAP = FSpec("ArbitrageAgent.submit_orders", pre=arb_wrap_pre, post=arb_wrap_post, props=("C20",), fresh_result=True, result=("list", ("ref", "Order")), modifies=lambda st, a: ORDER_MODS_TIGHT,
                 axioms=arb_wrap_axioms)
ARB_WRAP.may_raise = {"NotImplementedError": lambda st, a: z3.BoolVal(True)}


def arb_wrap_loops():
    def args(st):
        return {"self": st.env["self"], "markets": st.env["markets"]}

    def inv(st, ctx):
        i = ctx["i"]; ent = ctx["fn_entry"]; a = args(st)
        orders = st.env["orders"].term; rel = st.elems(orders, ("ref", "Order"))
        k, j = z3.Ints("k_arbi j_arbi")
        per = z3.And(*[f for _, f in arb_basket_clauses(ent, st, a["self"], _arb_market(ent, a, k), rel, ARB_OFF(k), ARB_LEN(k))])
        return [("the orders collected so far are exactly the baskets of the markets handled so far", z3.And(st.length(orders) == ARB_OFF(i), ARB_OFF(i) >= 0)),
                ("earlier baskets lie inside what has been collected", z3.ForAll([k], z3.Implies(z3.And(0 <= k, k < i), z3.And(0 <= ARB_OFF(k), 0 <= ARB_LEN(k), ARB_OFF(k) + ARB_LEN(k) <= ARB_OFF(i))), patterns=[ARB_LEN(k)])),
                ("baskets so far", z3.ForAll([k], z3.Implies(z3.And(0 <= k, k < i), per), patterns=[ARB_LEN(k)])),
                ("the result list and its orders are objects created by this call",
                 z3.And(z3.Not(ent.is_alloc(orders)), st.is_alloc(orders), z3.ForAll([j], z3.Implies(z3.And(0 <= j, j < st.length(orders)), z3.And(z3.Not(ent.is_alloc(z3.Select(rel, j))), st.is_alloc(z3.Select(rel, j)))))))]

    def on_iter(ex, st, ctx):
        # the defining equations of the two spec functions at the current index (an instance of the axiom)
        st.assume(arb_len_def(ctx["fn_entry"], args(st), ctx["i"]))
    return {0: LoopSpec(inv, modifies=lambda st, ctx: ORDER_MODS_TIGHT, header="markets", name="baskets", on_iter=on_iter, frame_since_entry=True)}


@task("ArbitrageAgent.submit_orders", props=["C20"], functions=["ArbitrageAgent.submit_orders"], replay="agents")
def t_arbitrage_wrapper():
    """lemma over the contract of _submit_orders: the public entry point concatenates the per-market baskets"""
    specs = arb_specs()
    specs[("m", "ArbitrageAgent", "_submit_orders")] = ARB_SUBMIT.handler()
    obl, info = ARB_WRAP.verify(specs=specs, loops=arb_wrap_loops())
    return {"obligations": obl, "info": [info]}


# ----------------------------------------------------------------------------- Agent holdings accessors and Agent.setup (C18: accessible markets = the listed ids; C05: nothing else writes holdings)
def _av(st, ag):
    return st.read(ag, "asset_volumes")


def _av_frame(st0, st1, ag, mid, newval=None):
    """whole-view postcondition of the holdings map: domain and every other value unchanged"""
    d0, d1 = _av(st0, ag), _av(st1, ag)
    k = z3.Int("k_av")
    parts = [d1.term == d0.term, z3.ForAll([k], z3.Select(st1.dict_dom(d1), k) == z3.Or(z3.Select(st0.dict_dom(d0), k), k == mid)),
             z3.ForAll([k], z3.Implies(k != mid, z3.Select(st1.dict_val(d1), k) == z3.Select(st0.dict_val(d0), k)))]
    if newval is not None:
        parts.append(z3.Select(st1.dict_val(d1), mid) == newval)
    return z3.And(*parts)


AV_MODS = lambda st, a: [("dd:Int_Int", [_av(st, a["self"]).term]), ("dv:Int_Int", [_av(st, a["self"]).term])]
IS_ACCESSIBLE = FSpec("Agent.is_market_accessible", props=("C18", "C20"), result=("bool",), modifies=lambda st, a: [],
                      post=lambda st0, st1, a, res: [("accessible iff the id is a key of the holdings map", res.term == accessible(st0, a["self"], a["market_id"].term))])
SET_ACCESSIBLE = FSpec("Agent.set_market_accessible", props=("C18",), modifies=AV_MODS, raises={"ValueError": lambda st, a: accessible(st, a["self"], a["market_id"].term)},
                       post=lambda st0, st1, a, res: [("the id becomes accessible with position 0; nothing else in the holdings map changes", _av_frame(st0, st1, a["self"], a["market_id"].term, 0))])
SET_VOLUME = FSpec("Agent.set_asset_volume", props=("C18", "C05"), modifies=AV_MODS, raises={"ValueError": lambda st, a: z3.Not(accessible(st, a["self"], a["market_id"].term))},
                   post=lambda st0, st1, a, res: [("the position of that market is the given volume; nothing else changes", _av_frame(st0, st1, a["self"], a["market_id"].term, a["volume"].term))])
UPD_VOLUME = FSpec("Agent.update_asset_volume", props=("C05",), modifies=AV_MODS, raises={"ValueError": lambda st, a: z3.Not(accessible(st, a["self"], a["market_id"].term))},
                   post=lambda st0, st1, a, res: [("the position of that market moves by delta; nothing else changes",
                                                   _av_frame(st0, st1, a["self"], a["market_id"].term, z3.Select(st0.dict_val(_av(st0, a["self"])), a["market_id"].term) + a["delta"].term))])
GET_VOLUME = FSpec("Agent.get_asset_volume", props=("C05",), modifies=lambda st, a: [], result=("int",), raises={"ValueError": lambda st, a: z3.Not(accessible(st, a["self"], a["market_id"].term))},
                   post=lambda st0, st1, a, res: [("the stored position", res.term == z3.Select(st0.dict_val(_av(st0, a["self"])), a["market_id"].term))])
UPD_CASH = FSpec("Agent.update_cash_amount", props=("C05",), modifies=lambda st, a: [("f:Agent.cash_amount", [a["self"].term])],
                 post=lambda st0, st1, a, res: [("cash moves by delta", st1.read(a["self"], "cash_amount").term == st0.read(a["self"], "cash_amount").term + to_real(a["delta"]))])
SET_CASH = FSpec("Agent.set_cash_amount", props=("C05",), modifies=lambda st, a: [("f:Agent.cash_amount", [a["self"].term])],
                 post=lambda st0, st1, a, res: [("cash is the given amount", st1.read(a["self"], "cash_amount").term == to_real(a["cash_amount"]))])
GET_CASH = FSpec("Agent.get_cash_amount", props=("C05",), modifies=lambda st, a: [], result=("real",),
                 post=lambda st0, st1, a, res: [("the stored cash", to_real(res) == st0.read(a["self"], "cash_amount").term)])

for _spec in (IS_ACCESSIBLE, SET_ACCESSIBLE, SET_VOLUME, UPD_VOLUME, GET_VOLUME, UPD_CASH, SET_CASH, GET_CASH):
    def _mk(spec):
        def build():
            extra = {} if spec is IS_ACCESSIBLE else {("m", "Agent", "is_market_accessible"): IS_ACCESSIBLE.handler()}
            obl, info = spec.verify(specs=extra)
            return {"obligations": obl, "info": [info]}
        build.__doc__ = spec.qual + ": holdings accessor against its whole-view contract"
        return build
    task(_spec.qual, props=list(_spec.props), functions=[_spec.qual], replay="holdings")(_mk(_spec))


# ----------------------------------------------------------------------------- Agent.setup: accessible markets are exactly the given ids (C18), every position an int draw
def _setup_ids(st, a):
    ids = a["accessible_markets_ids"]
    return ids.term, st.length(ids.term, ("int",)), st.elems(ids.term, ("int",))


def agent_setup_pre(st, a):
    from .config import JSON_RANDOM
    s = a["settings"]
    L, n, el = _setup_ids(st, a)
    pres = [("len >= 0", n >= 0)]
    for key in ("cashAmount", "assetVolume"):
        jv = V(("dyn",), z3.Select(st.dict_val(s), z3.StringVal(key)))
        for label, f in JSON_RANDOM.pre(st, {"json_value": jv}):
            pres.append((f"{key}: {label}", z3.Implies(z3.Select(st.dict_dom(s), z3.StringVal(key)), f)))
    return pres


def agent_setup_bad_ids(st, a):
    L, n, el = _setup_ids(st, a)
    i, j = z3.Ints("i_as j_as")
    return z3.Or(z3.Exists([i], z3.And(0 <= i, i < n, accessible(st, a["self"], z3.Select(el, i)))),
                 z3.Exists([i, j], z3.And(0 <= i, i < j, j < n, z3.Select(el, i) == z3.Select(el, j))))


def _jr_bad(st, a, key):
    from .config import jr_raises
    s = a["settings"]
    return jr_raises(st, {"json_value": V(("dyn",), z3.Select(st.dict_val(s), z3.StringVal(key)))})


def agent_setup_raises(st, a):
    s = a["settings"]; L, n, el = _setup_ids(st, a)
    has = lambda key: z3.Select(st.dict_dom(s), z3.StringVal(key))
    return z3.Or(z3.Not(has("cashAmount")), _jr_bad(st, a, "cashAmount"), z3.Not(has("assetVolume")), z3.And(n > 0, z3.Or(agent_setup_bad_ids(st, a), _jr_bad(st, a, "assetVolume"))))


def _asset_spec(st, a):
    return z3.Select(st.dict_val(a["settings"]), z3.StringVal("assetVolume"))


def _plain_int(st, a):
    v = _asset_spec(st, a)
    return z3.And(z3.Not(dyn_is_list(v)), z3.Not(dyn_is_dict(v)), dyn_is_int(v))


def _plain_int_value(st, a):
    return dyn_int(_asset_spec(st, a))


def agent_setup_post(st0, st1, a, res):
    L, n, el = _setup_ids(st0, a)
    ag = a["self"]; k, i = z3.Ints("k_as i_as2")
    d0, d1 = _av(st0, ag), _av(st1, ag)
    return [("C18 the agent can access exactly the markets it could before plus the listed ids",
             z3.And(d1.term == d0.term, z3.ForAll([k], z3.Select(st1.dict_dom(d1), k) == z3.Or(z3.Select(st0.dict_dom(d0), k), z3.Exists([i], z3.And(0 <= i, i < n, z3.Select(el, i) == k)))))),
            ("positions of markets that were accessible before are untouched",
             z3.ForAll([k], z3.Implies(z3.Select(st0.dict_dom(d0), k), z3.Select(st1.dict_val(d1), k) == z3.Select(st0.dict_val(d0), k)))),
            ("an integer assetVolume is the initial position of every listed market",
             z3.Implies(_plain_int(st0, a), z3.ForAll([i], z3.Implies(z3.And(0 <= i, i < n), z3.Select(st1.dict_val(d1), z3.Select(el, i)) == _plain_int_value(st0, a)))))]


def agent_setup_loops():
    def inv(st, ctx):
        i = ctx["i"]; e = ctx["entry"]; ag = st.env["self"]
        a = {"self": ag, "accessible_markets_ids": st.env["accessible_markets_ids"], "settings": st.env["settings"]}
        L, n, el = _setup_ids(e, a)
        k, j = z3.Ints("k_asl j_asl")
        d0, d1 = _av(e, ag), _av(st, ag)
        return [("accessible = before + the first i ids", z3.And(d1.term == d0.term, z3.ForAll([k], z3.Select(st.dict_dom(d1), k) == z3.Or(z3.Select(e.dict_dom(d0), k), z3.Exists([j], z3.And(0 <= j, j < i, z3.Select(el, j) == k)))))),
                ("old positions untouched", z3.ForAll([k], z3.Implies(z3.Select(e.dict_dom(d0), k), z3.Select(st.dict_val(d1), k) == z3.Select(e.dict_val(d0), k)))),
                ("the asset volume specification was accepted if an iteration has completed", z3.Implies(i > 0, z3.Not(_jr_bad(e, a, "assetVolume")))),
                ("an integer assetVolume is the position of the first i ids", z3.Implies(_plain_int(e, a), z3.ForAll([j], z3.Implies(z3.And(0 <= j, j < i), z3.Select(st.dict_val(d1), z3.Select(el, j)) == _plain_int_value(e, a))))),
                ("the first i ids were fresh and pairwise distinct", z3.And(z3.ForAll([j], z3.Implies(z3.And(0 <= j, j < i), z3.Not(z3.Select(e.dict_dom(d0), z3.Select(el, j))))),
                                                                            z3.ForAll([j, k], z3.Implies(z3.And(0 <= j, j < k, k < i), z3.Select(el, j) != z3.Select(el, k)))))]
    return {0: LoopSpec(inv, modifies=lambda st, ctx: [("dd:Int_Int", [_av(st, st.env["self"]).term]), ("dv:Int_Int", [_av(st, st.env["self"]).term])] + PRNG_MODS,
                        header="accessible_markets_ids", name="accessible-ids")}


PRNG_MODS = ["g:draws"]
AGENT_SETUP = FSpec("Agent.setup", pre=agent_setup_pre, post=agent_setup_post, props=("C18",), param_types={"settings": ("dict", ("str",), ("dyn",)), "accessible_markets_ids": ("list", ("int",))},
                    raises={"ValueError": lambda st, a: agent_setup_raises(st, a)},
                    modifies=lambda st, a: [("dd:Int_Int", [_av(st, a["self"]).term]), ("dv:Int_Int", [_av(st, a["self"]).term]), ("f:Agent.cash_amount", [a["self"].term])] + PRNG_MODS)


@task("Agent.setup", props=["C18"], functions=["Agent.setup"], replay="config")
def t_agent_setup():
    """Agent.setup: the accessible set grows by exactly the listed ids (loop invariant over the id list); the accessors are used through their contracts"""
    from .config import JSON_RANDOM
    specs = {("m", "Agent", "is_market_accessible"): IS_ACCESSIBLE.handler(), ("m", "Agent", "set_market_accessible"): SET_ACCESSIBLE.handler(),
             ("m", "Agent", "set_asset_volume"): SET_VOLUME.handler(), ("m", "JsonRandom", "random"): JSON_RANDOM.handler()}
    obl, info = AGENT_SETUP.verify(specs=specs, loops=agent_setup_loops())
    return {"obligations": obl, "info": [info]}


# ----------------------------------------------------------------------------- MarketShareFCNAgent.submit_orders: the FCN order of ONE accessible market of the list (C20)
def fcn_wf_post(st0, st1, a, res):
    """call-site view of FCNAgent.submit_orders_by_market (proved together with the strategy clauses in task FCNAgent.submit_orders_by_market)"""
    ag, m = a["self"], a["market"]
    n = st1.length(res.term); i = z3.Int("i_fwf")
    el = st1.elems(res.term, ("ref", "Order"))
    mid = st0.read(m, "market_id").term
    return [("C20 at most one order, none for a market the agent cannot access", z3.And(n >= 0, n <= 1, z3.Implies(z3.Not(accessible(st0, ag, mid)), n == 0))),
            ("C20 every emitted order is a well-formed limit order under the agent's own id for that market",
             z3.ForAll([i], z3.Implies(z3.And(0 <= i, i < n), z3.And(O(st1, "agent_id")[z3.Select(el, i)] == st0.read(ag, "agent_id").term, O(st1, "market_id")[z3.Select(el, i)] == mid,
                                                                       O(st1, "kind")[z3.Select(el, i)] == 1, O(st1, "volume")[z3.Select(el, i)] == 1, z3.Not(O(st1, "price", "none")[z3.Select(el, i)]),
                                                                       O(st1, "placed_at", "none")[z3.Select(el, i)], O(st1, "order_id", "none")[z3.Select(el, i)], z3.Not(O(st1, "is_canceled")[z3.Select(el, i)]))))),
            ("every returned order is an object created by this call", z3.ForAll([i], z3.Implies(z3.And(0 <= i, i < n), z3.And(z3.Not(st0.is_alloc(z3.Select(el, i))), st1.is_alloc(z3.Select(el, i))))))]


FCN_BY_MARKET.post = fcn_wf_post
SUM_TRADE_VOLUME = FSpec("MarketShareFCNAgent.get_sum_trade_volume", props=("C20",), result=("int",), modifies=lambda st, a: [])      # result unconstrained: only used as a weight


def ms_pre(st, a):
    ag, ms = a["self"], a["markets"]
    n = st.length(ms.term); el = st.elems(ms.term, ("ref", "Market")); i = z3.Int("i_msp")
    mk = lambda j: V(("ref", "Market"), z3.Select(el, j))
    fp = []
    for label, f in fcn_pre(st, {"self": ag, "market": mk(i)}):
        fp.append(f)
    return [("len >= 0", n >= 0), ("every listed market satisfies the FCN preconditions (admissible parameters, positive prices)", z3.ForAll([i], z3.Implies(z3.And(0 <= i, i < n), z3.And(*fp))))]


def ms_some_accessible(st, a):
    ag, ms = a["self"], a["markets"]
    n = st.length(ms.term); el = st.elems(ms.term, ("ref", "Market")); i = z3.Int("i_msa")
    return z3.Exists([i], z3.And(0 <= i, i < n, accessible(st, ag, st.read(V(("ref", "Market"), z3.Select(el, i)), "market_id").term)))


def ms_post(st0, st1, a, res):
    ag, ms = a["self"], a["markets"]
    n = st0.length(ms.term); el = st0.elems(ms.term, ("ref", "Market")); i, j = z3.Ints("i_mso j_mso")
    rn = st1.length(res.term); rel = st1.elems(res.term, ("ref", "Order"))
    mkid = lambda k: st0.read(V(("ref", "Market"), z3.Select(el, k)), "market_id").term
    return [("C20 at most one order", z3.And(rn >= 0, rn <= 1)),
            ("C20 every emitted order is under the agent's own id, for ONE market of the given list that the agent can access",
             z3.Exists([j], z3.And(0 <= j, j < n, accessible(st0, ag, mkid(j)),
                                   z3.ForAll([i], z3.Implies(z3.And(0 <= i, i < rn), z3.And(O(st1, "agent_id")[z3.Select(rel, i)] == st0.read(ag, "agent_id").term, O(st1, "market_id")[z3.Select(rel, i)] == mkid(j),
                                                                                               O(st1, "kind")[z3.Select(rel, i)] == 1, O(st1, "volume")[z3.Select(rel, i)] == 1))))))]


MS_SUBMIT = FSpec("MarketShareFCNAgent.submit_orders", pre=ms_pre, post=ms_post, props=("C20",), fresh_result=True, result=("list", ("ref", "Order")), modifies=lambda st, a: ORDER_MODS + ["len:Real", "el:Real", "g:draws"],
                  raises={"AssertionError": lambda st, a: z3.Not(ms_some_accessible(st, a))})


def _ms_weights_name():
    """the weight list, found by role (robust against renaming): the one list the weighting loop appends to"""
    import ast
    from pyvc.src import get_src
    fn = get_src().funcs["MarketShareFCNAgent.submit_orders"][0]
    loops = [n for n in ast.walk(fn) if isinstance(n, ast.For)]
    if len(loops) != 1:
        raise Unsupported("anchor-lost: the weighting loop of MarketShareFCNAgent.submit_orders")
    names = {n.func.value.id for n in ast.walk(loops[0]) if isinstance(n, ast.Call) and isinstance(n.func, ast.Attribute) and n.func.attr == "append" and isinstance(n.func.value, ast.Name)}
    if len(names) != 1:
        raise Unsupported("anchor-lost: the weight list of MarketShareFCNAgent.submit_orders")
    return names.pop(), ast.unparse(loops[0].iter)


def ms_loops():
    wname, header = _ms_weights_name()

    def inv(st, ctx):
        i = ctx["i"]
        w = st.env[wname]
        return [("one weight per accessible market so far", st.length(w.term, ("real",)) == i)]
    return {0: LoopSpec(inv, modifies=lambda st, ctx: [("len:Real", [st.env[wname].term]), ("el:Real", [st.env[wname].term])], header=header, name="weights")}


@task("MarketShareFCNAgent.submit_orders", props=["C20"], functions=["MarketShareFCNAgent.submit_orders"], replay="agents")
def t_market_share():
    """MarketShareFCNAgent: picks one accessible market of the list (any, with the generator's weighted choice) and returns that market's FCN order"""
    specs = dict(ACCESSORS)
    base_by_market = FCN_BY_MARKET.handler()

    def by_market_of_choice(ex, st, recv, pos, kw, node):
        # call-site obligation: the venue handed to the FCN strategy is one the agent can access (the weighted draw runs over the accessible markets only; an
        # inaccessible venue would silently swallow the agent's decision, because submit_orders_by_market answers it with no order)
        mkt = kw.get("market", pos[0] if pos else None)
        st = st.copy()
        st.oblige("C20 the market drawn by traded-volume share is one the agent can access", accessible(st, recv, st.read(mkt, "market_id").term), "pre@callsite")
        return base_by_market(ex, st, recv, pos, kw, node)
    specs.update({("m", "Agent", "is_market_accessible"): IS_ACCESSIBLE.handler(), ("m", "MarketShareFCNAgent", "get_sum_trade_volume"): SUM_TRADE_VOLUME.handler(),
                  ("m", "FCNAgent", "submit_orders_by_market"): by_market_of_choice})
    obl, info = MS_SUBMIT.verify(specs=specs, loops=ms_loops())
    return {"obligations": obl, "info": [info]}


# ----------------------------------------------------------------------------- FCNAgent.submit_orders: each listed market consulted exactly once, in order; result = concatenation of the per-market results (C20)
def fcn_wrap_task():
    INT_REF = lambda: z3.ArraySort(z3.IntSort(), REF); INT_INT = lambda: z3.ArraySort(z3.IntSort(), z3.IntSort())
    SRC = lambda st: st.gh("fw_src", INT_REF)          # ghost: the list returned by the consultation of position k
    OFF = lambda st: st.gh("fw_off", INT_INT)          # ghost: length of the accumulated result before position k is added
    CALLS = lambda st: st.gh("fw_calls", INT_INT)      # ghost: number of consultations made for position k
    OTY = ("ref", "Order")

    def market_at(st, k):
        return V(("ref", "Market"), z3.Select(st.elems(st.env["markets"].term, ("ref", "Market")), k))

    def segments(ent, st, ag, mk, acc, upto, k):
        """facts about position k (< upto): its consultation's result is the k-th segment of `acc`, and is a well-formed answer for the k-th market"""
        off, src = OFF(st), SRC(st)
        lst = z3.Select(src, k); n = z3.Select(off, k + 1) - z3.Select(off, k)
        wf = z3.And(*[f for _, f in fcn_wf_post(ent, st, {"self": ag, "market": mk(k)}, V(("list", OTY), lst))])
        return z3.And(z3.Select(off, k) >= 0, n >= 0, n <= 1, z3.Select(off, k + 1) <= z3.Select(off, upto), n == st.length(lst), st.is_alloc(lst), z3.Not(ent.is_alloc(lst)), lst != acc,
                      z3.Implies(n == 1, z3.Select(st.elems(acc, OTY), z3.Select(off, k)) == z3.Select(st.elems(lst, OTY), 0)), wf)

    def calls_ok(st, upto):
        k = z3.Int("k_fwc")
        return z3.ForAll([k], z3.And(z3.Implies(z3.And(0 <= k, k < upto), z3.Select(CALLS(st), k) == 1), z3.Implies(k >= upto, z3.Select(CALLS(st), k) == 0)))

    def inv(st, ctx):
        i = ctx["i"]; ent = ctx["fn_entry"]; ag = st.env["self"]
        acc = st.env["__sum_acc"].term; k = z3.Int("k_fwi")
        mk = lambda kk: market_at(ent, kk) if False else V(("ref", "Market"), z3.Select(ent.elems(st.env["markets"].term, ("ref", "Market")), kk))
        return [("the accumulated list holds what the consultations so far returned", z3.And(z3.Select(OFF(st), 0) == 0, st.length(acc) == z3.Select(OFF(st), i), z3.Select(OFF(st), i) >= 0)),
                ("each position so far was consulted exactly once, later positions not yet", calls_ok(st, i)),
                ("segments so far", z3.ForAll([k], z3.Implies(z3.And(0 <= k, k < i), segments(ent, st, ag, mk, acc, i, k)), patterns=[z3.Select(SRC(st), k)])),
                ("the accumulator is an object created by this call", z3.And(z3.Not(ent.is_alloc(acc)), st.is_alloc(acc)))]

    def on_iter(ex, st, ctx):
        st.ghost["loop_index"] = ctx["i"]

    base = FCN_BY_MARKET.handler()

    def by_market(ex, st, recv, pos, kw, node):
        i = st.ghost.get("loop_index")
        if i is None:
            raise Unsupported("FCNAgent.submit_orders_by_market called outside the consultation loop")
        st = st.copy()
        mkt = kw.get("market", pos[0] if pos else None)
        st.oblige("C20 the market consulted at position i is the i-th market of the list", z3.And(recv.term == st.env["self"].term, mkt.term == market_at(st, i).term), "pre@callsite")
        st.oblige("C20 each position is consulted at most once", z3.Select(CALLS(st), i) == 0, "pre@callsite")
        out = []
        for s1, r in base(ex, st, recv, pos, kw, node):
            s1 = s1.copy()
            s1.set_gh("fw_calls", z3.Store(CALLS(s1), i, z3.Select(CALLS(s1), i) + 1))
            s1.set_gh("fw_src", z3.Store(SRC(s1), i, r.term))
            out.append((s1, r))
        return out

    def ghost_after_extend(ex, s1):
        i = s1.ghost["loop_index"]
        s1.set_gh("fw_off", z3.Store(OFF(s1), i + 1, s1.length(s1.env["__sum_acc"].term)))

    def pre(st, a):
        k = z3.Int("k_fwp"); ms = a["markets"]; nm = st.length(ms.term)
        m = V(("ref", "Market"), z3.Select(st.elems(ms.term, ("ref", "Market")), k))
        per = z3.And(*[f for _, f in fcn_pre(st, {"self": a["self"], "market": m})])
        return [("len >= 0", nm >= 0), ("every listed market satisfies the FCN preconditions (admissible parameters, positive prices)", z3.ForAll([k], z3.Implies(z3.And(0 <= k, k < nm), per))),
                ("closed heap: the listed markets are existing objects", z3.ForAll([k], z3.Implies(z3.And(0 <= k, k < nm), st.is_alloc(m.term))))]

    def post(st0, st1, a, res):
        k = z3.Int("k_fwq"); ms = a["markets"]; nm = st0.length(ms.term)
        mk = lambda kk: V(("ref", "Market"), z3.Select(st0.elems(ms.term, ("ref", "Market")), kk))
        return [("C20 every listed market is consulted exactly once (and, by the call-site obligations, in list order)", calls_ok(st1, nm)),
                ("C20 the result has exactly the orders the consultations returned", z3.And(z3.Select(OFF(st1), 0) == 0, st1.length(res.term) == z3.Select(OFF(st1), nm))),
                ("C20 the answer of the k-th market is the k-th segment of the result: a well-formed order under the agent's own id for that market, none for an inaccessible one",
                 z3.ForAll([k], z3.Implies(z3.And(0 <= k, k < nm), segments(st0, st1, a["self"], mk, res.term, nm, k)), patterns=[z3.Select(SRC(st1), k)]))]

    spec = FSpec("FCNAgent.submit_orders", pre=pre, post=post, props=("C20",), fresh_result=True, result=("list", OTY),
                 modifies=lambda st, a: ORDER_MODS_TIGHT + ["g:fw_src", "g:fw_off", "g:fw_calls", "g:draws"])

    def setup(ex, st, a):
        ex.ghost_after = {"sumcomp-extend": ghost_after_extend}
        st.set_gh("fw_calls", z3.K(z3.IntSort(), z3.IntVal(0)))          # ghost initial state: nothing consulted yet, offset 0
        st.set_gh("fw_off", z3.Store(OFF(st), 0, 0)); SRC(st)

    @task("FCNAgent.submit_orders", props=["C20"], functions=["FCNAgent.submit_orders"], replay="agents")
    def t_fcn_wrapper():
        """lemma over the contract of submit_orders_by_market: sum([... for market in markets], []) consults every market once, in order, and concatenates the answers"""
        lp = LoopSpec(inv, modifies=lambda st, ctx: ORDER_MODS_TIGHT + ["g:fw_src", "g:fw_off", "g:fw_calls", "g:draws"], header="markets", name="consultations", on_iter=on_iter, frame_since_entry=True)
        lp.acc_type = OTY
        specs = dict(ACCESSORS)
        specs[("m", "FCNAgent", "submit_orders_by_market")] = by_market
        obl, info = spec.verify(specs=specs, loops={("sumcomp",): lp}, setup=setup)
        info["assumptions"] = info["assumptions"] + ["sum(list_of_lists, []) is read as the left-to-right loop `acc = acc + next` (definition of sum and list +); the per-step copies are not modelled (nobody else holds them)"]
        return {"obligations": obl, "info": [info]}
    return spec


FCN_WRAP = fcn_wrap_task()


# ----------------------------------------------------------------------------- FCNAgent.setup: every strategy parameter is drawn from ITS OWN configuration key (C20: the documented strategy uses the configured weights)
def fcn_setup_task():
    from .config import JSON_RANDOM
    qual = "FCNAgent.setup"
    KEYS = [("fundamentalWeight", "fundamental_weight", "real"), ("chartWeight", "chart_weight", "real"), ("noiseWeight", "noise_weight", "real"), ("noiseScale", "noise_scale", "real"),
            ("timeWindowSize", "time_window_size", "int"), ("orderMargin", "order_margin", "real")]

    def draw(ex, st, recv, pos, kw, node):
        st = st.copy()
        jv = kw.get("json_value", pos[0] if pos else None)
        res = fresh(("real",), "drawn")
        st.ghost["draws"] = st.ghost.get("draws", ()) + ((jv, res),)
        return [(st, res)]
    spec = FSpec(qual, props=("C20",), param_types={"settings": ("dict", ("str",), ("dyn",)), "accessible_markets_ids": ("list", ("int",))}, modifies=lambda st, a: ["*"],
                 pre=lambda st, a: agent_setup_pre(st, a) + [("the strategy keys are configured", z3.And(*[z3.Select(st.dict_dom(a["settings"]), z3.StringVal(k)) for k, _f, _t in KEYS])),
                                    ("marginType, if given, is a string (not null)", z3.Implies(z3.Select(st.dict_dom(a["settings"]), z3.StringVal("marginType")),
                                                                                                   z3.And(dyn_is_str(z3.Select(st.dict_val(a["settings"]), z3.StringVal("marginType"))), z3.Not(dyn_is_none(z3.Select(st.dict_val(a["settings"]), z3.StringVal("marginType")))))))])
    spec.may_raise = {"ValueError": lambda st, a: z3.BoolVal(True)}

    def extra(ex, st0, s1, a, res):
        s = a["settings"]; ag = a["self"]
        draws = s1.ghost.get("draws", ())
        val = lambda k: z3.Select(st0.dict_val(s), z3.StringVal(k))
        def drawn_for(k):
            hits = [r for jv, r in draws if jv is not None and jv.term is not None and jv.term.eq(val(k))]
            return hits
        for k, f, ty in KEYS:
            hits = drawn_for(k)
            if len(hits) != 1:
                s1.oblige(f"trace:exactly one draw from the configured `{k}` (got {len(hits)})", z3.BoolVal(False), "trace"); continue
            r = hits[0]
            got = s1.read(ag, f)
            if ty == "int":
                fl, cl = FLOOR(r.term), CEIL(r.term)
                want = z3.If(r.term >= 0, fl, cl)
                s1.oblige(f"post:C20 {f} = int(draw from `{k}`)", got.term == want, "post")
            else:
                s1.oblige(f"post:C20 {f} = draw from `{k}`", to_real(got) == r.term, "post")
        has_mr = z3.Select(st0.dict_dom(s), z3.StringVal("meanReversionTime"))
        hits = drawn_for("meanReversionTime")
        mr = s1.read(ag, "mean_reversion_time").term
        if implied_(s1, has_mr):
            s1.oblige("post:C20 mean_reversion_time = int(draw from `meanReversionTime`) when configured",
                      mr == z3.If(hits[0].term >= 0, FLOOR(hits[0].term), CEIL(hits[0].term)) if len(hits) == 1 else z3.BoolVal(False), "post")
        else:
            s1.oblige("post:C20 mean_reversion_time defaults to the time window size", z3.Implies(z3.Not(has_mr), mr == s1.read(ag, "time_window_size").term), "post")
        mt = z3.Select(st0.dict_val(s), z3.StringVal("marginType")); has_mt = z3.Select(st0.dict_dom(s), z3.StringVal("marginType"))
        s1.oblige("post:C20 margin type: fixed unless `marginType` is \"normal\"",
                  s1.read(ag, "margin_type").term == z3.If(z3.And(has_mt, dyn_str(mt) == z3.StringVal("normal")), 1, 0), "post")

    @task(qual, props=["C20", "C18"], functions=[qual], replay="agents")
    def t():
        """FCNAgent.setup: each parameter of the strategy is the draw from its own configuration key (weights, noise scale, window, margin, mean reversion time, margin type)"""
        specs = {("m", "Agent", "setup"): AGENT_SETUP.handler(), ("m", "JsonRandom", "random"): draw}
        obl, info = spec.verify(specs=specs, extra_goals=extra)
        return {"obligations": obl, "info": [info]}
    return spec


FCN_SETUP = fcn_setup_task()


# ----------------------------------------------------------------------------- MarketMakerAgent.setup / ArbitrageAgent.setup: parameters from their own keys (C20)
def agent_param_setup(qual, drawn, plain, extra_pre=None, extra_post=None):
    """drawn: [(key, field, 'real'|'int', default or None)] parameters obtained through JsonRandom; plain: [(key, field, 'int'|'num', required)] parameters copied from the settings"""
    def draw(ex, st, recv, pos, kw, node):
        st = st.copy()
        jv = kw.get("json_value", pos[0] if pos else None)
        res = fresh(("real",), "drawn")
        st.ghost["draws"] = st.ghost.get("draws", ()) + ((jv, res),)
        return [(st, res)]
    has = lambda st, s, k: z3.Select(st.dict_dom(s), z3.StringVal(k))
    val = lambda st, s, k: z3.Select(st.dict_val(s), z3.StringVal(k))
    spec = FSpec(qual, props=("C20",), param_types={"settings": ("dict", ("str",), ("dyn",)), "accessible_markets_ids": ("list", ("int",))}, modifies=lambda st, a: ["*"],
                 pre=lambda st, a: agent_setup_pre(st, a) + (extra_pre(st, a) if extra_pre else []))
    spec.may_raise = {"ValueError": lambda st, a: z3.BoolVal(True)}

    def extra(ex, st0, s1, a, res):
        s = a["settings"]; ag = a["self"]
        draws = s1.ghost.get("draws", ())
        for k, f, ty, dflt in drawn:
            hits = [r for jv, r in draws if jv is not None and jv.term is not None and jv.term.eq(val(st0, s, k))]
            present = has(st0, s, k)
            got = s1.read(ag, f)
            if implied_(s1, present):
                if len(hits) != 1:
                    s1.oblige(f"trace:exactly one draw from the configured `{k}` (got {len(hits)})", z3.BoolVal(False), "trace"); continue
                r = hits[0].term
                want = r if ty == "real" else z3.If(r >= 0, FLOOR(r), CEIL(r))
                s1.oblige(f"post:C20 {f} = {'int of the ' if ty == 'int' else ''}draw from `{k}`", (to_real(got) == want) if ty == "real" else (got.term == want), "post")
            elif implied_(s1, z3.Not(present)):
                if dflt is None:
                    s1.oblige(f"raises:a configuration without `{k}` is rejected", z3.BoolVal(False), "raises")
                else:
                    s1.oblige(f"post:C20 {f} defaults to {dflt} when `{k}` is not configured", got.term == dflt, "post")
            else:
                s1.oblige(f"trace:presence of `{k}` decided on every path", z3.BoolVal(False), "trace")
        for k, f, ty, required in plain:
            present = has(st0, s, k); v = val(st0, s, k)
            got = s1.read(ag, f)
            same = (got.term == dyn_int(v)) if ty == "int" else (to_real(got) == coerce(V(("dyn",), v), ("real",)))
            if required:
                s1.oblige(f"post:C20 {f} is the configured {k}", z3.And(present, same), "post")
            else:
                s1.oblige(f"post:C20 {f} is the configured {k} when given, else left as it was", z3.If(present, same, got.term == st0.read(ag, f).term), "post")
        if extra_post:
            for l, fml in extra_post(st0, s1, a):
                s1.oblige("post:" + l, fml, "post")

    @task(qual, props=["C20", "C18"], functions=[qual], replay="agents")
    def t():
        specs = {("m", "Agent", "setup"): AGENT_SETUP.handler(), ("m", "JsonRandom", "random"): draw}
        obl, info = spec.verify(specs=specs, extra_goals=extra)
        return {"obligations": obl, "info": [info]}
    t.__doc__ = qual + ": every parameter of the strategy comes from its own configuration key"
    return spec


def _mm_pre(st, a):
    s = a["settings"]
    n2m = st.read(st.read(a["self"], "simulator"), "name2market")
    tm = z3.Select(st.dict_val(s), z3.StringVal("targetMarket"))
    return [("the target market, if it is a string, names a registered market", z3.Implies(z3.And(z3.Select(st.dict_dom(s), z3.StringVal("targetMarket")), dyn_is_str(tm)), z3.Select(st.dict_dom(n2m), dyn_str(tm))))]


def _mm_post(st0, s1, a):
    s = a["settings"]
    n2m = st0.read(st0.read(a["self"], "simulator"), "name2market")
    tm = z3.Select(st0.dict_val(s), z3.StringVal("targetMarket"))
    return [("C20 the market maker's target is the market registered under the configured name", s1.read(a["self"], "target_market").term == z3.Select(st0.dict_val(n2m), dyn_str(tm)))]


MM_SETUP = agent_param_setup("MarketMakerAgent.setup", [("netInterestSpread", "net_interest_spread", "real", None), ("orderTimeLength", "order_time_length", "int", 2)], [], _mm_pre, _mm_post)
ARB_SETUP = agent_param_setup("ArbitrageAgent.setup", [], [("orderVolume", "order_volume", "int", True), ("orderThresholdPrice", "order_threshold_price", "num", True), ("orderTimeLength", "order_time_length", "int", False)],
                              lambda st, a: [("the threshold, if given, is a JSON number", z3.Implies(z3.Select(st.dict_dom(a["settings"]), z3.StringVal("orderThresholdPrice")),
                                                                                                        z3.Or(dyn_is_int(z3.Select(st.dict_val(a["settings"]), z3.StringVal("orderThresholdPrice"))), dyn_is_real(z3.Select(st.dict_val(a["settings"]), z3.StringVal("orderThresholdPrice"))))))])
