"""Simulator functions under contract: holdings update (C05), clock stepping of markets (C06, C17), hook table and triggers (C13)."""
import z3

from pyvc.core import *   # noqa
from pyvc.spec import FSpec, LoopSpec, ForEachTrace, task, emit, event, goal
from .vocab import *      # noqa

# ----------------------------------------------------------------------------- _update_agents_for_execution (C05)
# spec folds: holdings after the first k fills of the list (defined by their recursion equations, supplied as hypotheses)
CASH = z3.Function("CASH", z3.IntSort(), REF, z3.RealSort())                      # CASH(k, agent)
SHARES = z3.Function("SHARES", z3.IntSort(), REF, z3.IntSort(), z3.IntSort())     # SHARES(k, agent, market_id)


def log_fields(st, lg):
    L = lambda f: st.F("ExecutionLog", f)[lg]
    return L("buy_agent_id"), L("sell_agent_id"), L("price"), L("volume"), L("market_id")


def agent_of(st, sim, aid):
    return z3.Select(st.dict_val(st.read(sim, "id2agent")), aid)


def shares_of(st, agent, mid):
    """asset_volumes[mid] of an agent object"""
    av = z3.Select(st.F("Agent", "asset_volumes"), agent)
    dct = V(("dict", ("int",), ("int",)), av)
    return z3.Select(st.dict_val(dct), mid), z3.Select(st.dict_dom(dct), mid)


def fold_axioms(st0, sim, logs):
    """defining equations of CASH / SHARES over the list `logs` in the entry state"""
    k = z3.Int("k_fold"); a = z3.Const("a_fold", REF); m = z3.Int("m_fold")
    el = st0.elems(logs.term, ("ref", "ExecutionLog"))
    lg = z3.Select(el, k)
    b_id, s_id, p, v, mid = log_fields(st0, lg)
    b, s = agent_of(st0, sim, b_id), agent_of(st0, sim, s_id)
    n = st0.length(logs.term)
    cash0 = st0.F("Agent", "cash_amount")
    return [z3.ForAll([a], CASH(0, a) == z3.Select(cash0, a)),
            z3.ForAll([a, m], SHARES(0, a, m) == shares_of(st0, a, m)[0]),
            z3.ForAll([k, a], z3.Implies(z3.And(0 <= k, k < n), CASH(k + 1, a) == CASH(k, a) - z3.If(a == b, p * z3.ToReal(v), 0) + z3.If(a == s, p * z3.ToReal(v), 0))),
            z3.ForAll([k, a, m], z3.Implies(z3.And(0 <= k, k < n), SHARES(k + 1, a, m) == SHARES(k, a, m) + z3.If(z3.And(a == b, m == mid), v, 0) - z3.If(z3.And(a == s, m == mid), v, 0)))]


def uae_pre(st, a):
    sim, logs = a["self"], a["execution_logs"]
    k = z3.Int("k_uae"); x, y = z3.Consts("x_uae y_uae", REF)
    el = st.elems(logs.term, ("ref", "ExecutionLog")); n = st.length(logs.term)
    lg = z3.Select(el, k)
    b_id, s_id, p, v, mid = log_fields(st, lg)
    id2 = st.read(sim, "id2agent")
    dom = st.dict_dom(id2)
    b, s = agent_of(st, sim, b_id), agent_of(st, sim, s_id)
    av = st.F("Agent", "asset_volumes")
    return [("every party of every fill is a registered agent holding a position entry for the fill's market",
             z3.ForAll([k], z3.Implies(z3.And(0 <= k, k < n), z3.And(z3.Select(dom, b_id), z3.Select(dom, s_id), shares_of(st, b, mid)[1], shares_of(st, s, mid)[1],
                                                                      st.is_alloc(b), st.is_alloc(s))))),
            ("distinct agents own distinct position dicts", z3.ForAll([x, y], z3.Implies(x != y, z3.Select(av, x) != z3.Select(av, y)))),
            ("position dicts are allocated", z3.ForAll([x], st.is_alloc(z3.Select(av, x))))] + [("fold-def", f) for f in fold_axioms(st, sim, logs)]


def uae_post(st0, st1, a, res):
    sim, logs = a["self"], a["execution_logs"]
    n = st0.length(logs.term)
    x = z3.Const("x_uaep", REF); m = z3.Int("m_uaep")
    cash1 = st1.F("Agent", "cash_amount")
    return [("every agent's cash = endowment folded, in order, with the fills of the list (buyer pays price x volume, seller receives it)", z3.ForAll([x], z3.Select(cash1, x) == CASH(n, x))),
            ("every agent's per-market position = endowment folded with the fills (buyer +volume, seller -volume)", z3.ForAll([x, m], shares_of(st1, x, m)[0] == SHARES(n, x, m))),
            ("position dict objects unchanged", st1.F("Agent", "asset_volumes") == st0.F("Agent", "asset_volumes"))]


UPDATE_AGENTS = FSpec("Simulator._update_agents_for_execution", pre=uae_pre, post=uae_post, props=("C05",),
                      modifies=lambda st, a: ["f:Agent.cash_amount", "dv:Int_Int"], param_types={"execution_logs": ("list", ("ref", "ExecutionLog"))})


def uae_loop():
    def inv(st, ctx):
        e = ctx["entry"]; i = ctx["i"]
        x = z3.Const("x_uael", REF); m = z3.Int("m_uael")
        return [("cash = fold of the first i fills", z3.ForAll([x], z3.Select(st.F("Agent", "cash_amount"), x) == CASH(i, x))),
                ("positions = fold of the first i fills", z3.ForAll([x, m], shares_of(st, x, m)[0] == SHARES(i, x, m))),
                ("position dict objects unchanged", st.F("Agent", "asset_volumes") == e.F("Agent", "asset_volumes"))]
    return {0: LoopSpec(inv, modifies=["f:Agent.cash_amount", "dv:Int_Int"], header="execution_logs", name="fills")}


@task("Simulator._update_agents_for_execution", props=["C05"], functions=["Simulator._update_agents_for_execution"], replay="holdings")
def t_update_agents():
    obl, info = UPDATE_AGENTS.verify(loops=uae_loop())
    # lemma: one fill conserves cash and shares (also for a self-trade): the two parties' sums are unchanged, everybody else is untouched
    st = State(); k = z3.Int("k_lem"); b, s, x = z3.Consts("b_lem s_lem x_lem", REF); p = z3.Real("p_lem"); v, m, mid = z3.Ints("v_lem m_lem mid_lem")
    step_c = lambda a_: CASH(k, a_) - z3.If(a_ == b, p * z3.ToReal(v), 0) + z3.If(a_ == s, p * z3.ToReal(v), 0)
    step_s = lambda a_: SHARES(k, a_, m) + z3.If(z3.And(a_ == b, m == mid), v, 0) - z3.If(z3.And(a_ == s, m == mid), v, 0)
    goal(obl, "Simulator._update_agents_for_execution/lemma:one fill conserves the parties' total cash", [],
         z3.And(z3.Implies(b != s, step_c(b) + step_c(s) == CASH(k, b) + CASH(k, s)), z3.Implies(b == s, step_c(b) == CASH(k, b)), z3.Implies(z3.And(x != b, x != s), step_c(x) == CASH(k, x))))
    goal(obl, "Simulator._update_agents_for_execution/lemma:one fill conserves the parties' total shares per market", [],
         z3.And(z3.Implies(b != s, step_s(b) + step_s(s) == SHARES(k, b, m) + SHARES(k, s, m)), z3.Implies(b == s, step_s(b) == SHARES(k, b, m)), z3.Implies(z3.And(x != b, x != s), step_s(x) == SHARES(k, x, m))))
    return {"obligations": obl, "info": [info]}


# ----------------------------------------------------------------------------- clock stepping of all markets (C06, C17)
TICK = emit("Tick")          # Market._update_time(next_fundamental_price): the market's clock advances (trace event Tick(market, price))
FUND = emit("Fund", result=("real",), with_recv=False)      # Fundamentals.get_fundamental_price(market_id, time) -> value
FUNDIDX = emit("FundIndex", result=("real",))               # IndexMarket.compute_fundamental_index(time) -> value


def utm_trace(st0, st1, a, res):
    sim, m = a["self"], a["market"]
    isidx = is_instance("IndexMarket", m.term)
    t1 = st0.read(m, "time").term + 1
    fv = z3.Const("fund_value", z3.RealSort())
    return [("Fund", z3.Not(isidx), (st0.read(m, "market_id").term, t1, None)), ("FundIndex", isidx, (m.term, t1, None)), ("Tick", None, (m.term, None))]


UPDATE_TIME_ON_MARKET = FSpec("Simulator._update_time_on_market", props=("C06", "C17"), trace=utm_trace)


@task("Simulator._update_time_on_market", props=["C06", "C17"], functions=["Simulator._update_time_on_market"], replay="whole_run")
def t_update_time_on_market():
    """a non-index market is advanced with the generator's value for time+1, an index market with the weighted average of its components for time+1"""
    specs = {("m", "Market", "_update_time"): TICK, ("m", "Fundamentals", "get_fundamental_price"): FUND, ("m", "IndexMarket", "compute_fundamental_index"): FUNDIDX}

    def extra(ex, st0, s1, a, res):
        tr = s1.trace
        # the value handed to the market is the one just obtained for the new time
        if len(tr) == 2 and tr[1][0] == "Tick":
            s1.oblige("trace:the recorded fundamental is the value obtained for time+1", tr[1][2][1] == tr[0][2][-1], "trace")
    obl, info = UPDATE_TIME_ON_MARKET.verify(specs=specs, extra_goals=extra)
    return {"obligations": obl, "info": [info]}


UTOM = emit("TickMarket")


def utms_trace(st0, st1, a, res):
    return [("ForEach", None, (None, (("TickMarket", None, (a["self"].term, ELEM)),))), ("ForEach", None, (None, (("TickMarket", None, (a["self"].term, ELEM)),)))]


from pyvc.spec import ELEM      # noqa
UPDATE_TIMES = FSpec("Simulator._update_times_on_markets", props=("C06", "C17"), trace=utms_trace, param_types={"markets": ("list", ("ref", "Market"))})


@task("Simulator._update_times_on_markets", props=["C06", "C17"], functions=["Simulator._update_times_on_markets"], replay="whole_run")
def t_update_times():
    """every market of the list is advanced exactly once per call; every non-index market before every index market"""
    specs = {("m", "Simulator", "_update_time_on_market"): UTOM}
    loops = {0: ForEachTrace(name="non-index markets"), 1: ForEachTrace(name="index markets")}

    def extra(ex, st0, s1, a, res):
        tr = s1.trace
        if len(tr) != 2:
            return
        f1, f2 = tr[0][2][0], tr[1][2][0]
        mk = a["markets"].term; x = z3.Const("x_utm", REF)
        s1.oblige("post:the first pass visits exactly the non-index markets of the list, the second exactly the index markets",
                  z3.ForAll([x], z3.And(s1.mem(f1, x) == z3.And(s1.mem(mk, x), z3.Not(is_instance("IndexMarket", x))),
                                        s1.mem(f2, x) == z3.And(s1.mem(mk, x), is_instance("IndexMarket", x)))), "post")
        s1.oblige("post:every market of the list is visited in exactly one of the two passes",
                  z3.ForAll([x], z3.Implies(s1.mem(mk, x), z3.Xor(s1.mem(f1, x), s1.mem(f2, x)))), "post")
    obl, info = UPDATE_TIMES.verify(specs=specs, loops=loops, extra_goals=extra)
    return {"obligations": obl, "info": [info]}


# ----------------------------------------------------------------------------- event hook triggers (C13): the nine _trigger_event_* functions
from pyvc.spec import ELEM, implied      # noqa

TRIGGERS = [  # (function, table key, hook method, name of the argument, time-of-occurrence(st, sim, arg))
    ("_trigger_event_before_order", "order_before", "hooked_before_order", "order", ("ref", "Order"),
     lambda st, sim, a: st.read(V(("ref", "Market"), z3.Select(st.dict_val(st.read(sim, "id2market")), st.read(a, "market_id").term)), "time").term),
    ("_trigger_event_after_order", "order_after", "hooked_after_order", "order_log", ("ref", "OrderLog"), lambda st, sim, a: st.read(a, "time").term),
    ("_trigger_event_before_cancel", "cancel_before", "hooked_before_cancel", "cancel", ("ref", "Cancel"),
     lambda st, sim, a: st.read(V(("ref", "Market"), z3.Select(st.dict_val(st.read(sim, "id2market")), st.read(st.read(a, "order"), "market_id").term)), "time").term),
    ("_trigger_event_after_cancel", "cancel_after", "hooked_after_cancel", "cancel_log", ("ref", "CancelLog"), lambda st, sim, a: st.read(a, "cancel_time").term),
    ("_trigger_event_after_execution", "execution_after", "hooked_after_execution", "execution_log", ("ref", "ExecutionLog"), lambda st, sim, a: st.read(a, "time").term),
    ("_trigger_event_before_session", "session_before", "hooked_before_session", "session", ("ref", "Session"), lambda st, sim, a: st.read(a, "session_start_time").term),
    ("_trigger_event_after_session", "session_after", "hooked_after_session", "session", ("ref", "Session"),
     lambda st, sim, a: st.read(a, "session_start_time").term + st.read(a, "iteration_steps").term - 1),
    ("_trigger_event_before_step_for_market", "market_before", "hooked_before_step_for_market", "market", ("ref", "Market"), lambda st, sim, a: st.read(a, "time").term),
    ("_trigger_event_after_step_for_market", "market_after", "hooked_after_step_for_market", "market", ("ref", "Market"), lambda st, sim, a: st.read(a, "time").term),
]


def table(st, sim, key):
    ed = st.read(sim, "events_dict")
    inner = V(ed.ty[2], z3.Select(st.dict_val(ed), z3.StringVal(key)))
    return ed, inner


def bucket(st, inner, k):
    return z3.Select(st.dict_dom(inner), k), z3.Select(st.dict_val(inner), k)


def trigger_task(fname, key, method, argname, argty, time_of):
    qual = "Simulator." + fname
    is_market = key.startswith("market_")

    def pre(st, a):
        sim, arg = a["self"], a[argname]
        ed, inner = table(st, sim, key)
        cs = [("the hook table has an entry for this occasion", st.dict_has(ed, V(("str",), z3.StringVal(key))))]
        if "order" in argname and fname.endswith(("before_order",)):
            cs.append(("the order names a registered market", st.dict_has(st.read(sim, "id2market"), st.read(arg, "market_id"))))
        if fname.endswith("before_cancel"):
            cs.append(("the cancelled order names a registered market", st.dict_has(st.read(sim, "id2market"), st.read(st.read(arg, "order"), "market_id"))))
        return cs
    spec = FSpec(qual, pre=pre, props=("C13",), modifies=lambda st, a: ["len", "mem", "el:Ref", "nodup", "heapok"])
    specs = {("m", "EventABC", method): emit("Hooked")}
    fe = ForEachTrace(name="matching-hooks")

    def extra(ex, st0, s1, a, res):
        sim, arg = a["self"], a[argname]
        tr = s1.trace
        if [t[0] for t in tr] != ["ForEach"]:
            s1.oblige(f"trace:exactly one pass over the selected hooks (got {[t[0] for t in tr]})", z3.BoolVal(False), "trace"); return
        L, tmpl = tr[0][2]
        ed, inner = table(st0, sim, key)
        tm = time_of(st0, sim, arg)
        dN, bN = bucket(st0, inner, OptInt.onone); dT, bT = bucket(st0, inner, OptInt.osome(tm))
        x = z3.Const("x_trg", REF); i = z3.Int("i_trg")
        nN = z3.If(dN, st0.length(bN), 0); nT = z3.If(dT, st0.length(bT), 0)
        LE = s1.elems(L, ("ref", "EventHook"))
        s1.oblige("post:C13 the hooks invoked are those registered for all times followed by those registered for the occurrence's time, each once, in registration order",
                  z3.And(s1.length(L) == nN + nT,
                         z3.ForAll([i], z3.Implies(z3.And(0 <= i, i < nN), z3.Select(LE, i) == z3.Select(st0.elems(bN, ("ref", "EventHook")), i))),
                         z3.ForAll([i], z3.Implies(z3.And(nN <= i, i < nN + nT), z3.Select(LE, i) == z3.Select(st0.elems(bT, ("ref", "EventHook")), i - nN)))), "post")
        calls = [t for t in tmpl if t[0] == "Hooked"]
        if not calls or len(calls) != len(tmpl) or (not is_market and len(calls) != 1):
            s1.oblige(f"trace:each selected hook leads to exactly one call of {method} (got {[t[0] for t in tmpl]})", z3.BoolVal(False), "trace"); return
        ev_of = s1.F("EventHook", "event")[ELEM]
        for c in calls:
            s1.oblige(f"trace:C13 the call goes to the hook's own event with this simulator and this {argname}", z3.And(c[2][0] == ev_of, c[2][1] == sim.term, c[2][2] == arg.term), "trace")
        if is_market:
            # the body paths are mutually exclusive; the hook is called on exactly those paths where the filter passes
            sc = s1.read(V(("ref", "EventHook"), ELEM), "specific_class"); si = s1.read(V(("ref", "EventHook"), ELEM), "specific_instance")
            isd = z3.Function("isinstance_dyn", REF, z3.IntSort(), z3.BoolSort())
            want = z3.And(z3.Or(sc.none, isd(arg.term, sc.term)), z3.Or(si.none, si.term == arg.term))
            gs = [c[1] if c[1] is not None else z3.BoolVal(True) for c in calls]
            s1.oblige("trace:C13 a market-step hook is invoked iff the market passes the hook's class and instance filter", z3.Or(*gs) == want, "trace")
            pairs = [z3.Not(z3.And(gs[i_], gs[j_])) for i_ in range(len(gs)) for j_ in range(i_ + 1, len(gs))]
            s1.oblige("trace:C13 at most one call per selected hook", z3.And(*pairs) if pairs else z3.BoolVal(True), "trace")
        else:
            s1.oblige("trace:C13 no filter other than the time applies", z3.BoolVal(calls[0][1] is None), "trace")

    def build():
        obl, info = spec.verify(loops={0: fe}, specs=specs, extra_goals=extra)
        return {"obligations": obl, "info": [info]}
    build.__doc__ = f"{fname}: selection by time bucket (None = always) and call of {method} per selected hook"
    task(qual, props=["C13"], functions=[qual] + (["Simulator._check_event_class_and_instance"] if is_market else []), replay="whole_run")(build)


for _t in TRIGGERS:
    trigger_task(*_t)
