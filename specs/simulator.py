"""Simulator functions under contract: holdings update (C05), clock stepping of markets (C06, C17), hook table and triggers (C13)."""
import z3

from pyvc.core import *   # noqa
from pyvc.spec import FSpec, LoopSpec, ForEachTrace, task, emit, event, goal
from .vocab import *      # noqa

# ----------------------------------------------------------------------------- _update_agents_for_execution (C05)
# spec folds: holdings after the first k fills of the list (defined by their recursion equations, supplied as hypotheses)
CASH = z3.Function("CASH", z3.IntSort(), REF, z3.RealSort())                      # CASH(k, agent)
SHARES = z3.Function("SHARES", z3.IntSort(), REF, z3.IntSort(), z3.IntSort())     # SHARES(k, agent, market_id)


def log_fields(st, lg):
    L = lambda f: st.F("ExecutionLog", f)[lg]
    return L("buy_agent_id"), L("sell_agent_id"), L("price"), L("volume"), L("market_id")


def agent_of(st, sim, aid):
    return z3.Select(st.dict_val(st.read(sim, "id2agent")), aid)


def shares_of(st, agent, mid):
    """asset_volumes[mid] of an agent object"""
    av = z3.Select(st.F("Agent", "asset_volumes"), agent)
    dct = V(("dict", ("int",), ("int",)), av)
    return z3.Select(st.dict_val(dct), mid), z3.Select(st.dict_dom(dct), mid)


def fold_axioms(st0, sim, logs):
    """defining equations of CASH / SHARES over the list `logs` in the entry state"""
    k = z3.Int("k_fold"); a = z3.Const("a_fold", REF); m = z3.Int("m_fold")
    el = st0.elems(logs.term, ("ref", "ExecutionLog"))
    lg = z3.Select(el, k)
    b_id, s_id, p, v, mid = log_fields(st0, lg)
    b, s = agent_of(st0, sim, b_id), agent_of(st0, sim, s_id)
    n = st0.length(logs.term)
    cash0 = st0.F("Agent", "cash_amount")
    return [z3.ForAll([a], CASH(0, a) == z3.Select(cash0, a)),
            z3.ForAll([a, m], SHARES(0, a, m) == shares_of(st0, a, m)[0]),
            z3.ForAll([k, a], z3.Implies(z3.And(0 <= k, k < n), CASH(k + 1, a) == CASH(k, a) - z3.If(a == b, p * z3.ToReal(v), 0) + z3.If(a == s, p * z3.ToReal(v), 0))),
            z3.ForAll([k, a, m], z3.Implies(z3.And(0 <= k, k < n), SHARES(k + 1, a, m) == SHARES(k, a, m) + z3.If(z3.And(a == b, m == mid), v, 0) - z3.If(z3.And(a == s, m == mid), v, 0)))]


def uae_pre(st, a):
    sim, logs = a["self"], a["execution_logs"]
    k = z3.Int("k_uae"); x, y = z3.Consts("x_uae y_uae", REF)
    el = st.elems(logs.term, ("ref", "ExecutionLog")); n = st.length(logs.term)
    lg = z3.Select(el, k)
    b_id, s_id, p, v, mid = log_fields(st, lg)
    id2 = st.read(sim, "id2agent")
    dom = st.dict_dom(id2)
    b, s = agent_of(st, sim, b_id), agent_of(st, sim, s_id)
    av = st.F("Agent", "asset_volumes")
    return [("every party of every fill is a registered agent holding a position entry for the fill's market",
             z3.ForAll([k], z3.Implies(z3.And(0 <= k, k < n), z3.And(z3.Select(dom, b_id), z3.Select(dom, s_id), shares_of(st, b, mid)[1], shares_of(st, s, mid)[1],
                                                                      st.is_alloc(b), st.is_alloc(s))))),
            ("distinct agents own distinct position dicts", z3.ForAll([x, y], z3.Implies(x != y, z3.Select(av, x) != z3.Select(av, y)))),
            ("position dicts are allocated", z3.ForAll([x], st.is_alloc(z3.Select(av, x))))] + [("fold-def", f) for f in fold_axioms(st, sim, logs)]


def uae_post(st0, st1, a, res):
    sim, logs = a["self"], a["execution_logs"]
    n = st0.length(logs.term)
    x = z3.Const("x_uaep", REF); m = z3.Int("m_uaep")
    cash1 = st1.F("Agent", "cash_amount")
    return [("every agent's cash = endowment folded, in order, with the fills of the list (buyer pays price x volume, seller receives it)", z3.ForAll([x], z3.Select(cash1, x) == CASH(n, x))),
            ("every agent's per-market position = endowment folded with the fills (buyer +volume, seller -volume)", z3.ForAll([x, m], shares_of(st1, x, m)[0] == SHARES(n, x, m))),
            ("position dict objects unchanged", st1.F("Agent", "asset_volumes") == st0.F("Agent", "asset_volumes"))]


UPDATE_AGENTS = FSpec("Simulator._update_agents_for_execution", pre=uae_pre, post=uae_post, props=("C05",),
                      modifies=lambda st, a: ["f:Agent.cash_amount", "dv:Int_Int"], param_types={"execution_logs": ("list", ("ref", "ExecutionLog"))})


def uae_loop():
    def inv(st, ctx):
        e = ctx["entry"]; i = ctx["i"]
        x = z3.Const("x_uael", REF); m = z3.Int("m_uael")
        return [("cash = fold of the first i fills", z3.ForAll([x], z3.Select(st.F("Agent", "cash_amount"), x) == CASH(i, x))),
                ("positions = fold of the first i fills", z3.ForAll([x, m], shares_of(st, x, m)[0] == SHARES(i, x, m))),
                ("position dict objects unchanged", st.F("Agent", "asset_volumes") == e.F("Agent", "asset_volumes"))]
    return {0: LoopSpec(inv, modifies=["f:Agent.cash_amount", "dv:Int_Int"], header="execution_logs", name="fills")}


@task("Simulator._update_agents_for_execution", props=["C05"], functions=["Simulator._update_agents_for_execution"], replay="holdings")
def t_update_agents():
    obl, info = UPDATE_AGENTS.verify(loops=uae_loop())
    # lemma: one fill conserves cash and shares (also for a self-trade): the two parties' sums are unchanged, everybody else is untouched
    st = State(); k = z3.Int("k_lem"); b, s, x = z3.Consts("b_lem s_lem x_lem", REF); p = z3.Real("p_lem"); v, m, mid = z3.Ints("v_lem m_lem mid_lem")
    step_c = lambda a_: CASH(k, a_) - z3.If(a_ == b, p * z3.ToReal(v), 0) + z3.If(a_ == s, p * z3.ToReal(v), 0)
    step_s = lambda a_: SHARES(k, a_, m) + z3.If(z3.And(a_ == b, m == mid), v, 0) - z3.If(z3.And(a_ == s, m == mid), v, 0)
    goal(obl, "Simulator._update_agents_for_execution/lemma:one fill conserves the parties' total cash", [],
         z3.And(z3.Implies(b != s, step_c(b) + step_c(s) == CASH(k, b) + CASH(k, s)), z3.Implies(b == s, step_c(b) == CASH(k, b)), z3.Implies(z3.And(x != b, x != s), step_c(x) == CASH(k, x))))
    goal(obl, "Simulator._update_agents_for_execution/lemma:one fill conserves the parties' total shares per market", [],
         z3.And(z3.Implies(b != s, step_s(b) + step_s(s) == SHARES(k, b, m) + SHARES(k, s, m)), z3.Implies(b == s, step_s(b) == SHARES(k, b, m)), z3.Implies(z3.And(x != b, x != s), step_s(x) == SHARES(k, x, m))))
    # "Hence the total number of shares per market (and total cash) is constant": sum over the agent list, by induction on its length.
    # A / B: positions before / after one fill, indexed by the agent's place in the (duplicate-free) agent list; jb / js: places of buyer and seller.
    for nm, srt, SUM in (("shares", z3.IntSort(), SUM_INT), ("cash", z3.RealSort(), SUM_REAL)):
        A = z3.Const("A_" + nm, z3.ArraySort(z3.IntSort(), srt)); n, jb, js = z3.Ints(f"n_{nm} jb_{nm} js_{nm}"); d = z3.Const("d_" + nm, srt)
        B = z3.Store(A, jb, z3.Select(A, jb) + d)
        C = z3.Store(B, js, z3.Select(B, js) - d)        # also right for a self-trade (jb == js): the position is restored
        ax = sum_axioms(A, SUM) + sum_axioms(B, SUM) + sum_axioms(C, SUM)
        zero = z3.IntVal(0) if srt == z3.IntSort() else z3.RealVal(0)
        P1 = lambda m_: SUM(B, m_) == SUM(A, m_) + z3.If(jb < m_, d, zero)
        P2 = lambda m_: SUM(C, m_) == SUM(B, m_) - z3.If(js < m_, d, zero)
        goal(obl, f"Simulator._update_agents_for_execution/lemma:total {nm} over the agent list, induction base (empty prefix)", ax + [jb >= 0, js >= 0], z3.And(P1(z3.IntVal(0)), P2(z3.IntVal(0))))
        goal(obl, f"Simulator._update_agents_for_execution/lemma:total {nm} over the agent list, induction step (prefix n -> n + 1)", ax + [jb >= 0, js >= 0, n >= 0, P1(n), P2(n)], z3.And(P1(n + 1), P2(n + 1)))
        goal(obl, f"Simulator._update_agents_for_execution/lemma:one fill leaves the total {nm} of all agents unchanged (buyer and seller are in the list)", ax + [0 <= jb, jb < n, 0 <= js, js < n, P1(n), P2(n)], SUM(C, n) == SUM(A, n))
    return {"obligations": obl, "info": [info]}


# ----------------------------------------------------------------------------- clock stepping of all markets (C06, C17)
TICK = emit("Tick")          # Market._update_time(next_fundamental_price): the market's clock advances (trace event Tick(market, price))
FUND = emit("Fund", result=("real",), with_recv=False)      # Fundamentals.get_fundamental_price(market_id, time) -> value
FUNDIDX = emit("FundIndex", result=("real",))               # IndexMarket.compute_fundamental_index(time) -> value


def utm_trace(st0, st1, a, res):
    sim, m = a["self"], a["market"]
    isidx = is_instance("IndexMarket", m.term)
    t1 = st0.read(m, "time").term + 1
    fv = z3.Const("fund_value", z3.RealSort())
    return [("Fund", z3.Not(isidx), (st0.read(m, "market_id").term, t1, None)), ("FundIndex", isidx, (m.term, t1, None)), ("Tick", None, (m.term, None))]


UPDATE_TIME_ON_MARKET = FSpec("Simulator._update_time_on_market", props=("C06", "C17"), trace=utm_trace)


@task("Simulator._update_time_on_market", props=["C06", "C17"], functions=["Simulator._update_time_on_market"], replay="index")
def t_update_time_on_market():
    """a non-index market is advanced with the generator's value for time+1, an index market with the weighted average of its components for time+1"""
    specs = {("m", "Market", "_update_time"): TICK, ("m", "Fundamentals", "get_fundamental_price"): FUND, ("m", "IndexMarket", "compute_fundamental_index"): FUNDIDX}

    def extra(ex, st0, s1, a, res):
        tr = s1.trace
        # the value handed to the market is the one just obtained for the new time
        if len(tr) == 2 and tr[1][0] == "Tick":
            s1.oblige("trace:the recorded fundamental is the value obtained for time+1", tr[1][2][1] == tr[0][2][-1], "trace")
    obl, info = UPDATE_TIME_ON_MARKET.verify(specs=specs, extra_goals=extra)
    return {"obligations": obl, "info": [info]}


UTOM = emit("TickMarket")


def utms_trace(st0, st1, a, res):
    return [("ForEach", None, (None, (("TickMarket", None, (a["self"].term, ELEM)),))), ("ForEach", None, (None, (("TickMarket", None, (a["self"].term, ELEM)),)))]


from pyvc.spec import ELEM      # noqa
UPDATE_TIMES = FSpec("Simulator._update_times_on_markets", props=("C06", "C17"), trace=utms_trace, param_types={"markets": ("list", ("ref", "Market"))})


@task("Simulator._update_times_on_markets", props=["C06", "C17"], functions=["Simulator._update_times_on_markets"], replay="index")
def t_update_times():
    """every market of the list is advanced exactly once per call; every non-index market before every index market"""
    specs = {("m", "Simulator", "_update_time_on_market"): UTOM}
    loops = {0: ForEachTrace(name="non-index markets"), 1: ForEachTrace(name="index markets")}

    def extra(ex, st0, s1, a, res):
        tr = s1.trace
        if len(tr) != 2:
            return
        f1, f2 = tr[0][2][0], tr[1][2][0]
        mk = a["markets"].term; x = z3.Const("x_utm", REF)
        s1.oblige("post:the first pass visits exactly the non-index markets of the list, the second exactly the index markets",
                  z3.ForAll([x], z3.And(s1.mem(f1, x) == z3.And(s1.mem(mk, x), z3.Not(is_instance("IndexMarket", x))),
                                        s1.mem(f2, x) == z3.And(s1.mem(mk, x), is_instance("IndexMarket", x)))), "post")
        s1.oblige("post:every market of the list is visited in exactly one of the two passes",
                  z3.ForAll([x], z3.Implies(s1.mem(mk, x), z3.Xor(s1.mem(f1, x), s1.mem(f2, x)))), "post")
    obl, info = UPDATE_TIMES.verify(specs=specs, loops=loops, extra_goals=extra)
    return {"obligations": obl, "info": [info]}


# ----------------------------------------------------------------------------- event hook triggers (C13): the nine _trigger_event_* functions
from pyvc.spec import ELEM, implied      # noqa

TRIGGERS = [  # (function, table key, hook method, name of the argument, time-of-occurrence(st, sim, arg))
    ("_trigger_event_before_order", "order_before", "hooked_before_order", "order", ("ref", "Order"),
     lambda st, sim, a: st.read(V(("ref", "Market"), z3.Select(st.dict_val(st.read(sim, "id2market")), st.read(a, "market_id").term)), "time").term),
    ("_trigger_event_after_order", "order_after", "hooked_after_order", "order_log", ("ref", "OrderLog"), lambda st, sim, a: st.read(a, "time").term),
    ("_trigger_event_before_cancel", "cancel_before", "hooked_before_cancel", "cancel", ("ref", "Cancel"),
     lambda st, sim, a: st.read(V(("ref", "Market"), z3.Select(st.dict_val(st.read(sim, "id2market")), st.read(st.read(a, "order"), "market_id").term)), "time").term),
    ("_trigger_event_after_cancel", "cancel_after", "hooked_after_cancel", "cancel_log", ("ref", "CancelLog"), lambda st, sim, a: st.read(a, "cancel_time").term),
    ("_trigger_event_after_execution", "execution_after", "hooked_after_execution", "execution_log", ("ref", "ExecutionLog"), lambda st, sim, a: st.read(a, "time").term),
    ("_trigger_event_before_session", "session_before", "hooked_before_session", "session", ("ref", "Session"), lambda st, sim, a: st.read(a, "session_start_time").term),
    ("_trigger_event_after_session", "session_after", "hooked_after_session", "session", ("ref", "Session"),
     lambda st, sim, a: st.read(a, "session_start_time").term + st.read(a, "iteration_steps").term - 1),
    ("_trigger_event_before_step_for_market", "market_before", "hooked_before_step_for_market", "market", ("ref", "Market"), lambda st, sim, a: st.read(a, "time").term),
    ("_trigger_event_after_step_for_market", "market_after", "hooked_after_step_for_market", "market", ("ref", "Market"), lambda st, sim, a: st.read(a, "time").term),
]


def table(st, sim, key):
    ed = st.read(sim, "events_dict")
    inner = V(ed.ty[2], z3.Select(st.dict_val(ed), z3.StringVal(key)))
    return ed, inner


def bucket(st, inner, k):
    return z3.Select(st.dict_dom(inner), k), z3.Select(st.dict_val(inner), k)


def trigger_task(fname, key, method, argname, argty, time_of):
    qual = "Simulator." + fname
    is_market = key.startswith("market_")

    def pre(st, a):
        sim, arg = a["self"], a[argname]
        ed, inner = table(st, sim, key)
        kq = z3.Const("k_pre_reg", OptInt)
        cs = [("the hook table has an entry for this occasion", st.dict_has(ed, V(("str",), z3.StringVal(key)))),
              ("closed heap: the bucket lists stored in the hook table are allocated objects", z3.ForAll([kq], z3.Implies(z3.Select(st.dict_dom(inner), kq), st.is_alloc(z3.Select(st.dict_val(inner), kq)))))]
        if "order" in argname and fname.endswith(("before_order",)):
            cs.append(("the order names a registered market", st.dict_has(st.read(sim, "id2market"), st.read(arg, "market_id"))))
        if fname.endswith("before_cancel"):
            cs.append(("the cancelled order names a registered market", st.dict_has(st.read(sim, "id2market"), st.read(st.read(arg, "order"), "market_id"))))
        return cs
    spec = FSpec(qual, pre=pre, props=("C13",), modifies=lambda st, a: ["len", "mem", "el:Ref", "nodup", "heapok"])
    specs = {("m", "EventABC", method): emit("Hooked")}
    fe = ForEachTrace(name="matching-hooks")

    def extra(ex, st0, s1, a, res):
        sim, arg = a["self"], a[argname]
        tr = s1.trace
        if [t[0] for t in tr] != ["ForEach"]:
            s1.oblige(f"trace:exactly one pass over the selected hooks (got {[t[0] for t in tr]})", z3.BoolVal(False), "trace"); return
        L, tmpl = tr[0][2]
        ed, inner = table(st0, sim, key)
        tm = time_of(st0, sim, arg)
        dN, bN = bucket(st0, inner, OptInt.onone); dT, bT = bucket(st0, inner, OptInt.osome(tm))
        x = z3.Const("x_trg", REF); i = z3.Int("i_trg")
        nN = z3.If(dN, st0.length(bN), 0); nT = z3.If(dT, st0.length(bT), 0)
        LE = s1.elems(L, ("ref", "EventHook"))
        s1.oblige("post:C13 the hooks invoked are those registered for all times followed by those registered for the occurrence's time, each once, in registration order",
                  z3.And(s1.length(L) == nN + nT,
                         z3.ForAll([i], z3.Implies(z3.And(0 <= i, i < nN), z3.Select(LE, i) == z3.Select(st0.elems(bN, ("ref", "EventHook")), i))),
                         z3.ForAll([i], z3.Implies(z3.And(nN <= i, i < nN + nT), z3.Select(LE, i) == z3.Select(st0.elems(bT, ("ref", "EventHook")), i - nN)))), "post")
        kk = z3.Const("k_reg", OptInt); ii = z3.Int("i_reg")
        bk0 = z3.Select(st0.dict_val(inner), kk)
        s1.oblige("post:C13 dispatching does not modify the hook table: every registered bucket keeps its length and its hooks",
                  z3.ForAll([kk], z3.Implies(z3.Select(st0.dict_dom(inner), kk),
                                            z3.And(s1.length(bk0) == st0.length(bk0),
                                                   z3.ForAll([ii], z3.Implies(z3.And(0 <= ii, ii < st0.length(bk0)), z3.Select(s1.elems(bk0, ("ref", "EventHook")), ii) == z3.Select(st0.elems(bk0, ("ref", "EventHook")), ii)))))), "post")
        calls = [t for t in tmpl if t[0] == "Hooked"]
        if not calls or len(calls) != len(tmpl) or (not is_market and len(calls) != 1):
            s1.oblige(f"trace:each selected hook leads to exactly one call of {method} (got {[t[0] for t in tmpl]})", z3.BoolVal(False), "trace"); return
        ev_of = s1.F("EventHook", "event")[ELEM]
        for c in calls:
            s1.oblige(f"trace:C13 the call goes to the hook's own event with this simulator and this {argname}", z3.And(c[2][0] == ev_of, c[2][1] == sim.term, c[2][2] == arg.term), "trace")
        if is_market:
            # the body paths are mutually exclusive; the hook is called on exactly those paths where the filter passes
            sc = s1.read(V(("ref", "EventHook"), ELEM), "specific_class"); si = s1.read(V(("ref", "EventHook"), ELEM), "specific_instance")
            isd = z3.Function("isinstance_dyn", REF, z3.IntSort(), z3.BoolSort())
            want = z3.And(z3.Or(sc.none, isd(arg.term, sc.term)), z3.Or(si.none, si.term == arg.term))
            gs = [c[1] if c[1] is not None else z3.BoolVal(True) for c in calls]
            s1.oblige("trace:C13 a market-step hook is invoked iff the market passes the hook's class and instance filter", z3.Or(*gs) == want, "trace")
            pairs = [z3.Not(z3.And(gs[i_], gs[j_])) for i_ in range(len(gs)) for j_ in range(i_ + 1, len(gs))]
            s1.oblige("trace:C13 at most one call per selected hook", z3.And(*pairs) if pairs else z3.BoolVal(True), "trace")
        else:
            s1.oblige("trace:C13 no filter other than the time applies", z3.BoolVal(calls[0][1] is None), "trace")

    def build():
        obl, info = spec.verify(loops={0: fe}, specs=specs, extra_goals=extra)
        return {"obligations": obl, "info": [info]}
    build.__doc__ = f"{fname}: selection by time bucket (None = always) and call of {method} per selected hook"
    task(qual, props=["C13"], functions=[qual] + (["Simulator._check_event_class_and_instance"] if is_market else []), replay="hooks")(build)


for _t in TRIGGERS:
    trigger_task(*_t)


# ----------------------------------------------------------------------------- _add_event (C13): no double registration; each registration key gets the hook once
import ast as _ast
from pyvc.spec import run_block, find_loops      # noqa
QA = "Simulator._add_event"


def reg_name(st, h):
    return z3.Concat(st.read(h, "hook_type").term, z3.If(st.read(h, "is_before").term, z3.StringVal("_before"), z3.StringVal("_after")))


def inner_of(st, sim, name_term):
    ed = st.read(sim, "events_dict")
    return ed, V(ed.ty[2], z3.Select(st.dict_val(ed), name_term))


class RegisterLoop:
    """the registration loop is verified per key (task Simulator._add_event[per-key]); here it is summarised as a trace event"""
    header = None
    name = "register-times"

    def run_for(self, ex, s, st, d):
        out = []
        for s1, it in ex.ev(s.iter, st, d):
            s1 = s1.copy(); s1.trace = s1.trace + [("RegisterKeys", None, (it.term if it.term is not None else z3.IntVal(-1),))]
            havoc_with_frame_(s1, ["len", "mem", "el:Ref", "nodup", "heapok", "dd:OptInt_Ref", "dv:OptInt_Ref"])
            out.append((s1, "fall", None))
        return out


def havoc_with_frame_(st, mods):
    from pyvc.spec import havoc_with_frame
    havoc_with_frame(st, mods)


def ae_pre_(st, a):
    sim, h = a["self"], a["event_hook"]
    ed = st.read(sim, "events_dict")
    return [("the hook was built by EventHook(...): its occasion is one of the nine table keys", st.dict_has(ed, V(("str",), reg_name(st, h)))),
            ("the hook list and the event list are separate objects", st.read(sim, "events").term != st.read(sim, "event_hooks").term)]


ADD_EVENT = FSpec(QA, pre=ae_pre_, props=("C13",),
                  raises={"ValueError": lambda st, a: st.mem(st.read(a["self"], "event_hooks").term, a["event_hook"].term)},
                  modifies=lambda st, a: ["len", "mem", "el:Ref", "nodup", "heapok", "dd:OptInt_Ref", "dv:OptInt_Ref", "dd:Int_Ref", "dv:Int_Ref", "dd:String_Ref", "dv:String_Ref",
                                          ("f:Simulator.n_events", [a["self"].term]), "len:Int", "el:Int", "el:Int?"])


@task(QA, props=["C13"], functions=[QA], replay="whole_run")
def t_add_event():
    """a hook cannot be registered twice (ValueError iff already registered); otherwise it is appended once to the hook list before its keys are registered"""
    fn = get_src_().funcs[QA][0]
    loops = find_loops(fn, kind=_ast.For)
    if len(loops) != 1:
        raise Unsupported(f"anchor-lost: registration loop of {QA}")

    def extra(ex, st0, s1, a, res):
        sim, h = a["self"], a["event_hook"]
        hooks = st0.read(sim, "event_hooks").term
        pre_loop = s1.ghost.get("pre_loop")
        s1.oblige("trace:exactly one pass over the registration keys", z3.BoolVal([t[0] for t in s1.trace] == ["RegisterKeys"]), "trace")
        if pre_loop is not None:
            x = z3.Const("x_ae", REF)
            pre_loop.obl = s1.obl; pre_loop.quiet = False; pre_loop.labels = list(s1.labels)
            pre_loop.oblige("post:the hook is appended exactly once to the list of registered hooks",
                            z3.And(pre_loop.read(sim, "event_hooks").term == hooks, pre_loop.length(hooks) == st0.length(hooks) + 1,
                                   z3.ForAll([x], pre_loop.mem(hooks, x) == z3.Or(st0.mem(hooks, x), x == h.term))), "post")

    def setup(ex, st, a):
        def snap(ex_, s1):
            s1.ghost["pre_loop"] = s1.copy()
        ex.ghost_after = {"assign:times": snap}
    node = loops[0]
    obl, info = ADD_EVENT.verify(loops={0: RegisterLoop()}, setup=setup, extra_goals=extra)
    return {"obligations": obl, "info": [info]}


def get_src_():
    from pyvc.src import get_src
    return get_src()


@task(QA + "[per-key]", props=["C13"], functions=[QA], replay="whole_run")
def t_add_event_key():
    """one registration key: the hook is appended exactly once to the bucket of (occasion, key), which is created if missing; every other bucket is untouched.
    With pairwise distinct keys (obligation `keys-distinct`) the for-each rule gives multiplicity one per bucket."""
    fn = get_src_().funcs[QA][0]
    loop = find_loops(fn, kind=_ast.For)[0]
    sim = sym_obj("Simulator", "sim"); h = sym_obj("EventHook", "hook")
    R = V(("str",), z3.Const("register_name", z3.StringSort()))
    key = V(("opt", ("int",)), z3.Const("time_key", z3.IntSort()), none=z3.Bool("time_key?"))
    env = {"self": sim, "event_hook": h, "register_name": R, loop.target.id: key}

    def assume(st):
        ed, inn = inner_of(st, sim, R.term)
        tau = z3.Const("tau_k", OptInt)
        return [st.dict_has(ed, R), st.is_alloc(inn.term),
                z3.ForAll([tau], z3.Implies(z3.Select(st.dict_dom(inn), tau), z3.And(st.is_alloc(z3.Select(st.dict_val(inn), tau)), st.nodup(z3.Select(st.dict_val(inn), tau)) == st.nodup(z3.Select(st.dict_val(inn), tau)))))]
    ex, st0, outs, obl = run_block(QA, loop.body, env, assume=assume, label=QA + "[per-key]")
    ed0, inn0 = inner_of(st0, sim, R.term)
    k = coerce(key, ("optint",))
    tau = z3.Const("tau_k2", OptInt); x = z3.Const("x_k", REF)
    n = 0
    for s1, kind, val in outs:
        if kind == "raise":
            s1.oblige(f"no-raise:{val[0]}@{val[1]}", z3.BoolVal(False), "no-raise"); continue
        n += 1
        ed1, inn1 = inner_of(s1, sim, R.term)
        d0 = lambda t_: z3.Select(st0.dict_dom(inn0), t_); b0 = lambda t_: z3.Select(st0.dict_val(inn0), t_)
        d1 = lambda t_: z3.Select(s1.dict_dom(inn1), t_); b1 = lambda t_: z3.Select(s1.dict_val(inn1), t_)
        s1.oblige("post:the bucket of this key exists afterwards and holds the old entries followed by the hook (appended exactly once)",
                  z3.And(inn1.term == inn0.term, d1(k), s1.length(b1(k)) == z3.If(d0(k), st0.length(b0(k)), 0) + 1,
                         z3.ForAll([x], s1.mem(b1(k), x) == z3.Or(z3.And(d0(k), st0.mem(b0(k), x)), x == h.term)),
                         z3.Select(s1.elems(b1(k), ("ref", "EventHook")), s1.length(b1(k)) - 1) == h.term), "post")
        s1.oblige("post:every other key of the table keeps its bucket object, and that bucket is untouched",
                  z3.ForAll([tau], z3.Implies(tau != k, z3.And(d1(tau) == d0(tau), z3.Implies(d0(tau), z3.And(b1(tau) == b0(tau), z3.Implies(b0(tau) != b1(k),
                            z3.And(s1.memset(b0(tau)) == st0.memset(b0(tau)), s1.length(b0(tau)) == st0.length(b0(tau))))))))), "post")
        s1.oblige("post:a new bucket is a fresh list", z3.Implies(z3.Not(d0(k)), z3.Not(st0.is_alloc(b1(k)))), "post")
    obl.append({"name": QA + "[per-key]/cover:paths", "pc": [], "goal": z3.BoolVal(n >= 2), "kind": "cover"})
    info = {"function": QA + " (body of the registration loop)", "source_sha": get_src_().source_hash(QA), "where": get_src_().where(QA), "paths": n, "assumptions": sorted(ex.used_assumptions)}
    return {"obligations": obl, "info": [info]}


@task(QA + "[keys-distinct]", props=["C13"], functions=[QA], replay="hooks")
def t_add_event_keys_distinct():
    """the registration loop runs over pairwise distinct keys, so no bucket receives the hook twice (a hook is invoked exactly once per matching occurrence)"""
    fn = get_src_().funcs[QA][0]
    loop = find_loops(fn, kind=_ast.For)[0]
    idx = fn.body.index(loop) if loop in fn.body else None
    if idx is None:
        raise Unsupported("anchor-lost: registration loop is not a top-level statement of " + QA)
    sim = sym_obj("Simulator", "sim"); h = sym_obj("EventHook", "hook")
    # run the statements that compute the iterated sequence (`register_name = ...`, `times = ...`), then evaluate the loop's iterable
    wanted = {"times", "register_name", "event"}
    def binds(s_):
        return any(isinstance(n_, _ast.Name) and isinstance(n_.ctx, _ast.Store) and n_.id in wanted for n_ in _ast.walk(s_))
    pre_stmts = [s_ for s_ in fn.body[:idx] if binds(s_)]       # at any depth: `times = A if c else B` and `if c: times = A else: times = B` alike
    ex, st0, outs, obl = run_block(QA, pre_stmts, {"self": sim, "event_hook": h}, label=QA + "[keys-distinct]")
    n = 0
    for s1, kind, val in outs:
        if kind != "fall":
            continue
        for s2, it in ex.ev(loop.iter, s1, 0):
            n += 1
            s2 = s2.copy(); s2.labels = [QA + "[keys-distinct]"]
            length, at, ety = ex.iter_view(s2, it)
            i, j = z3.Ints("i_kd j_kd")
            ki = coerce(at(s2, i), ("optint",)); kj = coerce(at(s2, j), ("optint",))
            s2.oblige("post:C13 the registration keys are pairwise distinct (each bucket gets the hook once, so it fires once per matching occurrence)",
                      z3.ForAll([i, j], z3.Implies(z3.And(0 <= i, i < j, j < length), ki != kj)), "post")
    obl.append({"name": QA + "[keys-distinct]/cover:paths", "pc": [], "goal": z3.BoolVal(n >= 2), "kind": "cover"})
    info = {"function": QA + " (iterable of the registration loop)", "source_sha": get_src_().source_hash(QA), "where": get_src_().where(QA), "paths": n, "assumptions": sorted(ex.used_assumptions)}
    return {"obligations": obl, "info": [info]}


# ----------------------------------------------------------------------------- Simulator.__init__: establishes the empty registries and the nine-occasion hook table (C13, C18)
QI = "Simulator.__init__"
OCCASIONS = ["order_before", "order_after", "cancel_before", "cancel_after", "execution_after", "session_before", "session_after", "market_before", "market_after"]
REG_LISTS = ["events", "event_hooks", "agents", "high_frequency_agents", "normal_frequency_agents", "markets", "sessions"]
REG_DICTS = ["id2event", "name2event", "id2agent", "name2agent", "agents_group_name2agent", "id2market", "name2market", "markets_group_name2market", "id2session", "name2session"]
REG_COUNTERS = ["n_events", "n_agents", "n_markets", "n_sessions"]


@task(QI + "[registries]", props=["C13", "C18"], functions=[QI], replay="hooks")
def t_simulator_init():
    """the constructor (all statements except the creation of the fundamentals generator, whose class is a parameter) leaves: counters 0, every registry list and dict empty and a separate
    new object, no current session, and a hook table with exactly the nine occasions, each with its own empty bucket table"""
    fn = get_src_().funcs[QI][0]

    def is_fund(s_):
        return any(isinstance(n_, _ast.Attribute) and n_.attr == "fundamentals" and isinstance(n_.ctx, _ast.Store) for n_ in _ast.walk(s_))
    stmts = [s_ for s_ in fn.body if not (isinstance(s_, _ast.Expr) and isinstance(s_.value, _ast.Constant)) and not is_fund(s_)]
    if len(stmts) != len(fn.body) - 2:
        raise Unsupported("anchor-lost: Simulator.__init__ is no longer docstring + registries + one fundamentals statement")
    sim = sym_obj("Simulator", "sim"); prng = sym_obj("Random", "prng")
    obl_all = []; n = 0; info_ass = set()
    for with_logger in (False, True):
        lg = V(("opt", ("ref", "Logger")), z3.Const("logger_arg", REF), none=z3.BoolVal(not with_logger))
        env = {"self": sim, "prng": prng, "logger": lg}
        specs = {("m", "Logger", "_set_simulator"): (lambda ex, st, recv, pos, kw, node: [(st, NONE)])}       # stores a back reference in the logger only
        ex, st0, outs, obl = run_block(QI, stmts, env, specs=specs, label=QI + "[registries]")
        info_ass |= set(ex.used_assumptions)
        for s1, kind, val in outs:
            if kind == "raise":
                s1.oblige(f"no-raise:{val[0]}@{val[1]}", z3.BoolVal(False), "no-raise"); continue
            n += 1
            R = lambda f: s1.read(sim, f)
            for c in REG_COUNTERS:
                s1.oblige(f"post:{c} = 0", R(c).term == 0, "post")
            objs = []
            for l in REG_LISTS:
                t = R(l).term; objs.append(t)
                s1.oblige(f"post:registry list `{l}` is empty and new", z3.And(s1.length(t) == 0, z3.Not(st0.is_alloc(t))), "post")
            for dn in REG_DICTS:
                dv = R(dn); objs.append(dv.term)
                k = z3.Const("k_si_" + dn, sort_of(dv.ty[1]))
                s1.oblige(f"post:registry dict `{dn}` is empty and new", z3.And(z3.ForAll([k], z3.Not(z3.Select(s1.dict_dom(dv), k))), z3.Not(st0.is_alloc(dv.term))), "post")
            ed = R("events_dict"); objs.append(ed.term)
            name = z3.Const("occ_si", z3.StringSort())
            s1.oblige("post:C13 the hook table has exactly the nine occasions",
                      z3.ForAll([name], z3.Select(s1.dict_dom(ed), name) == z3.Or(*[name == z3.StringVal(o) for o in OCCASIONS])), "post")
            tau = z3.Const("tau_si", OptInt)
            for o in OCCASIONS:
                inner = V(ed.ty[2], z3.Select(s1.dict_val(ed), z3.StringVal(o))); objs.append(inner.term)
                s1.oblige(f"post:C13 occasion `{o}` starts with an empty bucket table of its own", z3.And(z3.ForAll([tau], z3.Not(z3.Select(s1.dict_dom(inner), tau))), z3.Not(st0.is_alloc(inner.term))), "post")
            s1.oblige("post:all registries are pairwise separate objects", z3.Distinct(*objs), "post")
            s1.oblige("post:no current session; generator and logger stored as given",
                      z3.And(R("current_session").none, R("_prng").term == prng.term, R("logger").none == lg.none, z3.Implies(z3.Not(lg.none), R("logger").term == lg.term)), "post")
        obl_all += obl
    obl_all.append({"name": QI + "[registries]/cover:paths", "pc": [], "goal": z3.BoolVal(n >= 2), "kind": "cover"})
    info = {"function": QI + " (all statements but the creation of the fundamentals generator)", "source_sha": get_src_().source_hash(QI), "where": get_src_().where(QI), "paths": n,
            "assumptions": sorted(info_ass) + ["`self.fundamentals = fundamental_class(prng=random.Random(self._prng.randint(0, 2**31)))` is not executed symbolically (the class is a parameter)"]}
    return {"obligations": obl_all, "info": [info]}
