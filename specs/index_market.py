"""IndexMarket under contract (C17): index value = share-weighted average of the components' prices; component validation."""
import z3

from pyvc.core import *   # noqa
from pyvc.spec import FSpec, LoopSpec, task
from .vocab import *      # noqa

W = z3.Function("W_idx", z3.IntSort(), z3.RealSort())      # W(k) = sum over the first k components of price(c, t) * shares(c)
S = z3.Function("S_idx", z3.IntSort(), z3.IntSort())       # S(k) = sum over the first k components of shares(c)


def comp(st, idx, i):
    return z3.Select(st.elems(st.read(idx, "_components").term, ("ref", "Market")), i)


def the_time(st, a):
    t = a["time"]
    return z3.If(t.none, st.read(a["self"], "time").term, t.term)


def make(series, qual, what):
    def pre(st, a):
        idx = a["self"]; t = the_time(st, a)
        i = z3.Int("i_ix")
        n = st.length(st.read(idx, "_components").term)
        c = comp(st, idx, i); cm = V(("ref", "Market"), c)
        sh = st.read(cm, "outstanding_shares")
        price = cell(st, cm, series, t)
        return [("every component declares outstanding shares and has a recorded value at the requested time (not in its future)",
                 z3.ForAll([i], z3.Implies(z3.And(0 <= i, i < n), z3.And(z3.Not(sh.none), t >= 0, t <= st.read(cm, "time").term,
                                                                          st.length(series_ref(st, cm, series), ("real",)) > t, z3.Not(price.none))))),
                ("fold-def", z3.And(W(0) == 0, S(0) == 0, z3.ForAll([i], z3.Implies(z3.And(0 <= i, i < n), z3.And(W(i + 1) == W(i) + price.term * z3.ToReal(sh.term), S(i + 1) == S(i) + sh.term))))),
                ("total outstanding shares non-zero", S(n) != 0), ("len >= 0", n >= 0)]

    def post(st0, st1, a, res):
        n = st0.length(st0.read(a["self"], "_components").term)
        return [(f"result = share-weighted average of the components' {what}", res.term == W(n) / z3.ToReal(S(n)))]

    def inv(st, ctx):
        i = ctx["i"]
        return [("total_value = W(i)", to_real(st.env["total_value"]) == W(i)), ("total_shares = S(i)", st.env["total_shares"].term == S(i))]
    spec = FSpec(qual, pre=pre, post=post, props=("C17",))
    return spec, {0: LoopSpec(inv, header="self._components", name="components")}


MARKET_INDEX, MI_LOOPS = make("_market_prices", "IndexMarket.compute_market_index", "market prices")
FUND_INDEX, FI_LOOPS = make("_fundamental_prices", "IndexMarket.compute_fundamental_index", "fundamental values")


@task("IndexMarket.compute_market_index", props=["C17"], functions=["IndexMarket.compute_market_index", "Market.get_market_price", "Market._extract_data_by_time"], replay="index")
def t_market_index():
    obl, info = MARKET_INDEX.verify(loops=MI_LOOPS)
    return {"obligations": obl, "info": [info]}


@task("IndexMarket.compute_fundamental_index", props=["C17"], functions=["IndexMarket.compute_fundamental_index", "Market.get_fundamental_price"], replay="index")
def t_fund_index():
    obl, info = FUND_INDEX.verify(loops=FI_LOOPS)
    return {"obligations": obl, "info": [info]}


# get_index -> get_market_index -> compute_market_index: same contract through the real delegation chain
def gi_pre(st, a):
    return MARKET_INDEX.pre(st, a)


GET_INDEX = FSpec("IndexMarket.get_index", pre=gi_pre, post=lambda st0, st1, a, res: MARKET_INDEX.post(st0, st1, a, res), props=("C17",))


@task("IndexMarket.get_index", props=["C17"], functions=["IndexMarket.get_index", "IndexMarket.get_market_index"], replay="index")
def t_get_index():
    obl, info = GET_INDEX.verify(specs={("m", "IndexMarket", "compute_market_index"): MARKET_INDEX.handler()})
    return {"obligations": obl, "info": [info]}


# _add_market: components are distinct markets that declare outstanding shares
def am_post(st0, st1, a, res):
    idx, m = a["self"], a["market"]
    lst = st0.read(idx, "_components").term
    y = z3.Const("y_am", REF)
    return [("component appended once", z3.And(st1.length(lst) == st0.length(lst) + 1, z3.ForAll([y], st1.mem(lst, y) == z3.Or(st0.mem(lst, y), y == m.term)),
                                               st1.read(idx, "_components").term == lst)),
            ("components stay pairwise distinct", z3.Implies(st0.nodup(lst), st1.nodup(lst)))]


ADD_COMPONENT = FSpec("IndexMarket._add_market", post=am_post, props=("C17",),
                      modifies=lambda st, a: [(k, [st.read(a["self"], "_components").term]) for k in ("len", "mem", "el:Ref", "nodup", "heapok")],
                      raises={"ValueError": lambda st, a: st.mem(st.read(a["self"], "_components").term, a["market"].term),
                              "AssertionError": lambda st, a: z3.And(z3.Not(st.mem(st.read(a["self"], "_components").term, a["market"].term)), st.read(a["market"], "outstanding_shares").none)})


@task("IndexMarket._add_market", props=["C17"], functions=["IndexMarket._add_market"], replay="index")
def t_add_component():
    obl, info = ADD_COMPONENT.verify()
    return {"obligations": obl, "info": [info]}
