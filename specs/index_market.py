"""IndexMarket under contract (C17): index value = share-weighted average of the components' prices; component validation."""
import z3

from pyvc.core import *   # noqa
from pyvc.spec import FSpec, LoopSpec, task
from .vocab import *      # noqa

W = z3.Function("W_idx", z3.IntSort(), z3.RealSort())      # W(k) = sum over the first k components of price(c, t) * shares(c)
S = z3.Function("S_idx", z3.IntSort(), z3.IntSort())       # S(k) = sum over the first k components of shares(c)


def comp(st, idx, i):
    return z3.Select(st.elems(st.read(idx, "_components").term, ("ref", "Market")), i)


def the_time(st, a):
    t = a["time"]
    return z3.If(t.none, st.read(a["self"], "time").term, t.term)


def make(series, qual, what):
    def pre(st, a):
        idx = a["self"]; t = the_time(st, a)
        i = z3.Int("i_ix")
        n = st.length(st.read(idx, "_components").term)
        c = comp(st, idx, i); cm = V(("ref", "Market"), c)
        sh = st.read(cm, "outstanding_shares")
        price = cell(st, cm, series, t)
        return [("every component declares outstanding shares and, unless the requested time lies in its future, has a recorded value at that time",
                 z3.ForAll([i], z3.Implies(z3.And(0 <= i, i < n), z3.And(z3.Not(sh.none), t >= 0, z3.Implies(t <= st.read(cm, "time").term,
                                                                          z3.And(st.length(series_ref(st, cm, series), ("real",)) > t, z3.Not(price.none))))))),
                ("fold-def", z3.And(W(0) == 0, S(0) == 0, z3.ForAll([i], z3.Implies(z3.And(0 <= i, i < n), z3.And(W(i + 1) == W(i) + price.term * z3.ToReal(sh.term), S(i + 1) == S(i) + sh.term))))),
                ("total outstanding shares non-zero", S(n) != 0), ("len >= 0", n >= 0)]

    def post(st0, st1, a, res):
        n = st0.length(st0.read(a["self"], "_components").term)
        return [(f"result = share-weighted average of the components' {what}", res.term == W(n) / z3.ToReal(S(n)))]

    def accumulators():
        """names of the two running sums, found by role (robust against renaming): the `+=` targets of the component loop, the one whose increment is a product first"""
        import ast
        from pyvc.src import get_src
        fn = get_src().funcs[qual][0]
        loops = [n for n in ast.walk(fn) if isinstance(n, ast.For)]
        if len(loops) != 1:
            raise Unsupported(f"anchor-lost: the component loop of {qual}")
        augs = [n for n in ast.walk(loops[0]) if isinstance(n, ast.AugAssign) and isinstance(n.op, ast.Add) and isinstance(n.target, ast.Name)]
        prod = [a.target.id for a in augs if any(isinstance(x, ast.Mult) for x in ast.walk(a.value))]
        plain = [a.target.id for a in augs if a.target.id not in prod]
        if len(prod) != 1 or len(plain) != 1:
            raise Unsupported(f"anchor-lost: value / share accumulators of {qual}")
        return prod[0], plain[0]

    def future(st, a):
        """some component has not reached the requested time yet (its value there does not exist: C06 - a query for the future is refused, never answered with an older value)"""
        idx = a["self"]; t = the_time(st, a); i = z3.Int("i_ixf")
        n = st.length(st.read(idx, "_components").term)
        return z3.Exists([i], z3.And(0 <= i, i < n, t > st.read(V(("ref", "Market"), comp(st, idx, i)), "time").term))

    def inv(st, ctx):
        i = ctx["i"]; j = z3.Int("j_ixl")
        tv, ts = accumulators()
        ent = ctx["fn_entry"]; a = {"self": st.env["self"], "time": ent.env["time"]}
        t = the_time(ent, a)
        return [("total_value = W(i)", to_real(st.env[tv]) == W(i)), ("total_shares = S(i)", st.env[ts].term == S(i)),
                ("no component handled so far lies behind the requested time", z3.ForAll([j], z3.Implies(z3.And(0 <= j, j < i), t <= ent.read(V(("ref", "Market"), comp(ent, st.env["self"], j)), "time").term)))]
    spec = FSpec(qual, pre=pre, post=post, props=("C17",), raises={"AssertionError": future})
    return spec, {0: LoopSpec(inv, header="self._components", name="components")}


MARKET_INDEX, MI_LOOPS = make("_market_prices", "IndexMarket.compute_market_index", "market prices")
FUND_INDEX, FI_LOOPS = make("_fundamental_prices", "IndexMarket.compute_fundamental_index", "fundamental values")


@task("IndexMarket.compute_market_index", props=["C17"], functions=["IndexMarket.compute_market_index", "Market.get_market_price", "Market._extract_data_by_time"], replay="index")
def t_market_index():
    obl, info = MARKET_INDEX.verify(loops=MI_LOOPS)
    return {"obligations": obl, "info": [info]}


@task("IndexMarket.compute_fundamental_index", props=["C17"], functions=["IndexMarket.compute_fundamental_index", "Market.get_fundamental_price"], replay="index")
def t_fund_index():
    obl, info = FUND_INDEX.verify(loops=FI_LOOPS)
    return {"obligations": obl, "info": [info]}


# get_index -> get_market_index -> compute_market_index: same contract through the real delegation chain
def gi_pre(st, a):
    return MARKET_INDEX.pre(st, a)


GET_INDEX = FSpec("IndexMarket.get_index", pre=gi_pre, post=lambda st0, st1, a, res: MARKET_INDEX.post(st0, st1, a, res), props=("C17",), raises=dict(MARKET_INDEX.raises))


@task("IndexMarket.get_index", props=["C17"], functions=["IndexMarket.get_index", "IndexMarket.get_market_index"], replay="index")
def t_get_index():
    obl, info = GET_INDEX.verify(specs={("m", "IndexMarket", "compute_market_index"): MARKET_INDEX.handler()})
    return {"obligations": obl, "info": [info]}


# _add_market: components are distinct markets that declare outstanding shares
def am_post(st0, st1, a, res):
    idx, m = a["self"], a["market"]
    lst = st0.read(idx, "_components").term
    y = z3.Const("y_am", REF)
    return [("component appended once", z3.And(st1.length(lst) == st0.length(lst) + 1, z3.ForAll([y], st1.mem(lst, y) == z3.Or(st0.mem(lst, y), y == m.term)),
                                               st1.read(idx, "_components").term == lst)),
            ("components stay pairwise distinct", z3.Implies(st0.nodup(lst), st1.nodup(lst)))]


ADD_COMPONENT = FSpec("IndexMarket._add_market", post=am_post, props=("C17",),
                      modifies=lambda st, a: [(k, [st.read(a["self"], "_components").term]) for k in ("len", "mem", "el:Ref", "nodup", "heapok")],
                      raises={"ValueError": lambda st, a: st.mem(st.read(a["self"], "_components").term, a["market"].term),
                              "AssertionError": lambda st, a: z3.And(z3.Not(st.mem(st.read(a["self"], "_components").term, a["market"].term)), st.read(a["market"], "outstanding_shares").none)})


@task("IndexMarket._add_market", props=["C17"], functions=["IndexMarket._add_market"], replay="index")
def t_add_component():
    obl, info = ADD_COMPONENT.verify()
    return {"obligations": obl, "info": [info]}


# _add_markets / setup: a whole batch of components; the duplicate check covers duplicates inside the batch (C17 "components must be distinct markets that declare outstanding shares")
def comp_inv(st, idx):
    lst = st.read(idx, "_components").term
    y = z3.Const("y_ci", REF)
    return z3.And(st.nodup(lst), st.length(lst) >= 0, z3.ForAll([y], z3.Implies(st.mem(lst, y), z3.Not(st.read(V(("ref", "Market"), y), "outstanding_shares").none))))


def batch_view(st, a):
    ms = a["markets"].term
    return ms, st.length(ms), st.elems(ms, ("ref", "Market"))


def batch_dup(st, a):
    idx = a["self"]; lst = st.read(idx, "_components").term
    ms, n, el = batch_view(st, a)
    i, j = z3.Ints("i_bd j_bd")
    return z3.Or(z3.Exists([i], z3.And(0 <= i, i < n, st.mem(lst, z3.Select(el, i)))), z3.Exists([i, j], z3.And(0 <= i, i < j, j < n, z3.Select(el, i) == z3.Select(el, j))))


def batch_noshares(st, a):
    ms, n, el = batch_view(st, a)
    i = z3.Int("i_bn")
    return z3.Exists([i], z3.And(0 <= i, i < n, st.read(V(("ref", "Market"), z3.Select(el, i)), "outstanding_shares").none))


def ams_post(st0, st1, a, res):
    idx = a["self"]; lst = st0.read(idx, "_components").term
    ms, n, el = batch_view(st0, a)
    y = z3.Const("y_ams", REF); i = z3.Int("i_ams")
    return [("C17 the components are the previous ones plus every market of the batch, each once",
             z3.And(st1.read(idx, "_components").term == lst, st1.length(lst) == st0.length(lst) + n,
                    z3.ForAll([y], st1.mem(lst, y) == z3.Or(st0.mem(lst, y), z3.Exists([i], z3.And(0 <= i, i < n, z3.Select(el, i) == y)))))),
            ("C17 components are pairwise distinct markets that declare outstanding shares", comp_inv(st1, idx))]


ADD_COMPONENTS = FSpec("IndexMarket._add_markets", post=ams_post, props=("C17",),
                       pre=lambda st, a: [("components so far are distinct and declare shares", comp_inv(st, a["self"])), ("len >= 0", st.length(a["markets"].term) >= 0),
                                          ("the batch is not the component list itself", a["markets"].term != st.read(a["self"], "_components").term)],
                       modifies=lambda st, a: [(k, [st.read(a["self"], "_components").term]) for k in ("len", "mem", "el:Ref", "nodup", "heapok")],
                       raises={"ValueError": batch_dup, "AssertionError": batch_noshares})


def ams_loops():
    def inv(st, ctx):
        i = ctx["i"]; e = ctx["entry"]; idx = st.env["self"]
        a = {"self": idx, "markets": st.env["markets"]}
        lst = e.read(idx, "_components").term
        ms, n, el = batch_view(e, a)
        y = z3.Const("y_amsl", REF); j, k = z3.Ints("j_amsl k_amsl")
        return [("components = previous + the first i markets of the batch", z3.And(st.read(idx, "_components").term == lst, st.length(lst) == e.length(lst) + i,
                                                                                    z3.ForAll([y], st.mem(lst, y) == z3.Or(e.mem(lst, y), z3.Exists([j], z3.And(0 <= j, j < i, z3.Select(el, j) == y)))))),
                ("component invariant", comp_inv(st, idx)),
                ("the batch list is unchanged", z3.And(st.length(ms) == n, z3.ForAll([j], z3.Implies(z3.And(0 <= j, j < n), z3.Select(st.elems(ms, ("ref", "Market")), j) == z3.Select(el, j))))),
                ("the first i markets of the batch were new, pairwise distinct and declare shares",
                 z3.And(z3.ForAll([j], z3.Implies(z3.And(0 <= j, j < i), z3.And(z3.Not(e.mem(lst, z3.Select(el, j))), z3.Not(st.read(V(("ref", "Market"), z3.Select(el, j)), "outstanding_shares").none)))),
                        z3.ForAll([j, k], z3.Implies(z3.And(0 <= j, j < k, k < i), z3.Select(el, j) != z3.Select(el, k)))))]
    return {0: LoopSpec(inv, modifies=lambda st, ctx: [(k, [st.read(st.env["self"], "_components").term]) for k in ("len", "mem", "el:Ref", "nodup", "heapok")], header="markets", name="batch")}


@task("IndexMarket._add_markets", props=["C17"], functions=["IndexMarket._add_markets"], replay="index")
def t_add_components():
    """_add_markets: every market of the batch goes through the duplicate / shares check against everything registered before it, including earlier members of the same batch"""
    obl, info = ADD_COMPONENTS.verify(specs={("m", "IndexMarket", "_add_market"): ADD_COMPONENT.handler()}, loops=ams_loops())
    return {"obligations": obl, "info": [info]}


# IndexMarket.setup: the configured component names go through the same check one by one (whatever Market.setup does before, it cannot touch the component list)
def idx_setup_loops():
    def inv(st, ctx):
        return [("component invariant", comp_inv(st, st.env["self"])), ("the component list object is the one created by __init__", st.read(st.env["self"], "_components").term == ctx["entry"].read(st.env["self"], "_components").term)]
    return {0: LoopSpec(inv, modifies=lambda st, ctx: [(k, [st.read(st.env["self"], "_components").term]) for k in ("len", "mem", "el:Ref", "nodup", "heapok")], header="settings['markets']", name="configured-components")}


IDX_SETUP = FSpec("IndexMarket.setup", props=("C17",), param_types={"settings": ("dict", ("str",), ("dyn",))}, modifies=lambda st, a: ["*"],
                  pre=lambda st, a: idx_setup_pre(st, a),
                  post=lambda st0, st1, a, res: [("C17 components are pairwise distinct markets that declare outstanding shares", comp_inv(st1, a["self"])),
                                                 ("C07 the settings handed to the index market are not written", z3.And(st1.dict_dom(a["settings"]) == st0.dict_dom(a["settings"]), st1.dict_val(a["settings"]) == st0.dict_val(a["settings"])))])


def idx_setup_pre(st, a):
    s = a["settings"]; sim = st.read(a["self"], "simulator")
    v = z3.Select(st.dict_val(s), z3.StringVal("markets"))
    lst = dyn_ref(v); i = z3.Int("i_isp")
    el = lambda j: z3.Select(st.elems(lst, ("dyn",)), j)
    n2m = st.read(sim, "name2market")
    return [("components so far are distinct and declare shares", comp_inv(st, a["self"])),
            ("numeric market parameters are JSON numbers", z3.And(*[z3.Implies(z3.Select(st.dict_dom(s), z3.StringVal(k)), z3.Or(dyn_is_int(z3.Select(st.dict_val(s), z3.StringVal(k))), dyn_is_real(z3.Select(st.dict_val(s), z3.StringVal(k)))))
                                                                   for k in ("tickSize", "marketPrice", "fundamentalPrice", "fundamentalDrift", "fundamentalVolatility", "outstandingShares", "tradeVolume")])),
            ("`markets` is a list of names of registered markets",
             z3.Implies(z3.Select(st.dict_dom(s), z3.StringVal("markets")),
                        z3.And(dyn_is_list(v), st.length(lst, ("dyn",)) >= 0,
                               z3.ForAll([i], z3.Implies(z3.And(0 <= i, i < st.length(lst, ("dyn",))), z3.And(dyn_is_str(el(i)), z3.Select(st.dict_dom(n2m), dyn_str(el(i)))))))))]


# rejected configurations (missing keys, unknown names, duplicate or share-less components) end in an exception; which one is not part of C17
IDX_SETUP.may_raise = {e: (lambda st, a: z3.BoolVal(True)) for e in ("ValueError", "AssertionError", "KeyError", "TypeError")}


@task("IndexMarket.setup", props=["C17"], functions=["IndexMarket.setup", "Market.setup"], replay="index")
def t_idx_setup():
    """IndexMarket.setup (Market.setup inlined): every configured component passes through _add_market's check, so the component invariant holds afterwards"""
    import ast
    has_loop = any(isinstance(n, (ast.For, ast.While)) for n in ast.walk(IDX_SETUP.fn))       # a setup that delegates the whole batch to _add_markets has no loop of its own
    obl, info = IDX_SETUP.verify(specs={("m", "IndexMarket", "_add_market"): ADD_COMPONENT.handler(), ("m", "IndexMarket", "_add_markets"): ADD_COMPONENTS.handler()},
                                 loops=idx_setup_loops() if has_loop else {})
    return {"obligations": obl, "info": [info]}


# IndexMarket.__init__: an index market is a market -- id, name, generator, simulator AND logger are the ones handed in (C10: its records reach the logger)
@task("IndexMarket.__init__", props=["C10", "C17"], functions=["IndexMarket.__init__", "Market.__init__"], replay="whole_run")
def t_index_init():
    from pyvc.spec import Executor
    from . import book as B
    ex = Executor(current="IndexMarket.__init__"); B.setup_book(ex, None, None)
    st = State(); st.labels = ["IndexMarket.__init__"]
    sim = sym_obj("Simulator", "sim"); st.assume_alloc(sim)
    prng = sym_obj("Random", "prng")
    lg = V(("opt", ("ref", "Logger")), z3.Const("logger_arg", REF), none=z3.Bool("logger_arg?")); st.assume_alloc(lg)
    nm = V(("str",), z3.Const("name_arg", z3.StringSort())); mid = V(("int",), z3.Int("id_arg"))
    outs = ex.construct(V(("class",), None, py="IndexMarket"), [], {"market_id": mid, "prng": prng, "simulator": sim, "name": nm, "logger": lg}, st, 0, None)
    n = 0
    for s1, m in outs:
        n += 1
        l1 = s1.read(m, "logger")
        s1.oblige("post:C10 the index market keeps the logger it is given (None stays None)", z3.And(l1.none == lg.none, z3.Implies(z3.Not(lg.none), l1.term == lg.term)), "post")
        s1.oblige("post:id, name, generator and simulator are the given ones",
                  z3.And(s1.read(m, "market_id").term == mid.term, s1.read(m, "name").term == nm.term, s1.read(m, "_prng").term == prng.term, s1.read(m, "simulator").term == sim.term), "post")
        s1.oblige("post:C17 a new index market has no components", s1.length(s1.read(m, "_components").term) == 0, "post")
    for s_, k_, v_ in ex.escaped:
        s_.oblige(f"no-raise:{v_[0]}@{v_[1]}", z3.BoolVal(False), "no-raise")
    st.obl.append({"name": "IndexMarket.__init__/cover:paths", "pc": [], "goal": z3.BoolVal(n >= 1), "kind": "cover"})
    from pyvc.src import get_src
    src = get_src()
    return {"obligations": st.obl, "info": [{"function": "IndexMarket.__init__", "source_sha": src.source_hash("IndexMarket.__init__"), "where": src.where("IndexMarket.__init__"), "paths": n, "assumptions": sorted(ex.used_assumptions)}]}


# ----------------------------------------------------------------------------- get_fundamental_index: the index market's own recorded fundamental value, for the caller's time (C17, C06)
@task("IndexMarket.get_fundamental_index", props=["C17", "C06"], functions=["IndexMarket.get_fundamental_index"], replay="index")
def t_get_fundamental_index():
    """delegates to this market's own get_fundamental_price with the caller's time argument (the recorded value, which `Simulator._update_time_on_market` computes from the components)"""
    from pyvc.spec import Executor
    ex = Executor(current="IndexMarket.get_fundamental_index")

    def h(ex_, st, recv, pos, kw, node):
        st = st.copy()
        a = dict(zip(("time",), pos)); a.update(kw)
        st.ghost["calls"] = st.ghost.get("calls", ()) + ((recv, a),)
        return [(st, fresh(("real",), "recorded"))]
    ex.specs[("m", "Market", "get_fundamental_price")] = h
    ex.specs[("m", "IndexMarket", "get_fundamental_price")] = h
    st = State(); st.labels = ["IndexMarket.get_fundamental_index"]
    m = sym_obj("IndexMarket", "the_index"); st.assume_alloc(m)
    targ = V(("opt", ("int",)), z3.Int("time_arg"), none=z3.Bool("time_arg?"))
    outs = ex.call_method(m, "get_fundamental_index", [], {"time": targ}, st, 0, None)
    n = 0
    for s1, res in outs:
        n += 1
        cs = s1.ghost.get("calls", ())
        if len(cs) != 1:
            s1.oblige(f"trace:exactly one query of the recorded series (got {len(cs)})", z3.BoolVal(False), "trace"); continue
        recv, a = cs[0]
        t = a.get("time")
        s1.oblige("post:C17 the fundamental index is this market's own recorded fundamental value at the requested time",
                  z3.And(recv.term == m.term, z3.BoolVal(t is not None) if t is None else z3.And(t.none == targ.none, z3.Implies(z3.Not(targ.none), t.term == targ.term))), "post")
    for s_, k_, v_ in ex.escaped:
        s_.oblige(f"no-raise:{v_[0]}@{v_[1]}", z3.BoolVal(False), "no-raise")
    obl = st.obl
    obl.append({"name": "IndexMarket.get_fundamental_index/cover:paths", "pc": [], "goal": z3.BoolVal(n >= 1), "kind": "cover"})
    src = get_src()
    info = {"function": "IndexMarket.get_fundamental_index", "source_sha": src.source_hash("IndexMarket.get_fundamental_index"), "where": src.where("IndexMarket.get_fundamental_index"), "paths": n,
            "assumptions": sorted(ex.used_assumptions)}
    return {"obligations": obl, "info": [info]}
