"""witness search for the built-in agents (C20): random market states and admissible parameters on the REAL agent classes; orders compared with the documented strategy"""
import math
import random

from pams.agents import ArbitrageAgent, FCNAgent, MarketMakerAgent
from pams.index_market import IndexMarket
from pams.market import Market
from pams.order import LIMIT_ORDER, Order

from . import drivers


class Sim:
    pass


def mk(mid, price, tick=0.01, cls=Market, shares=1000, steps=6, rng=None, sim=None):
    m = cls(market_id=mid, prng=random.Random(0), simulator=sim or Sim(), name=f"m{mid}")
    m.setup({"tickSize": tick, "marketPrice": price, "outstandingShares": shares} if cls is Market else {"tickSize": tick, "marketPrice": price, "markets": []})
    m._update_time(next_fundamental_price=price)
    for _ in range(steps):
        m._update_time(next_fundamental_price=price * (1 + (rng.random() - 0.5) * 0.05 if rng else 1))
        if rng:
            m._market_prices[m.time] = price * (1 + (rng.random() - 0.5) * 0.1)
    m._is_running = True
    return m


def wf(o, agent, accessible):
    return isinstance(o, Order) and o.agent_id == agent.agent_id and o.market_id in accessible and o.volume >= 1 and o.kind == LIMIT_ORDER and o.price is not None \
        and o.placed_at is None and o.order_id is None and (o.ttl is None or o.ttl >= 1)


class RecPrng(random.Random):
    def gauss(self, mu=0.0, sigma=1.0):
        self.last_gauss = super().gauss(mu, sigma)
        return self.last_gauss


def check_fcn(seed):
    rng = random.Random(seed)
    m = mk(0, 300.0, rng=rng, steps=rng.randint(0, 12)); other = mk(1, 100.0, rng=rng)
    a = FCNAgent(agent_id=7, prng=RecPrng(seed), simulator=Sim(), name="f")
    a.asset_volumes = {0: 10}; a.cash_amount = 1000
    a.fundamental_weight, a.chart_weight, a.noise_weight = rng.choice([0.0, 1.0, 2.5]), rng.choice([0.0, 0.5]), rng.choice([0.0, 1.0])
    if a.fundamental_weight + a.chart_weight + a.noise_weight == 0:
        a.fundamental_weight = 1.0
    a.noise_scale = 0.001; a.time_window_size = rng.randint(1, 8); a.mean_reversion_time = rng.randint(1, 8); a.order_margin = rng.choice([0.0, 0.05, 1.0]); a.margin_type = 0
    a.is_chart_following = rng.random() < 0.7
    if a.submit_orders_by_market(other):
        return "order for a market the agent cannot access"
    orders = a.submit_orders_by_market(m)
    t = m.get_time(); tw = min(t, a.time_window_size); mp = m.get_market_price()
    F = (1.0 / max(a.mean_reversion_time, 1)) * math.log(m.get_fundamental_price() / mp)
    C = (1.0 / max(tw, 1)) * math.log(mp / m.get_market_price(t - tw))
    N = a.noise_scale * a.prng.last_gauss
    ret = 1.0 / (a.fundamental_weight + a.chart_weight + a.noise_weight) * (a.fundamental_weight * F + a.chart_weight * C * (1 if a.is_chart_following else -1) + a.noise_weight * N)
    E = mp * math.exp(ret * a.time_window_size)
    exp = [] if E == mp else [(E > mp, E * (1 - a.order_margin) if E > mp else E * (1 + a.order_margin))]
    got = [(o.is_buy, o.price) for o in orders]
    if len(got) != len(exp) or any(g[0] != e[0] or abs(g[1] - e[1]) > 1e-9 * max(1, abs(e[1])) for g, e in zip(got, exp)):
        return f"FCN orders {got}, documented strategy gives {exp}"
    if any(not wf(o, a, {0}) or o.volume != 1 or o.ttl != a.time_window_size for o in orders):
        return "FCN order not well-formed"
    return None


def put(m, is_buy, price, vol=1):
    m._add_order(Order(agent_id=99, market_id=m.market_id, is_buy=is_buy, kind=LIMIT_ORDER, volume=vol, price=price))


def check_mm(seed):
    rng = random.Random(seed)
    ms = [mk(i, 300.0 + 5 * i, tick=1.0) for i in range(rng.randint(1, 3))]
    for m in ms:
        m._is_running = False
        for _ in range(rng.randint(0, 2)):
            put(m, True, float(rng.randint(280, 299)))
        for _ in range(rng.randint(0, 2)):
            put(m, False, float(rng.randint(301, 320)))
    a = MarketMakerAgent(agent_id=3, prng=random.Random(1), simulator=Sim(), name="mm")
    acc = [m for m in ms if rng.random() < 0.8] or [ms[0]]
    a.asset_volumes = {m.market_id: 0 for m in acc}
    a.target_market = acc[0]; a.net_interest_spread = rng.choice([0.01, 0.05, 0.05, 2.0]); a.order_time_length = rng.randint(1, 3)      # 2.0: a very wide spread, the buy quote comes out near zero
    orders = a.submit_orders(ms)
    bids = [m.get_best_buy_price() for m in acc if m.get_best_buy_price() is not None]; asks = [m.get_best_sell_price() for m in acc if m.get_best_sell_price() is not None]
    base = (max(bids) + min(asks)) / 2.0 if bids and asks else a.target_market.get_market_price()
    if len(orders) != 2 or not orders[0].is_buy or orders[1].is_buy or any(not wf(o, a, {a.target_market.market_id}) or o.volume != 1 for o in orders):
        return "market maker: not exactly one well-formed buy and one sell on the target market"
    if abs(orders[0].price + orders[1].price - 2 * base) > 1e-9 or abs(orders[1].price - orders[0].price - a.target_market.get_fundamental_price() * a.net_interest_spread) > 1e-9:
        return f"market maker quotes {orders[0].price}/{orders[1].price} not symmetric around base {base} with the documented separation"
    return None


def check_arb(seed):
    rng = random.Random(seed)
    n = rng.randint(1, 3)
    comps = [mk(i, 100.0 + rng.randint(-5, 5), tick=1.0) for i in range(n)]
    idx = mk(10, 100.0, tick=1.0, cls=IndexMarket)
    idx._add_markets(comps)
    idx._market_prices[idx.time] = 100.0 + rng.choice([-8, -1, 0, 1, 8])
    idx._is_running = rng.random() < 0.85
    if rng.random() < 0.15:
        comps[0]._is_running = False
    a = ArbitrageAgent(agent_id=5, prng=random.Random(1), simulator=Sim(), name="arb")
    a.asset_volumes = {m.market_id: 0 for m in comps}
    if rng.random() < 0.9:
        a.asset_volumes[10] = 0
    a.order_volume = rng.randint(1, 3); a.order_threshold_price = rng.choice([0.5, 2.0, 20.0]); a.order_time_length = 2
    orders = a._submit_orders(idx) + a._submit_orders(comps[0])
    mp, ind = idx.get_market_price(), idx.get_index()
    active = 10 in a.asset_volumes and idx.is_running and all(c.is_running for c in comps) and abs(mp - ind) > a.order_threshold_price
    if not active:
        return None if not orders else f"arbitrage orders although inactive (gap {mp - ind}, threshold {a.order_threshold_price})"
    buy_index = mp < ind
    exp = [(10, buy_index, n * a.order_volume)] + [(c.market_id, not buy_index, a.order_volume) for c in comps]
    got = [(o.market_id, o.is_buy, o.volume) for o in orders]
    if got != exp:
        return f"arbitrage basket {got}, documented {exp}"
    return None


def _sig(orders):
    return [(type(o).__name__, o.agent_id, o.market_id, o.is_buy, o.kind, o.volume, o.price, o.ttl) for o in orders]


def check_arb_wrapper(seed):
    """ArbitrageAgent.submit_orders(markets) == concatenation, in list order, of the per-market baskets"""
    rng = random.Random(seed)
    markets = []; acc = {}
    mid = 0
    for g in range(rng.randint(1, 3)):
        n = rng.randint(1, 3)
        comps = [mk(mid + i, 100.0 + rng.randint(-5, 5), tick=1.0) for i in range(n)]
        if g > 0 and rng.random() < 0.5:
            comps[0] = rng.choice([m for m in markets if not isinstance(m, IndexMarket)])      # two indexes may share a component: its order belongs to both baskets
        idx = mk(mid + n, 100.0, tick=1.0, cls=IndexMarket)
        idx._add_markets(comps)
        idx._market_prices[idx.time] = 100.0 + rng.choice([-8, -1, 0, 1, 8])
        idx._is_running = rng.random() < 0.9
        mid += n + 1
        markets += [c for c in comps if c not in markets] + [idx]
    rng.shuffle(markets)
    a = ArbitrageAgent(agent_id=5, prng=random.Random(1), simulator=Sim(), name="arb")
    a.asset_volumes = {m.market_id: 0 for m in markets if rng.random() < 0.9}
    a.order_volume = rng.randint(1, 3); a.order_threshold_price = rng.choice([0.5, 2.0]); a.order_time_length = 2
    exp = []
    for m in markets:
        exp += a._submit_orders(m)
    got = a.submit_orders(markets)
    if _sig(got) != _sig(exp):
        return f"ArbitrageAgent.submit_orders gives {_sig(got)}, the baskets of the listed markets in order are {_sig(exp)}"
    return None


def check_fcn_wrapper(seed):
    """FCNAgent.submit_orders(markets) == concatenation, in list order, of submit_orders_by_market over the list (same generator state)"""
    rng = random.Random(seed)
    ms = [mk(i, 300.0 + 10 * i, rng=rng, steps=rng.randint(1, 8)) for i in range(rng.randint(1, 4))]
    def agent():
        a = FCNAgent(agent_id=7, prng=RecPrng(seed), simulator=Sim(), name="f")
        a.asset_volumes = {m.market_id: 0 for m in ms if m.market_id % 3 != 2}; a.cash_amount = 1000
        a.fundamental_weight, a.chart_weight, a.noise_weight = 1.0, 0.5, 1.0
        a.noise_scale = 0.01; a.time_window_size = 3; a.mean_reversion_time = 2; a.order_margin = 0.01; a.margin_type = 0; a.is_chart_following = True
        return a
    a, b = agent(), agent()
    exp = []
    for m in ms:
        exp += b.submit_orders_by_market(m)
    got = a.submit_orders(ms)
    if _sig(got) != _sig(exp):
        return f"FCNAgent.submit_orders gives {_sig(got)}, the per-market orders in list order are {_sig(exp)}"
    if any(not wf(o, a, set(a.asset_volumes)) for o in got):
        return "FCN order not well-formed / for a market the agent cannot access"
    return None


def check_market_share(seed):
    """MarketShareFCNAgent: the venue is drawn among the ACCESSIBLE markets, so an agent whose expected price differs from the market price always places its one order"""
    from pams.agents import MarketShareFCNAgent
    rng = random.Random(seed)
    ms = [mk(i, 300.0 + 10 * i, rng=rng, steps=rng.randint(2, 6)) for i in range(3)]
    for m in ms:
        m._executed_volumes[m.time] = rng.randint(0, 50)
    ms[2]._executed_volumes[ms[2].time] = 100000          # a busy market the agent cannot access
    a = MarketShareFCNAgent(agent_id=7, prng=RecPrng(seed), simulator=Sim(), name="s")
    a.asset_volumes = {0: 10, 1: 10}; a.cash_amount = 1000
    a.fundamental_weight, a.chart_weight, a.noise_weight = 1.0, 0.5, 1.0
    a.noise_scale = 0.01; a.time_window_size = 3; a.mean_reversion_time = 2; a.order_margin = 0.01; a.margin_type = 0; a.is_chart_following = True
    got = a.submit_orders(ms)
    if len(got) != 1 or not wf(got[0], a, {0, 1}):
        return f"MarketShareFCNAgent.submit_orders returned {_sig(got)}: expected exactly one well-formed order on an accessible market (markets 0 and 1; market 2 is not accessible)"
    return None


def check_setups(seed):
    """set-up from a configuration with constant parameters: every strategy parameter of the three agents equals the value configured under ITS OWN key"""
    from pams.simulator import Simulator
    rng = random.Random(seed)
    sim = Simulator(prng=random.Random(1))
    ms = [mk(i, 100.0 + i, sim=sim) for i in range(2)]
    idx = mk(2, 100.0, cls=IndexMarket, sim=sim)
    for m in ms + [idx]:
        sim._add_market(m)
    vals = {k: rng.choice([0.5, 1.5, 2.0, 3.25, 7.0]) for k in ("fundamentalWeight", "chartWeight", "noiseWeight", "noiseScale", "orderMargin", "netInterestSpread")}
    ints = {k: rng.choice([2, 3, 5, 8, 13]) for k in ("timeWindowSize", "meanReversionTime", "orderTimeLength", "orderVolume")}
    base = {"cashAmount": 1000, "assetVolume": 10}
    f = FCNAgent(agent_id=0, prng=random.Random(seed), simulator=sim, name="f")
    with_mr = rng.random() < 0.5; mt = rng.choice([None, "fixed", "normal"])
    cfg = dict(base, fundamentalWeight=vals["fundamentalWeight"], chartWeight=vals["chartWeight"], noiseWeight=vals["noiseWeight"], noiseScale=vals["noiseScale"], timeWindowSize=ints["timeWindowSize"], orderMargin=vals["orderMargin"])
    if with_mr:
        cfg["meanReversionTime"] = ints["meanReversionTime"]
    if mt:
        cfg["marginType"] = mt
    f.setup(cfg, [0])
    want = dict(fundamental_weight=vals["fundamentalWeight"], chart_weight=vals["chartWeight"], noise_weight=vals["noiseWeight"], noise_scale=vals["noiseScale"], time_window_size=ints["timeWindowSize"],
                order_margin=vals["orderMargin"], mean_reversion_time=ints["meanReversionTime"] if with_mr else ints["timeWindowSize"], margin_type=1 if mt == "normal" else 0)
    for k, v in want.items():
        if getattr(f, k) != v:
            return f"FCNAgent.setup: {k} = {getattr(f, k)}, configured {v} (configuration {cfg})"
    # a randomised time window without meanReversionTime: the mean reversion time defaults to the window THIS agent drew (one draw, not a second one)
    f2 = FCNAgent(agent_id=3, prng=random.Random(seed + 17), simulator=sim, name="f2")
    cfg2 = dict(cfg); cfg2.pop("meanReversionTime", None); cfg2["timeWindowSize"] = [100, 200]
    f2.setup(cfg2, [0])
    if not (100 <= f2.time_window_size <= 200) or f2.mean_reversion_time != f2.time_window_size:
        return f"FCNAgent.setup: timeWindowSize [100, 200] without meanReversionTime gave time_window_size {f2.time_window_size}, mean_reversion_time {f2.mean_reversion_time} (default: the agent's own window)"
    mm = MarketMakerAgent(agent_id=1, prng=random.Random(seed), simulator=sim, name="mm")
    with_len = rng.random() < 0.5
    cfg = dict(base, targetMarket="m1", netInterestSpread=vals["netInterestSpread"])
    if with_len:
        cfg["orderTimeLength"] = ints["orderTimeLength"]
    mm.setup(cfg, [0, 1])
    if mm.target_market is not ms[1] or mm.net_interest_spread != vals["netInterestSpread"] or mm.order_time_length != (ints["orderTimeLength"] if with_len else 2):
        return f"MarketMakerAgent.setup: target {mm.target_market.name}, spread {mm.net_interest_spread}, order time length {mm.order_time_length}; configuration {cfg} (default length 2)"
    ar = ArbitrageAgent(agent_id=2, prng=random.Random(seed), simulator=sim, name="ar")
    cfg = dict(base, orderVolume=ints["orderVolume"], orderThresholdPrice=vals["orderMargin"])
    if with_len:
        cfg["orderTimeLength"] = ints["orderTimeLength"]
    before = ar.order_time_length
    ar.setup(cfg, [0, 1, 2])
    if ar.order_volume != ints["orderVolume"] or ar.order_threshold_price != vals["orderMargin"] or ar.order_time_length != (ints["orderTimeLength"] if with_len else before):
        return f"ArbitrageAgent.setup: volume {ar.order_volume}, threshold {ar.order_threshold_price}, order time length {ar.order_time_length}; configuration {cfg}"
    return None


CHECKS = [("FCNAgent.setup", check_setups), ("MarketMakerAgent.setup", check_setups), ("ArbitrageAgent.setup", check_setups), ("FCNAgent.submit_orders_by_market", check_fcn), ("MarketMakerAgent.submit_orders", check_mm), ("MarketMakerAgent.get_base_price", check_mm), ("ArbitrageAgent._submit_orders", check_arb),
          ("ArbitrageAgent.submit_orders", check_arb_wrapper), ("FCNAgent.submit_orders", check_fcn_wrapper), ("MarketShareFCNAgent.submit_orders", check_market_share)]


def search(seed, tier, obligation, hints):
    n = 400 if tier == "quick" else 6000
    fn = obligation.split("/")[0]
    cases = 0
    for name, chk in CHECKS:
        if any(fn == c[0] for c in CHECKS) and name != fn:
            continue
        for sd in range(seed * 100000, seed * 100000 + n):
            cases += 1
            why = chk(sd)
            if why:
                return {"found": True, "input": {"check": name, "seed": sd}, "observed": {"function": name, "clause": why}, "witness_key": f"{name}|{why[:40]}", "cases": cases}
    return {"found": False, "cases": cases}


def replay(inp):
    why = dict(CHECKS)[inp["check"]](inp["seed"])
    return {"violated": bool(why), "clause": why}
