"""witness search for configuration handling (C18, C09 parsing): Session.setup, count/range expansion, json_extends, JsonRandom -- exhaustive small scopes on the real code"""
import itertools
import random

from pams.session import Session


def check_session_setup(cfg):
    s = Session(session_id=0, prng=random.Random(0), session_start_time=7, simulator=None, name="s")
    before = dict(cap=s.max_high_frequency_orders, rate=s.high_frequency_submission_rate, normal=s.max_normal_orders)
    both = ("maxHighFrequencyOrders" in cfg and "maxHifreqOrders" in cfg) or ("highFrequencySubmitRate" in cfg and "hifreqSubmitRate" in cfg)
    try:
        s.setup(cfg)
    except ValueError:
        return None if both else "ValueError on a valid session configuration"
    if both:
        return "both spellings of a key accepted"
    exp_cap = cfg.get("maxHighFrequencyOrders", cfg.get("maxHifreqOrders", before["cap"]))
    exp_rate = cfg.get("highFrequencySubmitRate", cfg.get("hifreqSubmitRate", before["rate"]))
    if s.max_high_frequency_orders != exp_cap:
        return f"max_high_frequency_orders = {s.max_high_frequency_orders}, expected {exp_cap}"
    if s.high_frequency_submission_rate != exp_rate:
        return f"high_frequency_submission_rate = {s.high_frequency_submission_rate}, expected {exp_rate}"
    if s.max_normal_orders != cfg.get("maxNormalOrders", before["normal"]):
        return "max_normal_orders"
    if (s.iteration_steps, s.with_order_placement, s.with_order_execution, s.with_print) != (cfg["iterationSteps"], cfg["withOrderPlacement"], cfg["withOrderExecution"], cfg["withPrint"]):
        return "required keys"
    if s.session_start_time != 7:
        return "session_start_time changed"
    return None


def session_cases():
    opt = {"maxNormalOrders": [0, 3], "maxHighFrequencyOrders": [0, 2], "maxHifreqOrders": [4, 0], "highFrequencySubmitRate": [0.0, 0.5], "hifreqSubmitRate": [0.25, 0.0, 0]}
    keys = list(opt)
    for r in range(len(keys) + 1):
        for sub in itertools.combinations(keys, r):
            for vals in itertools.product(*[opt[k] for k in sub]):
                for ex, pl in ((True, True), (False, True), (False, False)):
                    cfg = {"sessionName": 0, "iterationSteps": 3, "withOrderPlacement": pl, "withOrderExecution": ex, "withPrint": False}
                    cfg.update(dict(zip(sub, vals)))
                    yield cfg


CHECKS = {"Session.setup": (session_cases, check_session_setup)}


def _known_witness_keys():
    """witnesses recorded as known findings (committed file, read only): a general sweep steps over exactly these inputs;
    the task that owns the finding still replays and reports it (KNOWN-FINDING line)"""
    import json, os
    try:
        d = json.load(open(os.path.join(os.path.dirname(os.path.dirname(os.path.abspath(__file__))), "known_findings.json")))
        return {f.get("witness_key") for f in d.get("findings", []) if f.get("status") == "known" and f.get("witness_key")}
    except Exception:      # noqa
        return set()


def search(seed, tier, obligation, hints):
    fn = obligation.split("/")[0]
    cases = 0
    sweep = fn not in CHECKS
    known = _known_witness_keys() if sweep else set()
    for name, (gen, chk) in CHECKS.items():
        if fn in CHECKS and name != fn:
            continue
        for cfg in gen():
            cases += 1
            why = chk(cfg)
            if why:
                key = f"{name}|expon draw 0.0" if (name == "JsonRandom.random" and "expon" in str(cfg.get("spec")) and cfg.get("u") == 0.0) else f"{name}|{why.split('=')[0].strip()}"
                if key in known:
                    continue
                return {"found": True, "input": {"function": name, "cfg": cfg}, "observed": {"function": name, "clause": why}, "witness_key": key, "cases": cases}
    return {"found": False, "cases": cases}


def replay(inp):
    why = CHECKS[inp["function"]][1](inp["cfg"])
    return {"violated": bool(why), "clause": why}


# ----------------------------------------------------------------------------- count / inclusive range expansion (C18) on the real runner
def expansion_cfg(kind, specs):
    """one group per spec, listed in order (groups G0, G1, ...): counts and ranges are per group"""
    m = {"class": "Market", "tickSize": 1.0, "marketPrice": 100.0}
    a = {"class": "FCNAgent", "markets": ["M"], "assetVolume": 10, "cashAmount": 1000, "fundamentalWeight": {"expon": [1.0]}, "chartWeight": {"expon": [0.0]},
         "noiseWeight": {"expon": [1.0]}, "meanReversionTime": {"uniform": [50, 100]}, "noiseScale": 0.001, "timeWindowSize": [10, 20], "orderMargin": [0.0, 0.1]}
    cfg = {"simulation": {"markets": ["M"], "agents": ["A"], "sessions": [{"sessionName": 0, "iterationSteps": 1, "withOrderPlacement": False, "withOrderExecution": False, "withPrint": False}]},
           "M": m, "A": a}
    base = m if kind == "markets" else a
    names = []
    for i, spec in enumerate(specs):
        g = dict(base); g.update(spec)
        if kind == "agents":
            g["markets"] = ["M"]
        cfg[f"G{i}"] = g; names.append(f"G{i}")
    if kind == "markets":
        cfg["simulation"]["markets"] = names
        cfg["simulation"]["agents"] = []
        del cfg["M"], cfg["A"]
    else:
        cfg["simulation"]["agents"] = names
        del cfg["A"]
    return cfg


def _group_size(kind, spec):
    if "from" in spec:
        return spec["to"] - spec["from"] + 1
    return spec.get("numMarkets" if kind == "markets" else "numAgents", 1)


def check_expansion(case):
    import contextlib, io, random as _r
    from pams.runners import SequentialRunner
    kind = case["kind"]
    specs = case.get("specs") or [case["spec"]]
    cfg = expansion_cfg(kind, specs)
    sizes = [_group_size(kind, sp) for sp in specs]
    r = SequentialRunner(settings=cfg, prng=_r.Random(1))
    try:
        with contextlib.redirect_stdout(io.StringIO()):
            r._setup()
    except Exception as e:      # noqa
        return f"{kind} {specs}: setup failed with {type(e).__name__}: {e} (expected {sum(sizes)} entities)"
    ents = r.simulator.markets if kind == "markets" else r.simulator.agents
    if len(ents) != sum(sizes):
        return f"{kind} {specs}: {len(ents)} entities created, expected {sum(sizes)}"
    ids = [(e.market_id if kind == "markets" else e.agent_id) for e in ents]
    if ids != list(range(sum(sizes))):
        return f"{kind} {specs}: ids {ids} are not unique consecutive"
    names = [e.name for e in ents]
    if len(set(names)) != len(names):
        return f"{kind} {specs}: names {names} are not unique"
    per = [sum(1 for nme in names if nme == f"G{i}" or nme.startswith(f"G{i}-")) for i in range(len(specs))]
    if per != sizes:
        return f"{kind} {specs}: entities per group {per}, configured {sizes} (names {names})"
    return None


def expansion_cases():
    for kind, ck in (("markets", "numMarkets"), ("agents", "numAgents")):
        singles = [{}] + [{ck: n} for n in (1, 2, 3)] + [{"from": lo, "to": lo + ln - 1} for lo in (0, 3) for ln in (1, 2, 3, 4)]
        for sp in singles:
            yield {"kind": kind, "specs": [sp]}
        # several groups: the count / range of one group must not leak into the next
        for first in ({ck: 3}, {"from": 2, "to": 4}, {}):
            for second in ({}, {ck: 2}, {"from": 1, "to": 2}):
                yield {"kind": kind, "specs": [first, second]}


CHECKS["SequentialRunner._generate_markets[count-range-names]"] = (lambda: (c for c in expansion_cases() if c["kind"] == "markets"), check_expansion)
CHECKS["SequentialRunner._generate_agents[count-range-names]"] = (lambda: (c for c in expansion_cases() if c["kind"] == "agents"), check_expansion)


# ----------------------------------------------------------------------------- JsonRandom supports (C18); the generator is a stub that replays chosen draws
class StubPrng:
    def __init__(self, draws):
        self.draws = list(draws); self.i = 0

    def random(self):
        v = self.draws[self.i % len(self.draws)]; self.i += 1
        return v

    def gauss(self, mu, sigma):
        return mu + sigma * (self.random() - 0.5)


def check_json_random(case):
    from pams.utils.json_random import JsonRandom
    spec, u = case["spec"], case["u"]
    jr = JsonRandom(prng=StubPrng([u]))
    try:
        r = jr.random(json_value=spec)
    except ValueError as e:
        if case["valid"]:
            return f"JsonRandom.random({spec}) with draw u={u} raised ValueError({e})"
        return None
    if not case["valid"]:
        return f"malformed specification {spec} accepted"
    kind = case["kind"]
    if kind == "uniform":
        lo, hi = case["args"]
        if not ((lo <= r < hi) if lo < hi else (r == lo if lo == hi else hi < r <= lo)):
            return f"uniform {spec}: {r} outside [{lo}, {hi})"
    if kind == "const" and r != case["args"][0]:
        return f"const {spec}: {r}"
    if kind == "expon" and case["args"][0] >= 0 and not r >= 0:
        return f"expon {spec}: {r} < 0"
    if kind == "plain" and r != float(spec):
        return f"plain {spec}: {r}"
    return None


def json_random_cases():
    for u in (0.5, 0.999999, 1e-12, 0.0):
        for lo, hi in ((1.0, 3.0), (2.0, 2.0), (-1, 1)):
            yield {"spec": [lo, hi], "u": u, "valid": True, "kind": "uniform", "args": [lo, hi]}
            yield {"spec": {"uniform": [lo, hi]}, "u": u, "valid": True, "kind": "uniform", "args": [lo, hi]}
        yield {"spec": {"const": [4.5]}, "u": u, "valid": True, "kind": "const", "args": [4.5]}
        yield {"spec": {"normal": [1.0, 2.0]}, "u": u, "valid": True, "kind": "normal", "args": [1.0, 2.0]}
        for lam in (0.0, 2.0):
            yield {"spec": {"expon": [lam]}, "u": u, "valid": True, "kind": "expon", "args": [lam]}
        yield {"spec": 7, "u": u, "valid": True, "kind": "plain", "args": []}
    for bad in ([1.0], [1, 2, 3], {"const": 1.0}, {"uniform": [1.0]}, {"normal": [1.0]}, {"expon": [1, 2]}, {"gamma": [1]}, {"const": [1], "expon": [1]}, {}):
        yield {"spec": bad, "u": 0.5, "valid": False, "kind": "bad", "args": []}


def _jr_check(case):
    why = check_json_random(case)
    return why


CHECKS["JsonRandom.random"] = (json_random_cases, _jr_check)


# ----------------------------------------------------------------------------- registries (C18): every sequence of registrations over a small universe
def registry_cases():
    ids = [0, 1]; names = ["a", "b"]; groups = [None, "g"]
    ents = [(i, n, g) for i in ids for n in names for g in groups]
    for kind in ("market", "agent", "session"):
        for r in (1, 2, 3):
            for seq in itertools.product(range(len(ents)), repeat=r):
                if r == 3 and seq[0] > seq[1]:
                    continue
                yield {"kind": kind, "seq": [list(ents[j]) for j in seq], "same_object": [j for j in range(r) if seq.index(seq[j]) != j and ents[seq[j]][2] is None]}


def check_registry(case):
    from pams.agents import Agent, HighFrequencyAgent
    from pams.logs import Logger
    from pams.market import Market
    from pams.simulator import Simulator
    sim = Simulator(prng=random.Random(0))
    kind = case["kind"]; made = []; ok_ids = set(); ok_names = set(); objs = []

    class A(Agent):
        def submit_orders(self, markets):
            return []

    class H1(HighFrequencyAgent):
        def submit_orders(self, markets):
            return []

    class H2(H1):
        pass

    for pos, (i, n, g) in enumerate(case["seq"]):
        if pos in case["same_object"]:
            x = made[[tuple(e) for e in case["seq"]].index((i, n, g))]
        elif kind == "market":
            x = Market(market_id=i, prng=random.Random(1), simulator=sim, name=n, logger=None)
        elif kind == "agent":
            # normal agent, direct subclass of HighFrequencyAgent, subclass of such a subclass: by position in the sequence
            x = (A, H1, H2)[(pos + i) % 3](agent_id=i, prng=random.Random(1), simulator=sim, name=n, logger=None)
        else:
            x = Session(session_id=i, prng=random.Random(1), session_start_time=0, simulator=sim, name=n, logger=None)
        made.append(x)
        dup = any(x is o for o in objs) or i in ok_ids or n in ok_names
        try:
            if kind == "market":
                sim._add_market(x, group_name=g)
            elif kind == "agent":
                sim._add_agent(x, group_name=g)
            else:
                sim._add_session(x)
            raised = False
        except ValueError:
            raised = True
        if dup != raised:
            return f"registration {pos} of {kind} (id {i}, name {n}): duplicate = {dup}, ValueError = {raised}"
        if not raised:
            objs.append(x); ok_ids.add(i); ok_names.add(n)
        lst, by_id, by_name, cnt = {"market": (sim.markets, sim.id2market, sim.name2market, sim.n_markets), "agent": (sim.agents, sim.id2agent, sim.name2agent, sim.n_agents),
                                    "session": (sim.sessions, sim.id2session, sim.name2session, sim.n_sessions)}[kind]
        if len(lst) != len(objs) or any(a is not b for a, b in zip(lst, objs)) or cnt != len(objs):
            return f"registry list of {kind}s is not the accepted registrations in order after registration {pos}"
        if kind == "agent":
            hf = [o for o in objs if isinstance(o, HighFrequencyAgent)]; nf = [o for o in objs if not isinstance(o, HighFrequencyAgent)]
            if len(sim.high_frequency_agents) != len(hf) or any(a is not b for a, b in zip(sim.high_frequency_agents, hf)) \
                    or len(sim.normal_frequency_agents) != len(nf) or any(a is not b for a, b in zip(sim.normal_frequency_agents, nf)):
                return (f"consultation pools after registration {pos}: high-frequency {[type(o).__name__ for o in sim.high_frequency_agents]}, normal "
                        f"{[type(o).__name__ for o in sim.normal_frequency_agents]}; registered {[type(o).__name__ for o in objs]} (H1, H2 are HighFrequencyAgents)")
        if set(by_id) != ok_ids or set(by_name) != ok_names or any(by_id[_id(o, kind)] is not o or by_name[o.name] is not o for o in objs):
            return f"id / name lookup of {kind}s disagrees with the registry list after registration {pos}"
    return None


def _id(o, kind):
    return getattr(o, kind + "_id")


for _f in ("Simulator._add_market", "Simulator._add_agent", "Simulator._add_session"):
    CHECKS[_f] = ((lambda k: (lambda: (c for c in registry_cases() if c["kind"] == k)))(_f.rsplit("_", 1)[1]), check_registry)


# ----------------------------------------------------------------------------- Agent.setup: accessible markets are exactly the listed ids (C18)
class _SetupAgent:
    pass


def check_agent_setup(case):
    from pams.agents import Agent
    from pams.simulator import Simulator

    class A(Agent):
        def submit_orders(self, markets):
            return []
    sim = Simulator(prng=random.Random(0))
    ag = A(agent_id=0, prng=random.Random(5), simulator=sim, name="a")
    pre = case.get("pre", [])
    for mid in pre:
        ag.set_market_accessible(mid); ag.set_asset_volume(mid, 7)
    ids = case["ids"]; vol = case["volume"]
    settings = {"cashAmount": case.get("cash", 1000)}
    if vol is not None:
        settings["assetVolume"] = vol
    bad = vol is None or len(set(ids)) != len(ids) or any(i in pre for i in ids)
    try:
        ag.setup(settings=settings, accessible_markets_ids=list(ids))
    except ValueError:
        return None if bad else f"ids {ids} (already accessible {pre}): a valid setup was rejected"
    if bad:
        return f"ids {ids} (already accessible {pre}), assetVolume {vol}: an invalid setup was accepted"
    for mid in range(-1, 6):
        if ag.is_market_accessible(mid) != (mid in ids or mid in pre):
            return f"ids {ids} (already accessible {pre}): is_market_accessible({mid}) = {ag.is_market_accessible(mid)}"
    if any(ag.get_asset_volume(m) != 7 for m in pre):
        return f"ids {ids}: the position of a market that was accessible before changed"
    if isinstance(vol, int) and any(ag.get_asset_volume(m) != vol for m in ids):
        return f"ids {ids}, assetVolume {vol}: positions {[ag.get_asset_volume(m) for m in ids]} are not the configured volume"
    if isinstance(vol, list) and any(not (min(vol) <= ag.get_asset_volume(m) <= max(vol)) for m in ids):
        return f"ids {ids}, assetVolume {vol}: a position lies outside the configured range"
    if ag.get_cash_amount() != case.get("cash", 1000):
        return "cash amount is not the configured one"
    return None


def agent_setup_cases():
    for r in (0, 1, 2, 3):
        for ids in itertools.product(range(4), repeat=r):
            for vol in (10, 0, [3, 9], None):
                for pre in ([], [1]):
                    yield {"ids": list(ids), "volume": vol, "pre": pre}


CHECKS["Agent.setup"] = (agent_setup_cases, check_agent_setup)
for _f in ("Agent.is_market_accessible", "Agent.set_market_accessible", "Agent.set_asset_volume"):
    CHECKS[_f] = (agent_setup_cases, check_agent_setup)


# ----------------------------------------------------------------------------- agents can access exactly the markets of the groups they list (C18), on the real runner
def check_access(case):
    import contextlib, io, random as _r
    from pams.runners import SequentialRunner
    groups = case["groups"]          # group name -> number of markets
    listed = case["listed"]
    cfg = {"simulation": {"markets": list(groups), "agents": ["A"], "sessions": [{"sessionName": 0, "iterationSteps": 1, "withOrderPlacement": False, "withOrderExecution": False, "withPrint": False}]},
           "A": {"class": "FCNAgent", "numAgents": 2, "markets": list(listed), "assetVolume": 10, "cashAmount": 1000, "fundamentalWeight": 1.0, "chartWeight": 0.0, "noiseWeight": 1.0,
                 "meanReversionTime": 50, "noiseScale": 0.001, "timeWindowSize": 10, "orderMargin": 0.0}}
    for g, n in groups.items():
        cfg[g] = {"class": "Market", "tickSize": 1.0, "marketPrice": 100.0}
        if n > 1:
            cfg[g]["numMarkets"] = n
    r = SequentialRunner(settings=cfg, prng=_r.Random(1))
    try:
        with contextlib.redirect_stdout(io.StringIO()):
            r._setup()
    except Exception as e:      # noqa
        dup = len(set(listed)) != len(listed)
        return None if dup else f"groups {groups}, agent lists {listed}: setup failed with {type(e).__name__}: {e}"
    if len(set(listed)) != len(listed):
        return f"groups {groups}, agent lists {listed}: a group listed twice was accepted"
    want = set()
    for g in listed:
        want |= {m.market_id for m in r.simulator.markets_group_name2market[g]}
    by_group = {g: [m.market_id for m in r.simulator.markets if m.name == g or m.name.startswith(g + "-")] for g in groups}
    want2 = set(i for g in listed for i in by_group[g])
    for ag in r.simulator.agents:
        got = {m.market_id for m in r.simulator.markets if ag.is_market_accessible(m.market_id)}
        if got != want or got != want2:
            return f"groups {groups}, agent lists {listed}: agent {ag.name} can access markets {sorted(got)}, the listed groups hold {sorted(want2)}"
    return None


def access_cases():
    names = ["X", "Y", "Z"]
    for sizes in itertools.product((1, 2, 3), repeat=3):
        groups = dict(zip(names, sizes))
        for r in (1, 2, 3):
            for listed in itertools.permutations(names, r):
                yield {"groups": groups, "listed": list(listed)}
    yield {"groups": {"X": 2, "Y": 1, "Z": 1}, "listed": ["X", "X"]}


CHECKS["SequentialRunner._generate_agents[accessible-markets]"] = (access_cases, check_access)


# ----------------------------------------------------------------------------- class names resolve to exactly one class, including user-registered ones (C18; bounded stand-in: import machinery is outside the verifier)
def check_find_class(case):
    from pams.utils.class_finder import find_class
    import pams, pams.agents, pams.events, pams.logs
    name, extra = case["name"], case["extra"]

    class UserAgent(pams.agents.Agent):
        def submit_orders(self, markets):
            return []

    class FCNAgent(pams.agents.Agent):        # a user class that shadows a built-in name
        def submit_orders(self, markets):
            return []
    UserAgentB = type("UserAgent", (pams.agents.Agent,), {"submit_orders": lambda self, markets: []})      # a second, distinct user class of the same name
    pool = {"none": None, "empty": [], "user": [UserAgent], "shadow": [FCNAgent], "both": [UserAgent, FCNAgent], "twice": [UserAgent, UserAgent], "homonyms": [UserAgent, UserAgentB]}[extra]
    if case.get("via") == "runner" and pool is not None:
        # the same pool built the way users build it: one Runner.class_register call per class; the lookup sees the runner's list
        from pams.runners import SequentialRunner
        r = SequentialRunner(settings={}, prng=random.Random(0))
        listed = list(pool)
        for c in listed:
            r.class_register(c)
        pool = r.registered_classes
    else:
        listed = list(pool or [])
    builtin = {}
    for mod in (pams, pams.agents, pams.events, pams.logs):
        if hasattr(mod, name):
            builtin[id(getattr(mod, name))] = getattr(mod, name)
    # candidates: the built-in classes of that name and the classes the USER listed / registered under that name (the same class object listed twice is one class:
    # the lookup may then report the repetition or resolve to that class - both keep "exactly one class")
    cands = list(builtin.values()) + [c for c in listed if c.__name__ == name]
    distinct = list({id(c): c for c in cands}.values())
    try:
        got = find_class(name=name, optional_class_list=pool)
    except AttributeError:
        return None if len(cands) != 1 else f"find_class({name!r}, {extra}): exactly one class has that name but the lookup failed"
    if len(distinct) != 1:
        return f"find_class({name!r}, {extra}{', registered through Runner.class_register' if case.get('via') else ''}): {len(distinct)} distinct classes have that name but {got} was returned"
    if got is not cands[0]:
        return f"find_class({name!r}, {extra}): returned {got}, the class of that name is {cands[0]}"
    return None


def find_class_cases():
    for name in ("FCNAgent", "Market", "IndexMarket", "MarketMakerAgent", "ArbitrageAgent", "PriceLimitRule", "TradingHaltRule", "FundamentalPriceShock", "OrderMistakeShock", "Logger", "MarketStepPrintLogger",
                 "UserAgent", "NoSuchClass", "HighFrequencyAgent", "MarketShareFCNAgent", "Order", "Session", "Simulator"):
        for extra in ("none", "empty", "user", "shadow", "both", "twice", "homonyms"):
            yield {"name": name, "extra": extra}
    for name in ("UserAgent", "FCNAgent", "NoSuchClass"):
        for extra in ("user", "shadow", "both", "twice", "homonyms"):
            yield {"name": name, "extra": extra, "via": "runner"}
    # every class the package exports under some name resolves (to itself) - however many of the searched namespaces export it
    import inspect
    import pams, pams.agents, pams.events, pams.logs
    seen = set()
    for mod in (pams, pams.agents, pams.events, pams.logs):
        for nme, obj in sorted(vars(mod).items()):
            if inspect.isclass(obj) and not nme.startswith("_") and getattr(obj, "__module__", "").startswith("pams") and obj.__name__ == nme and nme not in seen:
                seen.add(nme)
                yield {"name": nme, "extra": "none"}


CHECKS["find_class"] = (find_class_cases, check_find_class)


# ----------------------------------------------------------------------------- json_extends (C18 inheritance, C07 caller's settings untouched): every chain over a small universe
def check_json_extends(case):
    import copy
    from pams.utils.json_extends import json_extends
    case = copy.deepcopy(case)         # a body that writes into its arguments must not corrupt the recorded input or later cases
    whole, start, excl = case["whole"], case["start"], case["excludes"]
    target = whole[start]
    w0, t0 = copy.deepcopy(whole), copy.deepcopy(target)
    # oracle: own keys, then for each remaining key the value of the nearest ancestor defining it (non-inheritable keys skipped); errors for missing parents and cycles
    want = {k: v for k, v in target.items() if k != "extends"}
    seen = [start]; cur = target; err = None
    while "extends" in cur:
        p = cur["extends"]
        if p not in whole:
            err = "missing"; break
        if p in seen:
            err = "cycle"; break
        seen.append(p); cur = whole[p]
        for k, v in cur.items():
            if k != "extends" and k not in (excl or []) and k not in want:
                want[k] = v
    try:
        got = json_extends(whole_json=whole, parent_name=start, target_json=target, excludes_fields=excl)
    except ValueError:
        if whole != w0 or target != t0:
            return f"{case}: the caller's settings were modified"
        return None if err else f"{case}: ValueError on a valid inheritance chain"
    if whole != w0 or target != t0:
        return f"{case}: the caller's settings were modified"
    if err:
        return f"{case}: {err} parent not reported (returned {got})"
    if got != want:
        return f"{case}: result {got}, expected {want} (own keys, then the nearest ancestor defining each remaining key)"
    if got is target or any(got is v for v in whole.values()):
        return f"{case}: the result is not a fresh dict"
    return None


def json_extends_cases():
    names = ["a", "b", "c", "d"]
    bodies = [{"x": 1}, {"x": 2, "y": 2}, {"y": 3, "from": 5}, {"z": 4, "x": 9}]
    # falsy values (0, 0.0, "", [], False, None) set in a child are values like any other: they win over the parent's
    falsy = [{"x": 0, "y": 0.0}, {"x": 5, "y": 7, "z": 1}, {"y": "", "z": [], "from": 0}, {"z": False, "x": None}]
    for bodies_, parent_sets in ((bodies, itertools.product([None, "a", "b", "c", "d", "missing"], repeat=4)), (falsy, [("b", None, None, None), ("b", "c", "d", None), (None, None, "b", "c"), ("d", "a", None, "c")])):
      for parents in parent_sets:
        whole = {}
        bodies = bodies_
        for nme, body, par in zip(names, bodies, parents):
            e = dict(body)
            if par is not None:
                e["extends"] = par
            whole[nme] = e
        for start in ("a", "d") if bodies_ is not falsy else ("a", "c", "d"):
            for excl in (None, ["from"], ["x"]):
                yield {"whole": whole, "start": start, "excludes": excl}


CHECKS["json_extends"] = (json_extends_cases, check_json_extends)


# ----------------------------------------------------------------------------- fundamental parameters of generated markets (C12 "start at the configured initial value", C18)
def check_market_fundamentals(case):
    import contextlib, io, random as _r
    from pams.runners import SequentialRunner
    m = {"class": "Market", "tickSize": 1.0}
    m.update(case["prices"])
    for k in ("fundamentalDrift", "fundamentalVolatility"):
        if case.get(k) is not None:
            m[k] = case[k]
    if case.get("n"):
        m["numMarkets"] = case["n"]
    cfg = {"simulation": {"markets": ["M"], "agents": [], "sessions": [{"sessionName": 0, "iterationSteps": 2, "withOrderPlacement": False, "withOrderExecution": False, "withPrint": False}]}, "M": m}
    r = SequentialRunner(settings=cfg, prng=_r.Random(1))
    want_init = case["prices"].get("fundamentalPrice", case["prices"].get("marketPrice"))
    try:
        with contextlib.redirect_stdout(io.StringIO()):
            r._setup()
    except ValueError:
        return None if want_init is None else f"{case}: valid market configuration rejected"
    if want_init is None:
        return f"{case}: a market without fundamentalPrice and marketPrice was accepted"
    f = r.simulator.fundamentals
    for mk in r.simulator.markets:
        i = mk.market_id
        if f.initials[i] != float(want_init) or f.prices[i][0] != float(want_init):
            return f"{case}: fundamental path of market {mk.name} starts at {f.prices[i][0]} (initial {f.initials[i]}), configured {want_init}"
        if f.drifts[i] != float(case.get("fundamentalDrift") or 0.0) or f.volatilities[i] != float(case.get("fundamentalVolatility") or 0.0):
            return f"{case}: drift / volatility {f.drifts[i]} / {f.volatilities[i]} differ from the configured ones"
        if mk.get_fundamental_price(0) != float(want_init) if mk.get_time() >= 0 else False:
            return f"{case}: the market's own record of the fundamental price at time 0 is not the configured initial value"
    return None


def market_fundamentals_cases():
    for prices in ({"marketPrice": 300.0}, {"fundamentalPrice": 310.0}, {"marketPrice": 300.0, "fundamentalPrice": 330.0}, {"fundamentalPrice": 250, "marketPrice": 300}, {}):
        for drift in (None, 0.001):
            for vol in (None, 0.0):
                for n in (None, 2):
                    yield {"prices": prices, "fundamentalDrift": drift, "fundamentalVolatility": vol, "n": n}


for _f in ("SequentialRunner._generate_markets[fundamental-parameters]", "SequentialRunner._generate_markets[create]"):
    CHECKS[_f] = (market_fundamentals_cases, check_market_fundamentals)


# ----------------------------------------------------------------------------- inheritance at the runner's call sites (C18): a parameter of a group / event is inherited through `extends`
def check_call_site_inheritance(case):
    """a parameter that the entry does not state itself comes from the nearest ancestor, for markets, agents and events alike (only count / range / naming keys are not inherited)"""
    import contextlib, io, random as _r
    from pams.runners import SequentialRunner
    kind = case["kind"]
    cfg = {"simulation": {"markets": ["M"], "agents": ["A"], "sessions": [{"sessionName": 0, "iterationSteps": 2, "withOrderPlacement": True, "withOrderExecution": True, "withPrint": False,
                                                                              "events": ["E"] if kind == "event" else []}]},
           "MBase": {"class": "Market", "tickSize": 0.5, "marketPrice": 250.0, "outstandingShares": 777},
           "M": {"extends": "MBase"},
           "ABase": {"class": "FCNAgent", "markets": ["M"], "assetVolume": 33, "cashAmount": 4321, "fundamentalWeight": 1.0, "chartWeight": 0.0, "noiseWeight": 1.0,
                     "noiseScale": 0.001, "timeWindowSize": 10, "orderMargin": 0.0},
           "A": {"extends": "ABase", "numAgents": 2},
           "EBase": {"class": "OrderMistakeShock", "target": "M", "triggerTime": 0, "priceChangeRate": -0.05, "orderVolume": 7, "orderTimeLength": 3, "enabled": case.get("enabled", False)},
           "EMid": {"extends": "EBase"},
           "E": {"extends": "EMid"}}
    r = SequentialRunner(settings=cfg, prng=_r.Random(1))
    with contextlib.redirect_stdout(io.StringIO()):
        r._setup()
    s = r.simulator
    if kind == "market":
        m = s.markets[0]
        got = (m.tick_size, m.get_market_price(0) if m.get_time() >= 0 else None, m.outstanding_shares)
        if m.tick_size != 0.5 or m.outstanding_shares != 777:
            return f"market M extends MBase (tickSize 0.5, outstandingShares 777) but was set up with tick size {m.tick_size}, outstanding shares {m.outstanding_shares}"
    elif kind == "agent":
        for a in s.agents:
            if a.cash_amount != 4321 or a.asset_volumes != {0: 33}:
                return f"agent group A extends ABase (cashAmount 4321, assetVolume 33) but agent {a.name} has cash {a.cash_amount}, assets {a.asset_volumes}"
    else:
        want = case.get("enabled", False)
        live = [e for e in s.events if e.is_enabled]
        if len(live) != (1 if want else 0) or len(s.event_hooks) != (1 if want else 0) or any(e.order_volume != 7 for e in s.events):
            return (f"event E extends EMid extends EBase (enabled {want}, orderVolume 7) but the run has {len(live)} enabled events, {len(s.event_hooks)} registered hooks, "
                    f"order volumes {[e.order_volume for e in s.events]}")
    return None


def call_site_cases():
    yield {"kind": "market"}
    yield {"kind": "agent"}
    for en in (False, True):
        yield {"kind": "event", "enabled": en}


CHECKS["census:json_extends-call-sites"] = (call_site_cases, check_call_site_inheritance)
