"""witness search for configuration handling (C18, C09 parsing): Session.setup, count/range expansion, json_extends, JsonRandom -- exhaustive small scopes on the real code"""
import itertools
import random

from pams.session import Session


def check_session_setup(cfg):
    s = Session(session_id=0, prng=random.Random(0), session_start_time=7, simulator=None, name="s")
    before = dict(cap=s.max_high_frequency_orders, rate=s.high_frequency_submission_rate, normal=s.max_normal_orders)
    both = ("maxHighFrequencyOrders" in cfg and "maxHifreqOrders" in cfg) or ("highFrequencySubmitRate" in cfg and "hifreqSubmitRate" in cfg)
    try:
        s.setup(cfg)
    except ValueError:
        return None if both else "ValueError on a valid session configuration"
    if both:
        return "both spellings of a key accepted"
    exp_cap = cfg.get("maxHighFrequencyOrders", cfg.get("maxHifreqOrders", before["cap"]))
    exp_rate = cfg.get("highFrequencySubmitRate", cfg.get("hifreqSubmitRate", before["rate"]))
    if s.max_high_frequency_orders != exp_cap:
        return f"max_high_frequency_orders = {s.max_high_frequency_orders}, expected {exp_cap}"
    if s.high_frequency_submission_rate != exp_rate:
        return f"high_frequency_submission_rate = {s.high_frequency_submission_rate}, expected {exp_rate}"
    if s.max_normal_orders != cfg.get("maxNormalOrders", before["normal"]):
        return "max_normal_orders"
    if (s.iteration_steps, s.with_order_placement, s.with_order_execution, s.with_print) != (cfg["iterationSteps"], cfg["withOrderPlacement"], cfg["withOrderExecution"], cfg["withPrint"]):
        return "required keys"
    if s.session_start_time != 7:
        return "session_start_time changed"
    return None


def session_cases():
    opt = {"maxNormalOrders": [0, 3], "maxHighFrequencyOrders": [0, 2], "maxHifreqOrders": [4], "highFrequencySubmitRate": [0.0, 0.5], "hifreqSubmitRate": [0.25]}
    keys = list(opt)
    for r in range(len(keys) + 1):
        for sub in itertools.combinations(keys, r):
            for vals in itertools.product(*[opt[k] for k in sub]):
                for ex, pl in ((True, True), (False, True), (False, False)):
                    cfg = {"sessionName": 0, "iterationSteps": 3, "withOrderPlacement": pl, "withOrderExecution": ex, "withPrint": False}
                    cfg.update(dict(zip(sub, vals)))
                    yield cfg


CHECKS = {"Session.setup": (session_cases, check_session_setup)}


def search(seed, tier, obligation, hints):
    fn = obligation.split("/")[0]
    cases = 0
    for name, (gen, chk) in CHECKS.items():
        if fn in CHECKS and name != fn:
            continue
        for cfg in gen():
            cases += 1
            why = chk(cfg)
            if why:
                return {"found": True, "input": {"function": name, "cfg": cfg}, "observed": {"function": name, "clause": why}, "witness_key": f"{name}|{why.split('=')[0].strip()}", "cases": cases}
    return {"found": False, "cases": cases}


def replay(inp):
    why = CHECKS[inp["function"]][1](inp["cfg"])
    return {"violated": bool(why), "clause": why}
