"""witness search for the built-in events (C14, C15, C16, C09 gate): whole runs with all four events configured, under the run-time contracts"""
from . import drivers, sim

INSTALL = ["events"]
EVENTS = ("PriceLimit", "Halt", "Mistake", "FShock")


def _run(seed):
    import random
    rng = random.Random(seed)
    ev = [e for e in EVENTS if rng.random() < 0.6] or ["PriceLimit"]
    sim.run_seed(seed, events=tuple(ev))


def search(seed, tier, obligation, hints):
    n = 150 if tier == "quick" else 1500
    fn = obligation.split("/")[0] if obligation and "." in obligation.split("/")[0] else None
    return drivers.search_seeds(INSTALL, _run, range(seed * 100000, seed * 100000 + n), {"driver": "sim.run_seed with built-in events", "only_function": fn}, only_function=fn)


def replay(inp):
    return drivers.replay_seed(INSTALL, _run, inp["seed"], inp.get("only_function"))
