"""witness search for the built-in events (C14, C15, C16, C09 gate): whole runs with all four events configured, under the run-time contracts"""
from . import drivers, sim

INSTALL = ["events"]
EVENTS = ("PriceLimit", "Halt", "Mistake", "FShock")


def _run(seed):
    import random
    rng = random.Random(seed)
    ev = [e for e in EVENTS if rng.random() < 0.6] or ["PriceLimit"]
    r, cfg = sim.run_seed(seed, events=tuple(ev))
    # run-level clause of C14: an enabled fundamental price shock hits its target once at EACH step of its window (counted from the start of its session) that the run reaches
    from pams.events import FundamentalPriceShock
    from .monitors import ContractViolation
    total = sum(s_.iteration_steps for s_ in r.simulator.sessions)
    for e in r.simulator.events:
        if isinstance(e, FundamentalPriceShock) and e.is_enabled:
            c = cfg[e.name]
            start = e.session.session_start_time + c["triggerTime"]
            want = [t for t in range(start, start + c.get("shockTimeLength", 1)) if t < total]
            got = sorted(getattr(e, "_verif_applied", []))
            if got != want:
                raise ContractViolation("FundamentalPriceShock.hook_registration", "C14 the shock is applied once at each step of its trigger window, counted from the start of its session, and at no other time",
                                        dict(applied_at=got, window=want, session_start=e.session.session_start_time, steps_of_run=total))


def search(seed, tier, obligation, hints):
    n = 150 if tier == "quick" else 1500
    fn = obligation.split("/")[0] if obligation and "." in obligation.split("/")[0] else None
    return drivers.search_seeds(INSTALL, _run, range(seed * 100000, seed * 100000 + n), {"driver": "sim.run_seed with built-in events", "only_function": fn}, only_function=fn)


def replay(inp):
    return drivers.replay_seed(INSTALL, _run, inp["seed"], inp.get("only_function"))
