"""witness search for the market mutators (C04, C06, C08, C10, C16, C19): random single-market histories (off-grid prices, ttl, cancels, ticks, halts) under the run-time contracts"""
from . import drivers

INSTALL = ["market_ops", "market_price", "matching"]


def _run(seed):
    if seed % 2 == 1:
        drivers.deep_book_history(seed)
        return
    tick = {0: 0.5, 4: 0.25, 10: 0.125, 14: 2.5}.get(seed % 20, 1.0)  # even residues: odd seeds run the deep-book driver        # power-of-two ticks are checked exactly (C19); 2.5 has a two-digit mantissa
    neg = seed % 34 == 8          # limit prices around and below zero (accepted submissions: the constructor only warns): rounding "down" / "up" is by value, not by magnitude
    m, _events = drivers.market_history(seed, offgrid=(seed % 3 == 0 or tick not in (0.5, 1.0) or neg), tick=tick, prices=((-4, 3) if neg else (8, 12)))
    range_queries(m)


def range_queries(m):
    """C06 through the plural getters: a list of times is answered only if NONE of them lies in the future (wherever it stands in the list), and then with the recorded values"""
    from .monitors import ContractViolation
    t = m.get_time()
    F = "Market._extract_sequential_data_by_time"
    getters = [(m.get_n_buy_orders, m.get_n_buy_order), (m.get_n_sell_orders, m.get_n_sell_order), (m.get_executed_volumes, m.get_executed_volume)]
    for plural, single in getters:
        for times, future in (([t + 1, t], True), ([t, t + 1], True), ([0, t + 2, t], True), ([t, 0], False), (list(range(t + 1)), False), ([t], False)):
            try:
                got = plural(times)
            except AssertionError:
                if not future:
                    raise ContractViolation(F, "C06 a query for recorded times is answered", (plural.__name__, times, t))
                continue
            if future:
                raise ContractViolation(F, "C06 a query that contains a time later than the current time is refused", (plural.__name__, times, t))
            if got != [single(q) for q in times]:
                raise ContractViolation(F, "C06 one value per requested time, each the value recorded for that time", (plural.__name__, times, got))
    # every public getter returns what is stored in ITS OWN series (values may be None only for mid and last-trade prices, else the getter refuses)
    table = [("get_market_price", "get_market_prices", "_market_prices", False), ("get_mid_price", "get_mid_prices", "_mid_prices", True),
             ("get_last_executed_price", "get_last_executed_prices", "_last_executed_prices", True), ("get_fundamental_price", "get_fundamental_prices", "_fundamental_prices", False),
             ("get_executed_volume", "get_executed_volumes", "_executed_volumes", False), ("get_executed_total_price", "get_executed_total_prices", "_executed_total_prices", False),
             ("get_n_buy_order", "get_n_buy_orders", "_n_buy_orders", False), ("get_n_sell_order", "get_n_sell_orders", "_n_sell_orders", False)]
    for one, many, field, allow_none in table:
        raw = getattr(m, field)
        for q in range(t + 1):
            try:
                got = getattr(m, one)(q)
            except AssertionError:
                if raw[q] is None and not allow_none:
                    continue
                raise ContractViolation("Market." + one, "C06 a recorded value is returned for a past or current time", (q, raw[q]))
            if got != raw[q]:
                raise ContractViolation("Market." + one, f"C06/C08 the getter returns the value recorded in {field}", dict(time=q, got=got, recorded=raw[q]))
        if all(raw[q] is not None for q in range(t + 1)) or allow_none:
            if getattr(m, many)(list(range(t + 1))) != list(raw[: t + 1]):
                raise ContractViolation("Market." + many, f"C06/C08 the getter returns the values recorded in {field}", dict(got=getattr(m, many)(list(range(t + 1))), recorded=list(raw[: t + 1])))
    bb = min(m.buy_order_book.priority_queue).price if m.buy_order_book.priority_queue else None
    bs = min(m.sell_order_book.priority_queue).price if m.sell_order_book.priority_queue else None
    if m.get_best_buy_price() != bb or m.get_best_sell_price() != bs:
        raise ContractViolation("Market.get_best_buy_price", "C08 best bid / ask are the prices of the highest-priority resting orders of their own side", dict(bid=m.get_best_buy_price(), ask=m.get_best_sell_price(), book_bid=bb, book_ask=bs))
    # C08: VWAP at any recorded time = turnover up to that time / executed volume up to that time (NaN before the first fill)
    import math
    for q in range(t + 1):
        vol = sum(m.get_executed_volume(k) for k in range(q + 1)); tot = sum(m.get_executed_total_price(k) for k in range(q + 1))
        got = m.get_vwap(q)
        if (vol == 0) != (isinstance(got, float) and math.isnan(got)) or (vol != 0 and not math.isclose(got, tot / vol, rel_tol=1e-12)):
            raise ContractViolation("Market.get_vwap", "C08 VWAP = turnover up to the time / executed volume up to the time (NaN when nothing was executed)", dict(time=q, clock=t, got=got, volume=vol, turnover=tot))


def search(seed, tier, obligation, hints):
    n = 3000 if tier == "quick" else 40000
    fn = obligation.split("/")[0] if obligation and obligation.split("/")[0].startswith("Market.") else None
    r = drivers.search_seeds(INSTALL, _run, range(seed * 1000000, seed * 1000000 + n), {"driver": "market_history", "only_function": fn}, only_function=fn)
    if r.get("found") or fn != "Market._execute_orders":
        return r
    # fills are also produced by the matching driver (fine decimal tick grids, accumulated books): a fill booked wrongly shows there
    from . import matching
    r2 = matching.search(seed, tier, obligation, hints)
    if r2.get("found"):
        r2["input"] = {"matching": r2["input"]}
        return r2
    r["cases"] = r.get("cases", 0) + r2.get("cases", 0)
    return r


def replay(inp):
    if "matching" in inp:
        from . import matching
        return matching.replay(inp["matching"])
    return drivers.replay_seed(INSTALL, _run, inp["seed"], inp.get("only_function"))
