"""witness search for the market mutators (C04, C06, C08, C10, C16, C19): random single-market histories (off-grid prices, ttl, cancels, ticks, halts) under the run-time contracts"""
from . import drivers

INSTALL = ["market_ops", "market_price", "matching"]


def _run(seed):
    if seed % 2 == 1:
        drivers.deep_book_history(seed)
        return
    tick = {0: 0.5, 5: 0.25, 10: 0.125, 15: 2.5}.get(seed % 20, 1.0)        # power-of-two ticks are checked exactly (C19); 2.5 has a two-digit mantissa
    drivers.market_history(seed, offgrid=(seed % 3 == 0 or tick not in (0.5, 1.0)), tick=tick)


def search(seed, tier, obligation, hints):
    n = 3000 if tier == "quick" else 40000
    fn = obligation.split("/")[0] if obligation and obligation.split("/")[0].startswith("Market.") else None
    return drivers.search_seeds(INSTALL, _run, range(seed * 1000000, seed * 1000000 + n), {"driver": "market_history", "only_function": fn}, only_function=fn)


def replay(inp):
    return drivers.replay_seed(INSTALL, _run, inp["seed"], inp.get("only_function"))
