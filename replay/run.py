"""Runs under the repository's interpreter (/venv/bin/python). Concrete side of the contracts:
  run.py <replayer> --seed N --tier quick|thorough --obligation NAME [--hints JSON]   -> last stdout line: JSON {found, input, observed, cases, ...}
  run.py <replayer> --replay-input JSON                                                  -> exit 1 if the recorded input still violates the clause
Each replayer module drives the REAL pams functions with concrete inputs and evaluates the contract clause on the live objects."""
import importlib
import json
import os
import sys
import warnings

warnings.simplefilter("ignore")
HERE = os.path.dirname(os.path.abspath(__file__))
sys.path.insert(0, os.path.dirname(HERE))
repo = os.environ.get("PAMS_REPO", "/repo")
if repo not in sys.path:
    sys.path.insert(0, repo)


def main():
    name = sys.argv[1]
    args = sys.argv[2:]
    mod = importlib.import_module("replay." + name)

    def opt(flag, default=None):
        return args[args.index(flag) + 1] if flag in args else default
    if "--replay-input" in args:
        inp = json.loads(opt("--replay-input"))
        r = mod.replay(inp)
        print(json.dumps(r, default=str))
        sys.exit(1 if r.get("violated") else 0)
    seed = int(opt("--seed", "0")); tier = opt("--tier", "quick"); obligation = opt("--obligation", "")
    hints = json.loads(opt("--hints", "null"))
    try:
        r = mod.search(seed=seed, tier=tier, obligation=obligation, hints=hints)
    except Exception as e:      # noqa
        import traceback
        r = {"found": False, "error": f"{type(e).__name__}: {e} {traceback.format_exc()[-600:]}"}
    r["replayer"] = name
    print(json.dumps(r, default=str))


if __name__ == "__main__":
    main()
