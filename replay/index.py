"""witness search for index markets (C17) on the real code: component registration (single, batch, from the configuration) and index values over small histories.
Exhaustive over a small universe; used when an obligation of the C17 tasks fails and as thorough-tier run-time exploration."""
import itertools
import math
import random
import warnings


def _world(shares=(10, 20, 30), with_shares=(True, True, True), index_id=9, first_id=0):
    from pams.index_market import IndexMarket
    from pams.market import Market
    from pams.simulator import Simulator
    sim = Simulator(prng=random.Random(3))
    ms = []
    for i, nm in enumerate("ABC"):
        m = Market(market_id=first_id + i, prng=random.Random(i), simulator=sim, name=nm)
        cfg = {"tickSize": 0.01, "marketPrice": 100.0 + 10 * i}
        if with_shares[i]:
            cfg["outstandingShares"] = shares[i]
        m.setup(cfg)
        sim._add_market(m)
        ms.append(m)
    idx = IndexMarket(market_id=index_id, prng=random.Random(9), simulator=sim, name="I")
    return sim, ms, idx


def check_registration(case):
    how, seq, noshare = case["how"], case["seq"], case.get("noshare", [])
    sim, ms, idx = _world(with_shares=tuple(i not in noshare for i in range(3)))
    dup = len(set(seq)) != len(seq)
    bad_share = any(i in noshare for i in seq)
    raised = None
    try:
        with warnings.catch_warnings():
            warnings.simplefilter("ignore")
            if how == "setup":
                idx.setup({"tickSize": 0.01, "marketPrice": 100.0, "markets": ["ABC"[i] for i in seq]})
            elif how == "batch":
                idx._add_markets([ms[i] for i in seq])
            else:
                for i in seq:
                    idx._add_market(ms[i])
    except (ValueError, AssertionError) as e:
        raised = type(e).__name__
    comps = idx.get_components()
    if len(set(id(c) for c in comps)) != len(comps):
        return f"{how} {seq}: components are not pairwise distinct ({[c.name for c in comps]})"
    if any(c.outstanding_shares is None for c in comps):
        return f"{how} {seq}: a component without outstanding shares was registered"
    if (dup or bad_share) and raised is None:
        return f"{how} {seq}: an invalid component list was accepted"
    if not (dup or bad_share):
        if raised is not None:
            return f"{how} {seq}: valid component list rejected with {raised}"
        if [c.name for c in comps] != ["ABC"[i] for i in seq]:
            return f"{how} {seq}: components {[c.name for c in comps]} are not the configured ones"
    return None


def registration_cases():
    for how in ("setup", "batch", "single"):
        for r in (1, 2, 3):
            for seq in itertools.product(range(3), repeat=r):
                yield {"kind": "registration", "how": how, "seq": list(seq)}
        for seq in ([0, 1], [1, 0], [2]):
            yield {"kind": "registration", "how": how, "seq": seq, "noshare": [1]}


def check_values(case):
    """clock steps with moving prices; every index query (now, explicit past time incl. 0) equals the share-weighted average at that time"""
    rng = random.Random(case["seed"])
    shares = tuple(case["shares"]) if case.get("shares") else tuple(rng.randint(1, 50) for _ in range(3))
    low = bool(case.get("index_id_low"))          # the index market may have a smaller id than its components (hand-built simulators): "components first" is by kind, not by id
    sim, ms, idx = _world(shares=shares, index_id=(0 if low else 9), first_id=(1 if low else 0))
    idx.setup({"tickSize": 0.01, "marketPrice": 100.0, "markets": ["ABC"[i] for i in case["comps"]]})
    sim._add_market(idx)
    comps = [ms[i] for i in case["comps"]]
    hist = []
    for mid, m in enumerate(ms):
        sim.fundamentals.add_market(market_id=m.market_id, initial=100.0 + 10 * mid, drift=0.0, volatility=0.02)
    if case.get("registered"):
        # a hand-built simulator may also register the index market with the fundamentals generator; its recorded value is still the components' weighted average
        sim.fundamentals.add_market(market_id=idx.market_id, initial=450.0, drift=0.0, volatility=0.0)
    order = list(sim.markets)
    rng.shuffle(order)          # the index market may be listed before its components: all markets still advance together, components first
    for t in range(case["steps"]):
        if t == 2 and case["seed"] % 3 == 0:
            comps[-1].outstanding_shares = comps[-1].outstanding_shares * 3 + 1       # a share issuance between two steps (user event): the weights are the components' current outstanding shares
        try:
            sim._update_times_on_markets(order)
        except AssertionError as e:
            return f"clock update of the markets {[m.name for m in order]} (index market listed before a component) raised AssertionError({e})"
        if len({m.get_time() for m in order}) != 1 or order[0].get_time() != t:
            return f"after clock update {t} the markets read {[m.get_time() for m in order]}"
        for m in ms:
            if t > 0:
                m._market_prices[m.get_time()] = round(rng.uniform(50, 150), 2)
        hist.append(([m.get_market_price() for m in comps], [m.get_fundamental_price() for m in comps], [c.outstanding_shares for c in comps]))
        tot = sum(c.outstanding_shares for c in comps)
        for q in range(t + 1):
            want_m = sum(p * c.outstanding_shares for p, c in zip(hist[q][0], comps)) / tot
            want_f = sum(p * c.outstanding_shares for p, c in zip(hist[q][1], comps)) / tot
            for name, fn, want in (("compute_market_index", idx.compute_market_index, want_m), ("get_market_index", idx.get_market_index, want_m), ("get_index", idx.get_index, want_m),
                                   ("compute_fundamental_index", idx.compute_fundamental_index, want_f)):
                got = fn(time=q)
                if not math.isclose(got, want, rel_tol=1e-12, abs_tol=1e-12):
                    return f"{name}(time={q}) at clock {t} = {got}, share-weighted average of the components at time {q} = {want}"
                if q == t:
                    got = fn()
                    if not math.isclose(got, want, rel_tol=1e-12, abs_tol=1e-12):
                        return f"{name}() at clock {t} = {got}, share-weighted average of the components = {want}"
            # the fundamental value recorded by the index when the clock advanced
            rec = idx.get_fundamental_price(time=q)
            want_f = sum(p * sh for p, sh in zip(hist[q][1], hist[q][2])) / sum(hist[q][2])      # with the shares outstanding when the clock advanced to q
            if not math.isclose(rec, want_f, rel_tol=1e-12, abs_tol=1e-12):
                return f"recorded fundamental value of the index at time {q} = {rec}, weighted average of the components' fundamentals = {want_f}"
    # advancing the index market alone, before its components: the components have no value for the new time yet, so this must be refused (never answered with older values)
    if case["seed"] % 2 == 1:
        before = idx.get_time()
        try:
            sim._update_time_on_market(idx)
        except AssertionError:
            pass
        else:
            return (f"the index market was advanced to time {idx.get_time()} while its components are at time {[c.get_time() for c in comps]}: it recorded the fundamental value "
                    f"{idx.get_fundamental_price()} although the components have no value for that time (was at {before})")
    return None


def value_cases(tier):
    n = 40 if tier != "thorough" else 400
    for seed in range(n):
        for comps in ([0, 1], [2, 0, 1], [1]):
            yield {"kind": "values", "seed": seed, "comps": comps, "steps": 3}
            if seed % 8 == 1:
                yield {"kind": "values", "seed": seed, "comps": comps, "steps": 3, "registered": True}
            if seed % 8 == 2:
                yield {"kind": "values", "seed": seed, "comps": comps, "steps": 3, "index_id_low": True}
    # share patterns with arithmetic coincidences (first = mean of all, all equal, one dominating)
    for seed, shares in enumerate(([200, 100, 300], [100, 200, 300], [7, 7, 7], [300, 100, 200], [1, 1, 1000], [2, 1, 3])):
        for comps in ([0, 1, 2], [1, 2, 0], [2, 0, 1]):
            yield {"kind": "values", "seed": 1000 + seed, "comps": comps, "steps": 3, "shares": shares}


def check_setup_names(case):
    """IndexMarket.setup with a `markets` list that mixes market names, group names and repetitions: either the configuration is refused, or the components are pairwise
    distinct markets that declare outstanding shares (a component counted twice would get twice its weight)"""
    from pams.index_market import IndexMarket
    from pams.market import Market
    from pams.simulator import Simulator
    sim = Simulator(prng=random.Random(3))
    for i, (nm, grp) in enumerate((("Spot-0", "Spot"), ("Spot-1", "Spot"), ("Other", None))):
        m = Market(market_id=i, prng=random.Random(i), simulator=sim, name=nm)
        m.setup({"tickSize": 0.01, "marketPrice": 100.0 + 10 * i, "outstandingShares": 10 * (i + 1)})
        sim._add_market(m, group_name=grp)
    idx = IndexMarket(market_id=9, prng=random.Random(9), simulator=sim, name="I")
    try:
        idx.setup({"tickSize": 0.01, "marketPrice": 100.0, "markets": list(case["names"])})
    except (KeyError, ValueError, AssertionError):
        return None
    comps = idx.get_components()
    if len({id(c) for c in comps}) != len(comps) or any(c.outstanding_shares is None for c in comps):
        return f"IndexMarket.setup with markets {case['names']} accepted the components {[c.name for c in comps]} (not pairwise distinct)"
    return None


def setup_name_cases():
    for names in (["Spot-0", "Other"], ["Spot-0", "Spot-0"], ["Spot-0", "Other", "Spot"], ["Spot", "Spot"], ["Spot", "Spot-1"], ["Other", "Spot"], ["Nope"]):
        yield {"kind": "setup_names", "names": names}


def _check(case):
    if case["kind"] == "setup_names":
        return check_setup_names(case)
    return check_registration(case) if case["kind"] == "registration" else check_values(case)


def search(seed, tier, obligation, hints):
    cases = 0
    for case in itertools.chain(setup_name_cases(), registration_cases(), value_cases(tier)):
        cases += 1
        why = _check(case)
        if why:
            return {"found": True, "input": case, "observed": {"clause": why}, "witness_key": "index|" + why.split(":")[0], "cases": cases}
    if obligation and obligation.startswith("Simulator."):
        from . import whole_run
        r2 = whole_run.search(seed, tier, obligation, hints)
        if r2.get("found"):
            r2["input"] = {"whole_run": r2["input"]}
            return r2
        cases += r2.get("cases", 0)
    return {"found": False, "cases": cases}


def replay(inp):
    if "whole_run" in inp:
        from . import whole_run
        return whole_run.replay(inp["whole_run"])
    why = _check(inp)
    return {"violated": bool(why), "clause": why}
