"""differential replay for C07: the same configuration and seed run in fresh interpreters with different PYTHONHASHSEED and with polluted global generators must give one digest
of all log records, notifications, price series and final holdings; the caller's settings object must be unchanged. Used as witness search for failed effect obligations."""
import copy
import hashlib
import json
import os
import random
import subprocess
import sys


def config(seed):
    rng = random.Random(seed)
    names = ["SpotA", "SpotB", "SpotC"]
    cfg = {
        "simulation": {"markets": names + ["Index"], "agents": ["FCN", "Arb", "MM"], "sessions": [
            {"sessionName": 0, "iterationSteps": 20, "withOrderPlacement": True, "withOrderExecution": False, "withPrint": False, "maxNormalOrders": 3},
            {"sessionName": 1, "iterationSteps": 60 + rng.randint(0, 60), "withOrderPlacement": True, "withOrderExecution": True, "withPrint": False, "maxNormalOrders": 3, "maxHighFrequencyOrders": 2,
             "events": ["Shock"]}],
            "fundamentalCorrelations": {"pairwise": [["SpotA", "SpotB", 0.6], ["SpotC", "SpotA", -0.3]]}},
        "Spot": {"class": "Market", "tickSize": 0.01, "marketPrice": 300.0, "outstandingShares": 1000, "fundamentalVolatility": 0.001},
        "SpotA": {"extends": "Spot"}, "SpotB": {"extends": "Spot", "marketPrice": 350.0}, "SpotC": {"extends": "Spot", "marketPrice": 250.0},
        "Index": {"class": "IndexMarket", "tickSize": 0.01, "marketPrice": 300.0, "markets": names},
        "FCN": {"class": "FCNAgent", "numAgents": 12, "markets": names + ["Index"], "assetVolume": 50, "cashAmount": 10000, "fundamentalWeight": {"expon": [1.0]}, "chartWeight": {"expon": [0.2]},
                "noiseWeight": {"expon": [1.0]}, "meanReversionTime": {"uniform": [50, 100]}, "noiseScale": 0.001, "timeWindowSize": [10, 30], "orderMargin": [0.0, 0.1]},
        "Arb": {"class": "ArbitrageAgent", "numAgents": 2, "markets": names + ["Index"], "assetVolume": 50, "cashAmount": 150000, "orderVolume": 1, "orderThresholdPrice": 1.0},
        "MM": {"class": "MarketMakerAgent", "numAgents": 1, "markets": ["SpotA"], "assetVolume": 50, "cashAmount": 10000, "targetMarket": "SpotA", "netInterestSpread": 0.02, "orderTimeLength": 2},
        "Shock": {"class": "FundamentalPriceShock", "target": "SpotB", "triggerTime": 5, "priceChangeRate": -0.1, "shockTimeLength": 2},
    }
    if seed % 2 == 1:
        # optional keys left out: a run must not fill in defaults in the caller's settings object either
        del cfg["simulation"]["fundamentalCorrelations"]
        del cfg["MM"]["orderTimeLength"]
    return cfg


CHILD = r'''
import sys, json, random, hashlib, io, contextlib, copy
sys.path.insert(0, %(repo)r)
import numpy as np
random.seed(%(pollute)d); np.random.seed(%(pollute)d %% 1000)
[random.random() for _ in range(%(pollute)d %% 17)]
from pams.runners import SequentialRunner
from pams.logs import Logger
from pams.agents import FCNAgent, ArbitrageAgent, MarketMakerAgent
rec = []
class L(Logger):
    def process_order_log(self, log): rec.append(("o", log.order_id, log.market_id, log.time, log.agent_id, log.is_buy, log.volume, log.price, log.ttl))
    def process_cancel_log(self, log): rec.append(("c", log.order_id, log.market_id, log.cancel_time, log.volume))
    def process_execution_log(self, log): rec.append(("x", log.market_id, log.time, log.buy_agent_id, log.sell_agent_id, log.buy_order_id, log.sell_order_id, log.price, log.volume))
    def process_expiration_log(self, log): rec.append(("e", log.order_id, log.market_id, log.time, log.volume))
cfg = json.loads(%(cfg)r)
before = copy.deepcopy(cfg)
r = SequentialRunner(settings=cfg, prng=random.Random(%(seed)d), logger=L())
with contextlib.redirect_stdout(io.StringIO()):
    r.main()
s = r.simulator
out = {"records": rec, "prices": [[m.get_market_prices(), m.get_fundamental_prices(), m.get_executed_volumes()] for m in s.markets],
       "holdings": [[a.cash_amount, sorted(a.asset_volumes.items())] for a in s.agents], "settings_unchanged": cfg == before}
print(hashlib.sha256(json.dumps(out, sort_keys=True).encode()).hexdigest(), out["settings_unchanged"], len(rec))
'''


def run_child(cfg, seed, hashseed, pollute, repo):
    env = dict(os.environ); env["PYTHONHASHSEED"] = str(hashseed)
    env.pop("PYTHONPATH", None)
    code = CHILD % {"repo": repo, "pollute": pollute, "cfg": json.dumps(cfg), "seed": seed}
    p = subprocess.run([sys.executable, "-c", code], capture_output=True, text=True, env=env, timeout=900)
    if p.returncode != 0:
        return None, p.stderr[-400:]
    return p.stdout.strip().split(), None


def check(seed, hashseeds=(0, 1, 2)):
    repo = os.environ.get("PAMS_REPO", "/repo")
    cfg = config(seed)
    ref = None
    for k, hs in enumerate(hashseeds):
        out, err = run_child(cfg, seed, hs, 11 + 7 * k, repo)
        if out is None:
            return f"run failed: {err}"
        if out[1] != "True":
            return "the caller's settings object was modified by the run"
        if ref is None:
            ref = out
        elif out[0] != ref[0]:
            return f"outcome differs between PYTHONHASHSEED={hashseeds[0]} and PYTHONHASHSEED={hs} (same configuration and seed; {ref[2]} vs {out[2]} records)"
    return None


def search(seed, tier, obligation, hints):
    n = 2 if tier == "quick" else 6
    cases = 0
    for sd in range(seed * 100, seed * 100 + n):
        cases += 1
        why = check(sd, (0, 1, 2) if tier == "quick" else (0, 1, 2, 3, 4, 5))
        if why:
            return {"found": True, "input": {"seed": sd}, "observed": {"function": "SequentialRunner.main", "clause": why}, "witness_key": "determinism|" + why[:30], "cases": cases}
    return {"found": False, "cases": cases}


def replay(inp):
    why = check(inp["seed"], (0, 1, 2, 3, 4, 5))
    return {"violated": bool(why), "clause": why}
