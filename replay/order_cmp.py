"""witness search for the order comparison lemmas (C02): exhaustive small scope -- accepted orders of one side over prices {None, 9, 10}, times {0, 1}, distinct ids"""
import itertools

from pams.order import LIMIT_ORDER, MARKET_ORDER, Order


def mk(is_buy, price, t, oid):
    return Order(agent_id=0, market_id=0, is_buy=is_buy, kind=MARKET_ORDER if price is None else LIMIT_ORDER, volume=1, placed_at=t, price=price, order_id=oid)


def rank(o):
    return (0 if o.price is None else 1, 0 if o.price is None else (-o.price if o.is_buy else o.price), o.placed_at, o.order_id)


def check(spec):
    is_buy, triple = spec["is_buy"], spec["orders"]
    os_ = [mk(is_buy, p, t, i) for i, (p, t) in enumerate(triple)]
    for a in os_:
        if a < a or a > a or not (a == a) or (a != a):
            return "irreflexive / reflexive equality"
    for a, b in itertools.permutations(os_, 2):
        if (a < b) != (rank(a) < rank(b)):
            return f"lt does not agree with the price-time rank for {rank(a)} vs {rank(b)}"
        if (a > b) != (b < a) or (a <= b) != ((a == b) or (a < b)) or (a >= b) != ((a == b) or (a > b)) or (a != b) != (not (a == b)):
            return "derived operators inconsistent"
        if (a == b) != (a is b):
            return f"== is not identity on accepted orders with distinct ids: {rank(a)} == {rank(b)}"
        if not ((a < b) or (b < a)):
            return "not total"
    for a, b, c in itertools.permutations(os_, 3):
        if a < b and b < c and not a < c:
            return "not transitive"
    return None


def cases():
    vals = [(p, t) for p in (None, 9.0, 10.0) for t in (0, 1)]
    for is_buy in (True, False):
        for triple in itertools.product(vals, repeat=3):
            yield {"is_buy": is_buy, "orders": list(triple)}
    # prices one tick apart on a fine grid (tick 1e-5 near 30000: the relative difference is below 1e-9), and time 0 against later times
    near = [(p, t) for p in (30000.0, 30000.00001, 29999.99999) for t in (0, 1, 2)]
    for is_buy in (True, False):
        for triple in itertools.product(near, repeat=3):
            yield {"is_buy": is_buy, "orders": list(triple)}


def check_ctor(spec):
    """Order.__init__: a limit order needs a price, a market order must not carry one; volume and time-to-live must be positive (else ValueError); the fields are stored as given"""
    kw = dict(agent_id=1, market_id=2, is_buy=spec["is_buy"], kind=LIMIT_ORDER if spec["limit"] else MARKET_ORDER, volume=spec["volume"], price=spec["price"], ttl=spec["ttl"])
    bad = spec["volume"] <= 0 or (spec["ttl"] is not None and spec["ttl"] <= 0) or (spec["limit"] and spec["price"] is None) or (not spec["limit"] and spec["price"] is not None)
    try:
        import warnings
        with warnings.catch_warnings():
            warnings.simplefilter("ignore")
            o = Order(**kw)
    except ValueError:
        return None if bad else f"Order({kw}) is admissible but was refused"
    if bad:
        return f"Order({kw}) was constructed although volume / time-to-live must be positive and a price is required exactly for limit orders"
    if (o.volume, o.ttl, o.price, o.is_buy, o.agent_id, o.market_id, o.placed_at, o.order_id, o.is_canceled) != (spec["volume"], spec["ttl"], spec["price"], spec["is_buy"], 1, 2, None, None, False):
        return f"Order({kw}) does not store the values it was given"
    return None


def ctor_cases():
    for is_buy in (True, False):
        for limit in (True, False):
            for volume in (-1, 0, 1, 5):
                for ttl in (None, -1, 0, 1, 3):
                    for price in (None, 10.0, 0.5):
                        yield {"ctor": True, "is_buy": is_buy, "limit": limit, "volume": volume, "ttl": ttl, "price": price}


def check_pred(spec):
    """Order.is_expired(time) == (ttl is not None and placed_at + ttl < time), Exception when unplaced; Order.check_system_acceptable(agent) returns normally
    exactly for the owner's unplaced, uncancelled order (AttributeError otherwise)"""
    import warnings
    with warnings.catch_warnings():
        warnings.simplefilter("ignore")
        o = Order(agent_id=1, market_id=2, is_buy=True, kind=LIMIT_ORDER, volume=1, price=10.0, ttl=spec["ttl"], placed_at=spec["placed_at"])
    o.is_canceled = spec["canceled"]
    try:
        got = o.is_expired(spec["time"])
        if spec["placed_at"] is None:
            return f"is_expired({spec['time']}) of an unplaced order returned {got} instead of raising"
        want = spec["ttl"] is not None and spec["placed_at"] + spec["ttl"] < spec["time"]
        if bool(got) != want:
            return f"is_expired({spec['time']}) = {got} for placed_at={spec['placed_at']}, ttl={spec['ttl']}: expected {want}"
    except AssertionError:
        raise
    except Exception:
        if spec["placed_at"] is not None:
            return f"is_expired raised for a placed order (placed_at={spec['placed_at']})"
    ok = spec["agent"] == 1 and spec["placed_at"] is None and not spec["canceled"]
    try:
        o.check_system_acceptable(spec["agent"])
        if not ok:
            return f"check_system_acceptable({spec['agent']}) accepted an order of agent 1 with placed_at={spec['placed_at']}, is_canceled={spec['canceled']}"
    except AttributeError:
        if ok:
            return "check_system_acceptable refused the owner's unplaced, uncancelled order"
    from pams.order import Cancel
    c = Cancel(order=o, placed_at=spec.get("cancel_placed_at"))
    okc = spec["agent"] == 1 and spec.get("cancel_placed_at") is None and not spec["canceled"]
    try:
        c.check_system_acceptable(spec["agent"])
        if not okc:
            return f"Cancel.check_system_acceptable({spec['agent']}) accepted a cancel (placed_at={spec.get('cancel_placed_at')}) of agent 1's order with is_canceled={spec['canceled']}"
    except AttributeError:
        if okc:
            return "Cancel.check_system_acceptable refused the owner's unplaced cancel of an order not yet cancelled"
    return None


def pred_cases():
    for ttl in (None, 1, 3):
        for placed_at in (None, 0, 2):
            for time in range(0, 8):
                for canceled in (False, True):
                    for agent in (1, 7):
                        for cpa in (None, 3):
                            yield {"pred": True, "ttl": ttl, "placed_at": placed_at, "time": time, "canceled": canceled, "agent": agent, "cancel_placed_at": cpa}


def search(seed, tier, obligation, hints):
    n = 0
    if (obligation or "").startswith(("Order.is_expired", "Order.check_system_acceptable", "Cancel.check_system_acceptable")):
        for c in pred_cases():
            n += 1
            why = check_pred(c)
            if why:
                return {"found": True, "input": c, "observed": {"function": "Order predicates", "clause": why}, "witness_key": "Order.pred|" + why[:30], "cases": n, "exhaustive_scope": True}
    if (obligation or "").startswith("Order.__init__"):
        for c in ctor_cases():
            n += 1
            why = check_ctor(c)
            if why:
                return {"found": True, "input": c, "observed": {"function": "Order.__init__", "clause": why}, "witness_key": "Order.__init__|" + why[:30], "cases": n, "exhaustive_scope": True}
    for c in cases():
        n += 1
        why = check(c)
        if why:
            return {"found": True, "input": c, "observed": {"function": "Order comparison", "clause": why}, "witness_key": "Order.compare|" + why[:30], "cases": n, "exhaustive_scope": True}
    return {"found": False, "cases": n, "exhaustive_scope": True}


def replay(inp):
    why = check_pred(inp) if inp.get("pred") else check_ctor(inp) if inp.get("ctor") else check(inp)
    return {"violated": bool(why), "clause": why}
