"""Whole-run driver on the REAL runner: random configurations with scripted agents and built-in events (seeded)."""
import contextlib
import copy
import io
import random

from pams.agents import Agent
from pams.agents import HighFrequencyAgent
from pams.events import EventABC
from pams.events import EventHook
from pams.logs import Logger
from pams.order import LIMIT_ORDER
from pams.order import MARKET_ORDER
from pams.order import Cancel
from pams.order import Order
from pams.runners import SequentialRunner

EV = []     # global event trace of the current run


class RandAgent(Agent):
    def setup(self, settings, accessible_markets_ids, *a, **k):
        super().setup(settings, accessible_markets_ids)
        self.mine = []

    def submit_orders(self, markets):
        EV.append(("consult", self.agent_id, markets[0].get_time()))
        out = []
        r = self.prng.random()
        if r < 0.3:
            return out
        for m in markets:
            if not self.is_market_accessible(m.market_id) or self.prng.random() < 0.4:
                continue
            if self.mine and self.prng.random() < 0.2:
                o = self.prng.choice(self.mine)
                if o.placed_at is not None and not o.is_canceled:
                    out.append(Cancel(order=o))
                    continue
            mk = self.prng.random() < 0.15
            o = Order(agent_id=self.agent_id, market_id=m.market_id, is_buy=self.prng.random() < 0.5,
                      kind=MARKET_ORDER if mk else LIMIT_ORDER, volume=self.prng.randint(1, 4),
                      price=None if mk else max(1.0, m.get_market_price() + self.prng.randint(-6, 6) + (0.37 if self.prng.random() < 0.2 else 0)),
                      ttl=self.prng.choice([None, 1, 2, 5]))
            out.append(o)
            self.mine.append(o)
        if out:
            EV.append(("produced", self.agent_id, markets[0].get_time(), len(out)))
        return out

    def submitted_order(self, log):
        EV.append(("cb_sub", self.agent_id, log))

    def canceled_order(self, log):
        EV.append(("cb_can", self.agent_id, log))

    def executed_order(self, log):
        # the agent's own holdings as it sees them inside the callback (C05 "at every moment", C11 "after holdings have been updated for the whole round")
        EV.append(("cb_exe", self.agent_id, log, self.cash_amount, dict(self.asset_volumes)))


class RandHFT(HighFrequencyAgent, RandAgent):
    pass


class Probe(EventABC):
    def hook_registration(self):
        hs = []
        for ht in ["order", "cancel", "session", "market"]:
            for before in (True, False):
                hs.append(EventHook(event=self, hook_type=ht, is_before=before))
        hs.append(EventHook(event=self, hook_type="execution", is_before=False))
        return hs

    def hooked_before_order(self, simulator, order): EV.append(("h_bo", order, order.placed_at, order.order_id))
    def hooked_after_order(self, simulator, order_log): EV.append(("h_ao", order_log))
    def hooked_before_cancel(self, simulator, cancel): EV.append(("h_bc", cancel))
    def hooked_after_cancel(self, simulator, cancel_log): EV.append(("h_ac", cancel_log))
    def hooked_after_execution(self, simulator, execution_log): EV.append(("h_ae", execution_log))
    def hooked_before_session(self, simulator, session): EV.append(("h_bs", session.session_id, [m.get_time() for m in simulator.markets]))
    def hooked_after_session(self, simulator, session): EV.append(("h_as", session.session_id, [m.get_time() for m in simulator.markets]))
    def hooked_before_step_for_market(self, simulator, market): EV.append(("h_bm", market.market_id, market.get_time()))
    def hooked_after_step_for_market(self, simulator, market): EV.append(("h_am", market.market_id, market.get_time()))


class Rec(Logger):
    def __len__(self): return 0      # falsy on purpose (see drivers.CountingLogger): the runner and the markets must test `is not None`
    def process_order_log(self, log): EV.append(("L_ord", log))
    def process_cancel_log(self, log): EV.append(("L_can", log))
    def process_execution_log(self, log): EV.append(("L_exe", log))
    def process_expiration_log(self, log): EV.append(("L_exp", log))
    def process_market_step_begin_log(self, log): EV.append(("L_sb", log.market.market_id, log.market.get_time()))
    def process_market_step_end_log(self, log): EV.append(("L_se", log.market.market_id, log.market.get_time()))
    def process_session_begin_log(self, log): EV.append(("L_sesb", log.session.session_id))
    def process_session_end_log(self, log): EV.append(("L_sese", log.session.session_id))
    def process_simulation_begin_log(self, log): EV.append(("L_simb",))
    def process_simulation_end_log(self, log): EV.append(("L_sime",))


def make_cfg(rng, events=("Probe",), long_steps=False):
    nm = rng.randint(1, 3)
    names = ["M-%d" % i for i in range(nm)] if nm > 1 else ["M"]
    sessions = []
    nses = rng.randint(1, 3)
    ev_session = rng.randrange(nses)
    for i in range(nses):
        sessions.append({"sessionName": i, "iterationSteps": rng.choice([1, 3, 7, 25] + ([60, 101] if long_steps else []) + ([0] if (i > 0 and rng.random() < 0.3) else [])), "withOrderPlacement": rng.random() < 0.85,
                         "withOrderExecution": rng.random() < 0.7, "withPrint": False,
                         "maxNormalOrders": rng.choice([0, 1, 2, 5]), "maxHighFrequencyOrders": rng.choice([0, 1, 2]),
                         "highFrequencySubmitRate": rng.choice([0.0, 0.5, 1.0]), "events": list(events) if i == ev_session else []})
    cfg = {"simulation": {"markets": ["M"] + (["I"] if nm >= 2 and rng.random() < 0.5 else []), "agents": ["A", "H"], "sessions": sessions},
           "Probe": {"class": "Probe"},
           "M": {"class": "Market", "numMarkets": nm, "tickSize": rng.choice([1.0, 0.5]), "marketPrice": 100.0, "outstandingShares": rng.choice([1000, 250]),
                 "fundamentalVolatility": 0.01},
           "I": {"class": "IndexMarket", "tickSize": 1.0, "marketPrice": 100.0, "markets": list(names)},
           "A": {"class": "RandAgent", "numAgents": rng.randint(1, 6), "markets": ["M"], "cashAmount": 1000, "assetVolume": 10},
           "H": {"class": "RandHFT", "numAgents": rng.randint(1, 2), "markets": ["M"], "cashAmount": 1000, "assetVolume": 10}}
    if "I" in cfg["simulation"]["markets"]:
        cfg["A"]["markets"] = ["M", "I"]
    if nm > 1 and rng.random() < 0.5:
        # individually configured markets with different prices at time 0 (instead of one group expanded by numMarkets)
        base = cfg.pop("M")
        base.pop("numMarkets")
        for nme in names:
            cfg[nme] = dict(base, marketPrice=rng.choice([100.0, 80.0, 130.0, 100.0]))
        sm = cfg["simulation"]["markets"]
        cfg["simulation"]["markets"] = names + [x for x in sm if x != "M"]
        for g in ("A", "H"):
            cfg[g]["markets"] = names + [x for x in cfg[g]["markets"] if x != "M"]
    tgt = rng.sample(names, rng.randint(1, len(names)))
    cfg["PriceLimit"] = {"class": "PriceLimitRule", "targetMarkets": tgt, "triggerChangeRate": rng.choice([0.01, 0.03, 0.1, 0.0])}      # rate 0: the band is the single reference price
    cfg["Halt"] = {"class": "TradingHaltRule", "targetMarkets": rng.sample(names, rng.randint(1, len(names))), "triggerChangeRate": rng.choice([0.005, 0.02, 0.05]),
                   "haltingTimeLength": rng.choice([1, 2, 5, 10, 0])}
    cfg["Mistake"] = {"class": "OrderMistakeShock", "target": rng.choice(names), "triggerTime": rng.randint(0, 3), "priceChangeRate": rng.choice([-0.1, 0.1, 0.3]),
                      "orderVolume": rng.randint(1, 50), "orderTimeLength": rng.randint(1, 5)}
    cfg["FShock"] = {"class": "FundamentalPriceShock", "target": rng.choice(names), "triggerTime": rng.randint(0, 3), "priceChangeRate": rng.choice([-0.2, 0.1]),
                     "shockTimeLength": rng.randint(1, 3)}
    return cfg


_REC = object()


def run_cfg(cfg, seed, logger=_REC):
    global EV
    EV = []
    r = SequentialRunner(settings=copy.deepcopy(cfg), prng=random.Random(seed), logger=Rec() if logger is _REC else logger)
    for c in (RandAgent, RandHFT, Probe):
        r.class_register(c)
    with contextlib.redirect_stdout(io.StringIO()):
        r.main()
    return r


def run_seed(seed, events=("Probe",), long_steps=False):
    rng = random.Random(seed)
    cfg = make_cfg(rng, events=events, long_steps=long_steps)
    return run_cfg(cfg, seed), cfg
