"""witness search for the owner check (C04: "an order object is accepted ... only when submitted by its owner"):
scripted normal / high-frequency agents return batches that mix their own orders and cancels with orders carrying another agent's id.
Every batch containing a foreign order must be rejected (ValueError) and never reach a book; pure batches must be accepted."""
import contextlib
import io
import itertools
import random

from pams.agents import Agent, HighFrequencyAgent
from pams.logs import Logger
from pams.order import LIMIT_ORDER, Cancel, Order
from pams.runners import SequentialRunner

SCRIPT = {}
ACCEPTED = []


class Scripted(Agent):
    def submit_orders(self, markets):
        plan = SCRIPT.get((self.name, markets[0].get_time()))
        if not plan:
            return []
        out = []
        for who in plan:
            aid = self.agent_id if who == "own" else (self.agent_id + 1) % 3
            out.append(Order(agent_id=aid, market_id=markets[0].market_id, is_buy=(who == "own"), kind=LIMIT_ORDER, volume=1, price=100.0 + (1 if who != "own" else -1), ttl=3))
        return out


class ScriptedHFT(HighFrequencyAgent, Scripted):
    pass


class Rec(Logger):
    def process_order_log(self, log):
        ACCEPTED.append(log)


def run(case):
    global SCRIPT
    SCRIPT = {}
    del ACCEPTED[:]
    who, plan = case["who"], tuple(case["plan"])
    cfg = {"simulation": {"markets": ["M"], "agents": ["N", "H", "P"], "sessions": [{"sessionName": 0, "iterationSteps": 3, "withOrderPlacement": True, "withOrderExecution": True, "withPrint": False,
                                                                                     "maxNormalOrders": 3, "maxHighFrequencyOrders": 3, "highFrequencySubmitRate": 1.0}]},
           "M": {"class": "Market", "tickSize": 1.0, "marketPrice": 100.0},
           "N": {"class": "Scripted", "numAgents": 1, "markets": ["M"], "cashAmount": 1000, "assetVolume": 10},
           "H": {"class": "ScriptedHFT", "numAgents": 1, "markets": ["M"], "cashAmount": 1000, "assetVolume": 10},
           "P": {"class": "Scripted", "numAgents": 1, "markets": ["M"], "cashAmount": 1000, "assetVolume": 10}}
    # agent ids: N -> 0, H -> 1, P -> 2 ; a normal agent must hand something in for the high-frequency phase to run
    SCRIPT[("N", 1)] = plan if who == "normal" else ("own",)
    if who == "hft":
        SCRIPT[("H", 1)] = plan
    if who == "normalP":
        SCRIPT[("P", 1)] = plan      # the foreign id this agent (id 2) uses is (2 + 1) % 3 = 0: the id that is falsy
    r = SequentialRunner(settings=cfg, prng=random.Random(case.get("seed", 1)), logger=Rec())
    for c in (Scripted, ScriptedHFT):
        r.class_register(c)
    foreign = "foreign" in plan
    try:
        with contextlib.redirect_stdout(io.StringIO()):
            r.main()
        raised = False
    except ValueError:
        raised = True
    ids = {"normal": 0, "hft": 1, "normalP": 2}
    bad = [l for l in ACCEPTED if l.agent_id == (ids[who] + 1) % 3 and l.price == 101.0]
    books = [o for m in r.simulator.markets for o in m.buy_order_book.priority_queue + m.sell_order_book.priority_queue if o.price == 101.0]
    if foreign and not raised:
        return f"{who} agent's batch {list(plan)} contains an order under another agent's id ({(ids[who] + 1) % 3}) and was accepted ({len(bad)} such order(s) logged, {len(books)} resting)"
    if bad or books:
        return f"{who} agent's batch {list(plan)}: an order under another agent's id reached the book"
    if not foreign and raised:
        return f"{who} agent's batch {list(plan)} holds only its own orders and was rejected"
    return None


def cases():
    for who in ("normal", "hft", "normalP"):
        for n in (1, 2, 3):
            for plan in itertools.product(("own", "foreign"), repeat=n):
                yield {"who": who, "plan": list(plan)}


def search(seed, tier, obligation, hints):
    n = 0
    for case in cases():
        n += 1
        why = run(case)
        if why:
            return {"found": True, "input": case, "observed": {"clause": "C04 an order is accepted only when submitted by its owner: " + why}, "witness_key": "spoof|" + case["who"], "cases": n}
    return {"found": False, "cases": n}


def replay(inp):
    why = run(inp)
    return {"violated": bool(why), "clause": why}
