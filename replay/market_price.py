"""witness search for Market._update_market_price (C08): random single-market histories under the run-time contract"""
from . import drivers

INSTALL = ["market_price"]


def _run(seed):
    drivers.market_history(seed)


def search(seed, tier, obligation, hints):
    n = 3000 if tier == "quick" else 30000
    return drivers.search_seeds(INSTALL, _run, range(seed * 100000, seed * 100000 + n), {"driver": "market_history"})


def replay(inp):
    return drivers.replay_seed(INSTALL, _run, inp["seed"])
