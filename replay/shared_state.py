"""witness search for state shared between runs or instances (task effects:no-shared-mutable-state): whole runs with the built-in events (rule instances created one after the
other in one process), the configuration cases (class lookup with changing registries) and the double-run determinism comparison"""
from . import config, events


def check_savers(seed):
    """two runs of one configuration and seed in one process, each with its own MarketStepSaver: the second saver holds exactly what the first one held"""
    import contextlib, copy, io, random
    from pams.logs.market_step_loggers import MarketStepSaver
    from pams.runners import SequentialRunner
    from . import sim
    cfg = sim.make_cfg(random.Random(seed), events=(), long_steps=False)
    recs = []
    for _ in range(2):
        saver = MarketStepSaver()
        r = SequentialRunner(settings=copy.deepcopy(cfg), prng=random.Random(seed), logger=saver)
        for c in (sim.RandAgent, sim.RandHFT, sim.Probe):
            r.class_register(c)
        with contextlib.redirect_stdout(io.StringIO()):
            r.main()
        recs.append([dict(x) for x in saver.market_step_logs])
    if recs[0] != recs[1]:
        return f"MarketStepSaver of the second run holds {len(recs[1])} records, the first run's saver held {len(recs[0])} (same configuration and seed)"
    return None


def search(seed, tier, obligation, hints):
    cases = 0
    for sd in range(3 if tier == "quick" else 20):
        cases += 1
        why = check_savers(sd)
        if why:
            return {"found": True, "input": {"savers": sd}, "observed": {"clause": why}, "witness_key": "shared_state|savers", "cases": cases}
    for mod, tag in ((events, "events"), (config, "config")):
        r = mod.search(seed, tier, "", hints)
        cases += r.get("cases", 0)
        if r.get("found"):
            r["input"] = {tag: r["input"]}
            r["cases"] = cases
            return r
    return {"found": False, "cases": cases}


def replay(inp):
    if "savers" in inp:
        why = check_savers(inp["savers"])
        return {"violated": bool(why), "clause": why}
    if "events" in inp:
        return events.replay(inp["events"])
    return config.replay(inp["config"])
