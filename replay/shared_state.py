"""witness search for state shared between runs or instances (task effects:no-shared-mutable-state): whole runs with the built-in events (rule instances created one after the
other in one process), the configuration cases (class lookup with changing registries) and the double-run determinism comparison"""
from . import config, events


def search(seed, tier, obligation, hints):
    cases = 0
    for mod, tag in ((events, "events"), (config, "config")):
        r = mod.search(seed, tier, "", hints)
        cases += r.get("cases", 0)
        if r.get("found"):
            r["input"] = {tag: r["input"]}
            r["cases"] = cases
            return r
    return {"found": False, "cases": cases}


def replay(inp):
    if "events" in inp:
        return events.replay(inp["events"])
    return config.replay(inp["config"])
