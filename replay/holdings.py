"""witness search for holdings (C05): whole runs, see whole_run.py"""
from .whole_run import search, replay      # noqa
