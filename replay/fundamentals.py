"""bounded stand-in / witness search for Fundamentals (C12): the assumed contract of _generate_next, the zero-volatility path, the covariance algebra of _generate_log_return
(generator replaced by a recording stub), history preservation under parameter changes -- seeded small scopes on the REAL class (numpy/scipy as installed)."""
import math
import random

import numpy as np

from pams.fundamentals import Fundamentals


class StubNp:
    def __init__(self, seed):
        self.rng = np.random.default_rng(seed); self.last = None

    def standard_normal(self, size):
        self.last = self.rng.standard_normal(size=size)
        return self.last


def check_generate_next(seed):
    rng = random.Random(seed)
    f = Fundamentals(prng=random.Random(seed))
    f._generate_chunk_size = rng.choice([3, 5, 100])
    n = rng.randint(1, 4)
    for m in range(n):
        f.add_market(market_id=m, initial=rng.choice([50.0, 300.0]), drift=rng.choice([0.0, 0.001]), volatility=rng.choice([0.0, 0.01, 0.02]), start_at=(0 if m == 0 else rng.choice([0, 0, 2])))
    vols = [m for m in range(n) if f.volatilities[m] != 0.0]
    if len(vols) >= 2 and rng.random() < 0.7:
        a, b = rng.sample(vols, 2)
        f.set_correlation(a, b, rng.choice([0.5, -0.4]))
    for step in range(rng.randint(1, 6)):
        g = f._generated_until
        before = {m: list(f.prices[m]) for m in f.prices}
        r = rng.random()
        if r < 0.6:
            t = g + rng.randint(0, 7)
            m = rng.randrange(n)
            v = f.get_fundamental_price(market_id=m, time=t)
            if f._generated_until <= t or v != f.prices[m][t]:
                return "get_fundamental_price: path does not cover the requested time / wrong value"
        else:
            t = rng.randint(0, min(len(p) for p in f.prices.values()) - 1)
            if r >= 0.9 and n >= 2:
                # a correlation set (or removed) later in the run, also at time 0 / with the time omitted: later values must be regenerated from that time on
                a, b = rng.sample(range(n), 2)
                if rng.random() < 0.5:
                    t = 0
                    if rng.random() < 0.5:
                        f.set_correlation(a, b, rng.choice([0.5, -0.4]))
                    else:
                        f.set_correlation(a, b, rng.choice([0.5, -0.4]), time=0)
                elif (a, b) in f.correlation or (b, a) in f.correlation:
                    f.remove_correlation(a, b, time=t)
                else:
                    f.set_correlation(a, b, rng.choice([0.5, -0.4]), time=t)
            elif r < 0.8:
                f.change_volatility(market_id=rng.randrange(n), volatility=rng.choice([0.0, 0.03]), time=t)
            else:
                f.change_drift(market_id=rng.randrange(n), drift=rng.choice([0.0, -0.002]), time=t)
            if f._generated_until != t:
                return "setter: regeneration point not moved to the given time"
            g = min(g, t)
        for m, old in before.items():
            keep = min(g, len(old) - 1)
            if f.prices[m][:keep + 1] != old[:keep + 1]:
                return f"values at times up to the regeneration point {g} changed for market {m}"
            if any(not (p > 0) for p in f.prices[m]):
                return "non-positive fundamental price"
            if len(f.prices[m]) < f._generated_until + 1:
                return "a path is shorter than the regeneration point"
    return None


def check_zero_vol(seed):
    rng = random.Random(seed)
    f = Fundamentals(prng=random.Random(seed)); f._generate_chunk_size = rng.choice([4, 100])
    init, drift = rng.choice([100.0, 250.0]), rng.choice([0.0, 0.001, -0.002])
    f.add_market(0, initial=init, drift=drift, volatility=0.0)
    f.add_market(1, initial=10.0, drift=0.0, volatility=0.02)
    for t in (0, 1, 5, 9, 120):
        v = f.get_fundamental_price(0, t)
        if abs(v - init * math.exp(drift * t)) > 1e-9 * init:
            return f"zero-volatility path: value {v} at t={t}, expected initial x exp(drift x t) = {init * math.exp(drift * t)}"
    return None


def check_covariance(seed):
    rng = random.Random(seed)
    f = Fundamentals(prng=random.Random(seed))
    n = rng.randint(2, 4)
    vols = [rng.choice([0.01, 0.02, 0.05]) for _ in range(n)]
    drifts = [rng.choice([0.0, 0.001]) for _ in range(n)]
    for m in range(n):
        f.add_market(m, initial=100.0, drift=drifts[m], volatility=vols[m])
    C = np.eye(n)
    pairs = [(a, b) for a in range(n) for b in range(a + 1, n)]
    for a, b in pairs:
        if rng.random() < 0.7:
            c = rng.choice([0.3, -0.3, 0.6])
            if rng.random() < 0.5:
                f.set_correlation(a, b, c)
            else:
                f.set_correlation(b, a, c)         # pair given in reverse market order
            C[a, b] = C[b, a] = c
    try:
        np.linalg.cholesky(C)
    except np.linalg.LinAlgError:
        return None
    if seed % 3 == 0:
        # a market's volatility (or drift) is switched off and on again later (user events do this): the configured correlations are parameters of their own and stay
        m0 = rng.randrange(n)
        f.change_volatility(m0, 0.0, 0)
        f.change_drift(m0, drifts[m0], 0)
        f.change_volatility(m0, vols[m0], 0)
    stub = StubNp(seed); f._np_prng = stub
    ids = list(range(n)); length = 5
    out = f._generate_log_return(generate_target_ids=ids, length=length)
    cov = np.diag(vols) @ C @ np.diag(vols)
    L = np.linalg.cholesky(cov)
    exp = L @ stub.last + np.asarray(drifts).reshape(-1, 1)
    if out.shape != exp.shape or not np.allclose(out, exp, rtol=1e-9, atol=1e-12):
        return f"log-returns are not L.Z + drift with L.L^T = diag(vol).C.diag(vol) for the configured correlations {dict(f.correlation)}"
    # a correlation that already exists is given another value (or a volatility another value) after a chunk has been generated: the next chunk follows the NEW parameters
    # (round 11: a factor kept across chunks under a key that names the correlated pairs but not their values)
    set_pairs = [(a, b) for a, b in pairs if C[a, b] != 0.0]
    for rnd in range(2):
        if set_pairs and rng.random() < 0.8:
            a, b = rng.choice(set_pairs)
            c2 = rng.choice([c for c in (0.3, -0.3, 0.6, -0.5) if c != C[a, b]])
            C2 = C.copy(); C2[a, b] = C2[b, a] = c2
            try:
                np.linalg.cholesky(C2)
            except np.linalg.LinAlgError:
                continue
            C = C2
            if rng.random() < 0.5:
                f.set_correlation(a, b, c2, time=length)
            else:
                f.set_correlation(b, a, c2, time=length)
        else:
            m1 = rng.randrange(n)
            vols[m1] = rng.choice([v for v in (0.01, 0.02, 0.05) if v != vols[m1]])
            f.change_volatility(m1, vols[m1], length)
        stub = StubNp(seed + 1000 + rnd); f._np_prng = stub
        out = f._generate_log_return(generate_target_ids=ids, length=length)
        L = np.linalg.cholesky(np.diag(vols) @ C @ np.diag(vols))
        exp = L @ stub.last + np.asarray(drifts).reshape(-1, 1)
        if out.shape != exp.shape or not np.allclose(out, exp, rtol=1e-9, atol=1e-12):
            return (f"after a parameter was given a new value (chunk {rnd + 2}) the log-returns are not L.Z + drift with L.L^T = diag(vol).C.diag(vol) for the "
                    f"CURRENT correlations {dict(f.correlation)} and volatilities {vols}")
    return None


def check_shock_continues(seed):
    """C12: shocking a price at time t never alters values before t, and later values continue from the changed level
    (zero volatility: exactly new level x exp(drift x (s - t)); positive volatility: the same generator draws scaled by the level ratio)"""
    rng = random.Random(seed)
    chunk = rng.choice([3, 5, 100])
    init, drift = rng.choice([100.0, 300.0]), rng.choice([0.0, 0.001, -0.002])
    start = rng.choice([0, 0, 2])
    t = start + rng.choice([0, 0, 1, 3, 7])           # includes a shock at the market's very first step
    scale = rng.choice([0.9, 1.25])
    horizon = t + rng.randint(1, 9)

    def build(vol):
        f = Fundamentals(prng=random.Random(seed)); f._generate_chunk_size = chunk
        f.add_market(0, initial=50.0, drift=0.0, volatility=0.0)
        f.add_market(1, initial=init, drift=drift, volatility=vol, start_at=start)
        return f
    f = build(0.0)
    before = [f.get_fundamental_price(1, s) for s in range(t + 1)]
    new_level = before[t] * scale
    f.prices[1][t] = new_level; f._generated_until = t          # what Market.change_fundamental_price does
    for s in range(t, horizon + 1):
        v = f.get_fundamental_price(1, s)
        want = new_level * math.exp(drift * (s - t))
        if abs(v - want) > 1e-9 * want:
            return f"shock x{scale} at t={t} (market starts at {start}): value at time {s} is {v}, expected the changed level continued: {want}"
    for s in range(t):
        if f.get_fundamental_price(1, s) != before[s]:
            return f"shock at t={t}: value at the earlier time {s} changed"
    return None


def check_market_shock(seed):
    """the same clause through the real Market.change_fundamental_price and the simulator's clock: after a shock at time t the recorded
    fundamental values continue from the changed level across generator chunk boundaries; values recorded before t are unchanged"""
    from pams.market import Market
    from pams.simulator import Simulator
    rng = random.Random(seed)
    sim = Simulator(prng=random.Random(seed))
    sim.fundamentals._generate_chunk_size = rng.choice([3, 5, 100])
    init, drift = rng.choice([100.0, 300.0]), rng.choice([0.0, 0.001, -0.002])
    m = Market(market_id=0, prng=random.Random(1), simulator=sim, name="m")
    m.setup({"tickSize": 1.0, "marketPrice": init, "fundamentalPrice": init, "fundamentalDrift": drift, "fundamentalVolatility": 0.0})
    sim._add_market(m)
    sim.fundamentals.add_market(market_id=0, initial=init, drift=drift, volatility=0.0)       # as SequentialRunner._generate_markets does
    t = rng.choice([0, 0, 1, 2, 4, 7]); scale = rng.choice([0.9, 1.25]); window = rng.choice([1, 1, 2])
    horizon = t + window + rng.randint(1, 9)
    level = None; seen = {}
    for step in range(horizon + 1):
        sim._update_time_on_market(m)
        now = m.get_time()
        if t <= now < t + window:
            m.change_fundamental_price(scale)
            level = (m.get_fundamental_price() , now)
        seen[now] = m.get_fundamental_price()
        if level is not None and now >= level[1]:
            want = level[0] * math.exp(drift * (now - level[1]))
            if abs(seen[now] - want) > 1e-9 * want:
                return f"shock x{scale} at t={level[1]}: fundamental value at time {now} is {seen[now]}, expected the changed level continued: {want}"
        for q, v in seen.items():
            if q < now and m.get_fundamental_price(q) != v and not (t <= q < t + window):
                return f"the value recorded for the earlier time {q} changed"
    return None


CHECKS = [("generate_next contract", check_generate_next), ("shock continues from the changed level", check_shock_continues), ("shock through Market.change_fundamental_price", check_market_shock), ("zero-volatility path", check_zero_vol), ("covariance algebra", check_covariance)]


def search(seed, tier, obligation, hints):
    n = 150 if tier == "quick" else 3000
    cases = 0
    for name, chk in CHECKS:
        for sd in range(seed * 100000, seed * 100000 + n):
            cases += 1
            try:
                why = chk(sd)
            except Exception as e:      # noqa -- the generator is driven with valid configurations only: an exception is a failure of the code under test
                import traceback
                tb = traceback.extract_tb(e.__traceback__)
                where = next((f"{fr.filename.split('/')[-1]}:{fr.lineno}" for fr in reversed(tb) if "/pams/" in fr.filename), "?")
                why = f"a valid configuration makes the generator raise {type(e).__name__}({e}) at {where}"
            if why:
                return {"found": True, "input": {"check": name, "seed": sd}, "observed": {"function": "Fundamentals", "clause": why}, "witness_key": "Fundamentals|" + name, "cases": cases}
    if obligation and obligation.startswith("Market.change_fundamental_price"):
        # the shock also acts inside whole runs with the built-in events
        from . import events
        r2 = events.search(seed, tier, "", hints)
        if r2.get("found"):
            r2["input"] = {"events": r2["input"]}
            return r2
        cases += r2.get("cases", 0)
    return {"found": False, "cases": cases}


def replay(inp):
    if "events" in inp:
        from . import events
        return events.replay(inp["events"])
    try:
        why = dict(CHECKS)[inp["check"]](inp["seed"])
    except Exception as e:      # noqa
        why = f"raises {type(e).__name__}({e})"
    return {"violated": bool(why), "clause": why}
