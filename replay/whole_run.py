"""witness search on whole runs (C04, C05, C06, C09, C10, C11, C13, C17): random configurations with scripted agents, a probe event and a recording logger on the REAL runner;
run-level clauses of the properties are evaluated on the recorded history."""
import collections
import random

from pams.index_market import IndexMarket

from . import drivers, monitors, sim


class RunViolation(monitors.ContractViolation):
    pass


def V_(fn, clause, details=None):
    return monitors.ContractViolation(fn, clause, details)


def check_run(r, cfg):
    EV = sim.EV
    s = r.simulator
    R = "SequentialRunner"
    # ---- C05 conservation and fold
    cash = {a.agent_id: 1000.0 for a in s.agents}
    shares = {(a.agent_id, m): 10 for a in s.agents for m in a.asset_volumes}
    fills = [e[1] for e in EV if e[0] == "L_exe"]
    for l in fills:
        cash[l.buy_agent_id] -= l.price * l.volume; cash[l.sell_agent_id] += l.price * l.volume
        shares[(l.buy_agent_id, l.market_id)] += l.volume; shares[(l.sell_agent_id, l.market_id)] -= l.volume
    for a in s.agents:
        if abs(a.cash_amount - cash[a.agent_id]) > 1e-6:
            raise V_("Simulator._update_agents_for_execution", "C05 every agent's cash = endowment folded with the fills", (a.agent_id, a.cash_amount, cash[a.agent_id]))
        for m, v in a.asset_volumes.items():
            if v != shares[(a.agent_id, m)]:
                raise V_("Simulator._update_agents_for_execution", "C05 every agent's per-market position = endowment folded with the fills", (a.agent_id, m, v, shares[(a.agent_id, m)]))
    # ---- C10 every record exactly once (pams objects: identity)
    cnt = collections.Counter(id(e[1]) for e in EV if e[0] in ("L_ord", "L_can", "L_exe", "L_exp"))
    if any(c != 1 for c in cnt.values()):
        raise V_("Market", "C10 every order / cancel / fill / expiry record is delivered exactly once", dict(collections.Counter(cnt.values())))
    ords = [e[1] for e in EV if e[0] == "L_ord"]; cans = [e[1] for e in EV if e[0] == "L_can"]; exps = [e[1] for e in EV if e[0] == "L_exp"]
    # ---- C10 in order: the order / cancel / fill records reach the logger in the order in which the events happened (the agents' callbacks are synchronous and
    #      name the same record objects: the first callback of a record marks when it happened)
    first_cb = {}
    for i_, e in enumerate(EV):
        if e[0] in ("cb_sub", "cb_can", "cb_exe"):
            first_cb.setdefault(id(e[2]), i_)
    delivered = [first_cb[id(e[1])] for e in EV if e[0] in ("L_ord", "L_can", "L_exe") and id(e[1]) in first_cb]
    if delivered != sorted(delivered):
        k_ = next(i_ for i_ in range(1, len(delivered)) if delivered[i_] < delivered[i_ - 1])
        raise V_("Logger._process", "C10 order, cancel and fill records are delivered in the order in which the events happened", dict(position=k_))
    # ---- C11 callbacks
    sub = collections.Counter(id(e[2]) for e in EV if e[0] == "cb_sub")
    if any(sub[id(l)] != 1 for l in ords) or len(sub) != len(ords) or any(e[2].agent_id != e[1] for e in EV if e[0] == "cb_sub"):
        raise V_(R + "._handle_orders", "C11 the owning agent is notified exactly once of each accepted order")
    can = collections.Counter(id(e[2]) for e in EV if e[0] == "cb_can")
    if any(can[id(l)] != 1 for l in cans) or len(can) != len(cans) or any(e[2].agent_id != e[1] for e in EV if e[0] == "cb_can"):
        raise V_(R + "._handle_orders", "C11 the owning agent is notified exactly once of each accepted cancel")
    exe_cb = collections.defaultdict(list)
    for e in EV:
        if e[0] == "cb_exe":
            exe_cb[id(e[2])].append(e[1])
    for l in fills:
        if sorted(exe_cb[id(l)]) != sorted([l.buy_agent_id, l.sell_agent_id]):
            raise V_(R + "._handle_orders", "C11 buyer and seller of each fill are each notified exactly once", (exe_cb[id(l)], l.buy_agent_id, l.sell_agent_id))
    if set(exe_cb) - {id(l) for l in fills}:
        raise V_(R + "._handle_orders", "C11 no notification without a fill")
    # holdings as seen inside executed_order: a maximal run of consecutive fill notifications is one matching round; at every notification of the
    # round the notified agent's holdings already include every fill of that round (and nothing else has changed them since the endowment)
    cash_now = {a.agent_id: 1000.0 for a in s.agents}; sh_now = {(a.agent_id, m): 10 for a in s.agents for m in a.asset_volumes}
    i = 0
    while i < len(EV):
        if EV[i][0] != "cb_exe":
            i += 1; continue
        j = i
        while j < len(EV) and EV[j][0] in ("cb_exe", "h_ae"):      # after-execution hooks run between the notifications of one round
            j += 1
        round_logs = []
        for e in EV[i:j]:
            if e[0] == "cb_exe" and not any(e[2] is l for l in round_logs):
                round_logs.append(e[2])
        for l in round_logs:
            cash_now[l.buy_agent_id] -= l.price * l.volume; cash_now[l.sell_agent_id] += l.price * l.volume
            sh_now[(l.buy_agent_id, l.market_id)] += l.volume; sh_now[(l.sell_agent_id, l.market_id)] -= l.volume
        for e in EV[i:j]:
            if e[0] != "cb_exe":
                continue
            aid = e[1]
            if abs(e[3] - cash_now[aid]) > 1e-6 or any(v != sh_now[(aid, m)] for m, v in e[4].items()):
                raise V_(R + "._handle_orders", "C11 / C05 a party is notified of a fill after holdings have been updated for the whole matching round",
                         dict(agent=aid, cash_seen=e[3], cash_expected=cash_now[aid], shares_seen=e[4], shares_expected={m: sh_now[(aid, m)] for m in e[4]}))
        i = j
    # ---- C13 probe hooks (registered for all times)
    if "Probe" in [x for ses in cfg["simulation"]["sessions"] for x in ses.get("events", [])]:
        if collections.Counter(id(e[1]) for e in EV if e[0] == "h_ao") != collections.Counter(id(l) for l in ords):
            raise V_("Simulator._trigger_event_after_order", "C13 after-order hook exactly once per accepted order")
        for b_, a_, fnm, what in (("h_bo", "h_ao", "Simulator._trigger_event_before_order", "order"), ("h_bc", "h_ac", "Simulator._trigger_event_before_cancel", "cancel")):
            seq = [e[0] for e in EV if e[0] in (b_, a_)]
            if seq != [b_, a_] * (len(seq) // 2) or len(seq) % 2:
                raise V_(fnm, f"C13 before-{what} hook exactly once before each accepted {what} (normal and high-frequency agents alike), after-{what} hook right after it", seq[:12])
        early = [e for e in EV if e[0] == "h_bo" and (e[2] is not None or e[3] is not None)]
        if early:
            raise V_("Simulator._trigger_event_before_order", "C13 the before-order hook fires BEFORE the order is accepted (it may still rewrite the order): the order has no acceptance time or id yet",
                     dict(placed_at=early[0][2], order_id=early[0][3]))
        if collections.Counter(id(e[1]) for e in EV if e[0] == "h_ac") != collections.Counter(id(l) for l in cans):
            raise V_("Simulator._trigger_event_after_cancel", "C13 after-cancel hook exactly once per accepted cancel")
        if collections.Counter(id(e[1]) for e in EV if e[0] == "h_ae") != collections.Counter(id(l) for l in fills):
            raise V_("Simulator._trigger_event_after_execution", "C13 after-execution hook exactly once per fill")
        nsteps = sum(ses.iteration_steps for ses in s.sessions)
        for m in s.markets:
            for tag in ("h_bm", "h_am"):
                if [e[2] for e in EV if e[0] == tag and e[1] == m.market_id] != list(range(nsteps)):
                    raise V_("Simulator._trigger_event_before_step_for_market", "C13 market-step hooks exactly once per market and step, in time order", (tag, m.market_id))
    # ---- C10 one session-begin and one session-end record per configured session, in session order (also for a session of zero steps)
    want_ses = [x for ses in s.sessions for x in (("L_sesb", ses.session_id), ("L_sese", ses.session_id))]
    got_ses = [(e[0], e[1]) for e in EV if e[0] in ("L_sesb", "L_sese")]
    if got_ses != want_ses:
        raise V_(R + "._run", "C10 exactly one session-begin and one session-end record per configured session, in order", dict(got=got_ses[:8], expected=want_ses[:8]))
    # ---- C06 clock and sessions
    nsteps = sum(ses.iteration_steps for ses in s.sessions)
    start = 0
    for ses in s.sessions:
        if ses.session_start_time != start:
            raise V_(R + "._generate_sessions", "C06 each session starts where the previous one ended", (ses.session_id, ses.session_start_time, start))
        start += ses.iteration_steps
    for m in s.markets:
        if m.get_time() != nsteps:
            raise V_(R + "._run", "C06 all markets share one clock that advances by one per step", (m.market_id, m.get_time(), nsteps))
        sb = [e[2] for e in EV if e[0] == "L_sb" and e[1] == m.market_id]
        if sb != list(range(nsteps)):
            raise V_(R + "._iterate_market_updates", "C10 a step-begin record per market and step", (m.market_id, len(sb), nsteps))
    # ---- C04 accounting per order
    acc = {(l.market_id, l.order_id): l.volume for l in ords}
    if len(acc) != len(ords):
        raise V_("Market._add_order", "C04 an order is accepted at most once (ids unique per market)")
    fsum = collections.Counter()
    for l in fills:
        fsum[(l.market_id, l.buy_order_id)] += l.volume; fsum[(l.market_id, l.sell_order_id)] += l.volume
    term = {}; term_time = {}
    for e in EV:
        if e[0] in ("L_can", "L_exp"):
            k = (e[1].market_id, e[1].order_id)
            term.setdefault(k, e[1].volume); term_time.setdefault(k, e[1].cancel_time if e[0] == "L_can" else e[1].time)
    rest = {}
    for m in s.markets:
        for o in m.buy_order_book.priority_queue + m.sell_order_book.priority_queue:
            rest[(m.market_id, o.order_id)] = o.volume
            if o.volume <= 0:
                raise V_("OrderBook", "C04 resting orders have positive volume")
    byk = {(l.market_id, l.order_id): l for l in ords}
    for k, v in acc.items():
        t = term.get(k, rest.get(k, 0))
        if v != fsum[k] + t:
            raise V_("Market", "C04 accepted volume = fills + volume at the first terminal event or still resting", (k, v, fsum[k], t))
        if k in term and k in rest:
            raise V_("OrderBook", "C04 an order does not rest after its cancellation or expiry", k)
    for l in fills:
        for oid in (l.buy_order_id, l.sell_order_id):
            ol = byk[(l.market_id, oid)]
            if ol.ttl is not None and l.time > ol.time + ol.ttl:
                raise V_("OrderBook._check_expired_orders", "C04 no fill later than acceptance time + ttl", (l.time, ol.time, ol.ttl))
            k = (l.market_id, oid)
            if k in term_time and any(e[0] == "L_can" and (e[1].market_id, e[1].order_id) == k for e in EV) and l.time > term_time[k]:
                raise V_("OrderBook.cancel", "C04 no fill after cancellation", k)
    for e in exps:
        ol = byk[(e.market_id, e.order_id)]
        if e.time != ol.time + ol.ttl + 1:
            raise V_("OrderBook._check_expired_orders", "C04 an order leaves the book exactly when the clock passes acceptance time + ttl", (e.time, ol.time, ol.ttl))
    # ---- C09 gates and caps
    t0 = 0
    for ses in s.sessions:
        lo, hi = t0, t0 + ses.iteration_steps
        conf = cfg["simulation"]["sessions"][ses.session_id]
        halted = any(x in ("Halt",) for x in conf.get("events", []))
        if not conf["withOrderPlacement"]:
            if any(e[0] == "consult" and lo <= e[2] < hi for e in EV) or any(lo <= l.time < hi for l in ords):
                raise V_(R + "._iterate_market_updates", "C09 in a session without order placement no agent is asked for orders and none is accepted", ses.session_id)
        if not conf["withOrderExecution"] and any(lo <= l.time < hi for l in fills):
            raise V_(R + "._handle_orders", "C09 in a session without order execution no fill occurs", ses.session_id)
        for t in range(lo, hi):
            per_agent = collections.Counter(e[1] for e in EV if e[0] == "consult" and e[2] == t and not isinstance(s.id2agent[e[1]], sim.RandHFT))
            if per_agent and max(per_agent.values()) > 1:
                raise V_(R + "._collect_orders_from_normal_agents", "C09 every normal agent is consulted at most once per step", (t, dict(per_agent)))
        # caps: per step, normal agents are consulted only while fewer than maxNormalOrders of them have produced orders; after each
        # producing normal agent, high-frequency agents are consulted only while fewer than maxHighFrequencyOrders of them have produced
        cap_n, cap_h = conf.get("maxNormalOrders", ses.max_normal_orders), conf.get("maxHighFrequencyOrders", ses.max_high_frequency_orders)      # the CONFIGURED caps
        n_hft = len(s.high_frequency_agents)
        always = ses.high_frequency_submission_rate >= 1.0

        def batch_done(t_, consulted_h_, produced_h_):
            # after a batch, with submission probability 1, the high-frequency agents are consulted until the cap is reached or all of them have been asked
            if always and ses.with_order_placement and consulted_h_ is not None and not (produced_h_ >= cap_h or consulted_h_ >= n_hft):
                raise V_(R + "._handle_orders", "C09 after each accepted batch the high-frequency agents are consulted until maxHighFrequencyOrders of them have produced orders (or all were asked)",
                         dict(step=t_, cap=cap_h, produced=produced_h_, consulted=consulted_h_, hft_agents=n_hft))
        for t in range(lo, hi):
            produced_n = 0; produced_h = 0; consulted_h = 0; cur = None      # cur: the normal agent whose batch is being handled (one batch per agent and step)
            for e in EV:
                if e[0] in ("cb_sub", "cb_can"):        # agent callbacks are synchronous (logger records may be delivered later)
                    et = e[2].time if e[0] == "cb_sub" else e[2].cancel_time
                    if et == t and not isinstance(s.id2agent[e[1]], sim.RandHFT) and e[1] != cur:
                        if cur is not None:
                            batch_done(t, consulted_h, produced_h)
                        cur = e[1]; produced_h = 0; consulted_h = 0
                    continue
                if e[0] not in ("consult", "produced") or e[2] != t:
                    continue
                hft = isinstance(s.id2agent[e[1]], sim.RandHFT)
                if e[0] == "consult":
                    if not hft:
                        if produced_n >= cap_n:
                            raise V_(R + "._collect_orders_from_normal_agents", "C09 a normal agent is consulted only while fewer than maxNormalOrders agents have produced orders in this step", (t, cap_n, produced_n))
                    else:
                        if produced_n == 0:
                            raise V_(R + "._update_markets", "C09 high-frequency agents are consulted only after the batch of a normal agent has been handled (no batch in this step so far)", dict(step=t, agent=e[1]))
                        if produced_h >= cap_h:
                            raise V_(R + "._handle_orders", "C09 a high-frequency agent is consulted only while fewer than maxHighFrequencyOrders of them have produced orders after this batch", (t, cap_h, produced_h))
                        consulted_h += 1
                elif hft:
                    produced_h += 1
                else:
                    produced_n += 1
            if cur is not None:
                batch_done(t, consulted_h, produced_h)
        t0 = hi
    # ---- C17 index
    for m in s.markets:
        if isinstance(m, IndexMarket):
            for t in (0, nsteps // 2, nsteps):
                comps = m.get_components()
                tot = sum(c.outstanding_shares for c in comps)
                w = sum(c.get_market_price(t) * c.outstanding_shares for c in comps) / tot
                if abs(m.get_index(t) - w) > 1e-9 * max(1, abs(w)):
                    raise V_("IndexMarket.compute_market_index", "C17 index = share-weighted average of the components' market prices", (t, m.get_index(t), w))
                wf = sum(c.get_fundamental_price(t) * c.outstanding_shares for c in comps) / tot
                shocked = any("FShock" in ses.get("events", []) for ses in cfg["simulation"]["sessions"])     # a later shock rewrites a component's value for t; the index recorded the earlier one
                if not shocked and abs(m.get_fundamental_price(t) - wf) > 1e-9 * max(1, abs(wf)):
                    raise V_("Simulator._update_time_on_market", "C17 recorded index fundamental = weighted average of the components' fundamentals for that time", (t,))


def _run(seed):
    rng = random.Random(seed)
    events = ["Probe"] + [e for e in ("PriceLimit", "Halt", "Mistake", "FShock") if rng.random() < 0.25]
    if seed % 3 == 2:
        events = events[1:] + events[:1]      # the probe is not always the first event registered for an occasion: every hook of a bucket must fire, not only the first
    r, cfg = sim.run_seed(seed, events=tuple(events), long_steps=(seed % 7 == 0))
    check_run(r, cfg)
    if seed % 4 == 1:
        check_run_without_logger(cfg, seed)


def check_run_without_logger(cfg, seed):
    """the same configuration on a runner built WITHOUT a logger: the hooks of the probe event must fire at the same occasions (C13 does not depend on logging)"""
    with_logger = [e[:1] + tuple(e[1:2] if e[0] in ("h_bm", "h_am", "h_bs", "h_as") else ()) + tuple(e[2:3] if e[0] in ("h_bm", "h_am") else ()) for e in sim.EV if e[0].startswith("h_")]
    with_cb = [(e[0], e[1]) + ((e[3], tuple(sorted(e[4].items()))) if e[0] == "cb_exe" else ()) for e in sim.EV if e[0].startswith("cb_")]
    r2 = sim.run_cfg(cfg, seed, logger=None)
    without_cb = [(e[0], e[1]) + ((e[3], tuple(sorted(e[4].items()))) if e[0] == "cb_exe" else ()) for e in sim.EV if e[0].startswith("cb_")]
    if with_cb != without_cb:
        raise V_("SequentialRunner._run", "C07 the agents' notifications and holdings do not depend on whether a logger is attached", dict(with_logger=len(with_cb), without_logger=len(without_cb)))
    without = [e[:1] + tuple(e[1:2] if e[0] in ("h_bm", "h_am", "h_bs", "h_as") else ()) + tuple(e[2:3] if e[0] in ("h_bm", "h_am") else ()) for e in sim.EV if e[0].startswith("h_")]
    if with_logger != without:
        k = next((i for i, (a, b) in enumerate(zip(with_logger, without)) if a != b), min(len(with_logger), len(without)))
        raise V_("Simulator._trigger_event_after_step_for_market" if any(x[0] == "h_am" for x in with_logger[k:k + 1]) else "SequentialRunner._run",
                 "C13 the hooks fire at the same occasions whether or not the runner has a logger", dict(position=k, with_logger=with_logger[k:k + 3], without_logger=without[k:k + 3]))


def search(seed, tier, obligation, hints):
    n = 120 if tier == "quick" else 1500
    r = drivers.search_seeds([], _run, range(seed * 100000, seed * 100000 + n), {"driver": "whole runs (sim.run_seed) with run-level clauses"})
    if r.get("found"):
        return r
    # batches that mix own and foreign orders (the scripted agents of the random runs never spoof)
    from . import spoof
    r2 = spoof.search(seed, tier, obligation, hints)
    if r2.get("found"):
        r2["input"] = {"spoof": r2["input"]}
        return r2
    r["cases"] = r.get("cases", 0) + r2.get("cases", 0)
    return r


def replay(inp):
    if "spoof" in inp:
        from . import spoof
        return spoof.replay(inp["spoof"])
    return drivers.replay_seed([], _run, inp["seed"])
