"""witness search for the matching round (C01-C04, C10 fills): random histories, continuous and accumulated (crossed) books, incl. market orders on both tops"""
import random

from pams.order import LIMIT_ORDER, MARKET_ORDER, Cancel, Order

from . import drivers

INSTALL = ["matching"]


def _run(seed):
    if seed % 2 == 1:
        drivers.deep_book_history(seed)
        return
    rng = random.Random(seed)
    fine = seed % 8 == 2          # a fine tick grid: level * tick is not exactly representable, quotients k*tick/tick may differ from k in floating point
    tick = rng.choice([0.01, 0.1, 1e-5]) if fine else 1.0
    base = int(round(300.0 / tick)) + (rng.randint(-500, 500) if fine else 0)      # the levels whose quotient is off by one ulp are a few percent of all levels: move the window around
    m = drivers.mk_market(tick=tick, price=300.0) if fine else drivers.mk_market()
    continuous = seed % 4 == 0        # otherwise the book accumulates (possibly crossed, possibly with market orders on both tops) and is matched at the end and after clock ticks
    m._is_running = continuous
    live = []
    for step in range(rng.randint(1, 14)):
        r = rng.random()
        if r < 0.75:
            mkt = rng.random() < 0.3
            o = Order(agent_id=0, market_id=0, is_buy=rng.random() < 0.5, kind=MARKET_ORDER if mkt else LIMIT_ORDER, volume=rng.randint(1, 3),
                      price=None if mkt else (float(rng.randint(8, 12) if seed % 16 != 4 else rng.randint(-2, 2)) if not fine else (base + rng.randint(-2, 2)) * tick + rng.choice([0.0, 0.0, 0.3 * tick, -0.3 * tick])),
                      ttl=rng.choice([None, 1, 2]))
            m._add_order(o); live.append(o)
        elif r < 0.85 and live:
            o = rng.choice(live)
            if not o.is_canceled:
                m._cancel_order(Cancel(order=o))
        else:
            m._update_time(next_fundamental_price=10.0)
            if not continuous and rng.random() < 0.5:
                m.get_buy_order_book(); m.get_sell_order_book()      # a reader of the depth view (agents do this)
                m._is_running = True; m._execution(); m._is_running = False
        if continuous and r < 0.85:
            m._execution()
    m._is_running = True
    m._execution()


def search(seed, tier, obligation, hints):
    # the bounded stand-in of the quick tier samples 4000 histories; a witness search that follows a failed obligation looks further
    n = (4000 if (obligation or "").startswith("bounded:") else 20000) if tier == "quick" else 60000
    return drivers.search_seeds(INSTALL, _run, range(seed * 1000000, seed * 1000000 + n), {"driver": "matching rounds"})


def replay(inp):
    return drivers.replay_seed(INSTALL, _run, inp["seed"])
