"""Concrete drivers for the witness search: seeded random / small-scope histories on the REAL pams classes."""
import random
import traceback

from pams.logs import Logger
from pams.market import Market
from pams.order import LIMIT_ORDER
from pams.order import MARKET_ORDER
from pams.order import Cancel
from pams.order import Order

from . import monitors


class Sim:
    pass


class CountingLogger(Logger):
    def __init__(self):
        super().__init__()
        self.records = []

    def process(self, logs):
        self.records.extend(logs)

    def __len__(self):
        # a logger that is falsy while it holds nothing (loggers are objects users subclass): code that tests `if logger:` instead of `is not None` silently stops reporting
        return len(self.records)


def mk_market(tick=1.0, price=10.0, chunk=5, logger=True, market_id=0, index=False):
    if index:
        # an index market (no components needed for book events): it is a Market and accepts, rounds, matches and records orders like any other
        from pams.index_market import IndexMarket
        m = IndexMarket(market_id=market_id, prng=random.Random(0), simulator=Sim(), name=f"m{market_id}", logger=CountingLogger() if logger else None)
        m.chunk_size = chunk
        m.setup({"tickSize": tick, "marketPrice": price, "markets": []})
        m._update_time(next_fundamental_price=price)
        return m
    m = Market(market_id=market_id, prng=random.Random(0), simulator=Sim(), name=f"m{market_id}", logger=CountingLogger() if logger else None)
    m.chunk_size = chunk
    m.setup({"tickSize": tick, "marketPrice": price})
    m._update_time(next_fundamental_price=price)
    return m


def market_history(seed, max_events=40, tick=1.0, prices=(8, 12), offgrid=False, after_event=None):
    """a random single-market history: adds (limit/market, ttl), cancels, clock ticks, running toggles, a round after every book event when running"""
    rng = random.Random(seed)
    m = mk_market(tick=tick, index=(seed % 13 == 6))
    m._is_running = rng.random() < 0.6
    live = []
    events = []
    for it in range(rng.randint(3, max_events)):
        r = rng.random()
        ev = None
        if r < 0.6:
            mkt = rng.random() < 0.2
            p = None if mkt else float(rng.randint(*prices)) + (rng.choice([0.0, 0.25, 0.5, 0.78125, 0.21875, 0.03125]) if offgrid else 0.0)
            if offgrid and not mkt and rng.random() < 0.1:
                p = rng.randint(*prices)        # a Python int as limit price (users pass ints): off the grid for ticks such as 2.5
            elif offgrid and not mkt and rng.random() < 0.15:
                p = rng.choice([0.25, 0.75, 1.5, 2.0 ** -20, 10 - 2.0 ** -36, 10 + 2.0 ** -36]) * tick      # below the first grid level, and a hair off a level
            side = rng.random() < 0.5
            if seed % 11 == 5:
                import numpy as _np
                side = _np.bool_(side)          # agents that compare numpy values hand in a numpy.bool_ as side flag: truthy / falsy like a bool, but not the object `True`
            vol = rng.randint(1, 3)
            if seed % 19 == 7:
                import numpy as _np
                vol = _np.int64(vol)            # sizes computed with numpy arrive as numpy integers: integers in every respect but `type(v) is int`
            o = Order(agent_id=rng.randint(0, 2), market_id=0, is_buy=side, kind=MARKET_ORDER if mkt else LIMIT_ORDER,
                      volume=vol, price=p, ttl=rng.choice([None, 1, 2, 3]))
            ev = ("add", o.is_buy, p, o.volume, o.ttl)
            events.append(ev)
            m._add_order(o); live.append(o)
        elif r < 0.72 and live:
            o = rng.choice(live)
            if not o.is_canceled:
                ev = ("cancel", o.order_id); events.append(ev)
                m._cancel_order(Cancel(order=o))
        elif r < 0.87:
            ev = ("tick",); events.append(ev)
            m._update_time(next_fundamental_price=10.0 + it)
        else:
            ev = ("toggle",); events.append(ev)
            m._is_running = not m._is_running
        if ev and ev[0] in ("add", "cancel") and m.is_running:
            events.append(("round",))
            m._execution()
        if after_event:
            after_event(m, ev, events)
    return m, events


def search_seeds(install, run, seeds, describe, only_function=None, same_class=False):
    """run(seed) under the monitors named in `install`; first contract violation (or forbidden exception) is the witness"""
    monitors.uninstall()
    monitors.install(install)
    cases = 0
    try:
        for seed in seeds:
            cases += 1
            try:
                run(seed)
            except monitors.ContractViolation as e:
                if only_function and e.function != only_function and not (same_class and e.function.split(".")[0] == only_function.split(".")[0]):
                    continue
                return {"found": True, "input": {"seed": seed, **describe}, "observed": {"function": e.function, "clause": e.clause, "details": repr(e.details)},
                        "witness_key": f"{e.function}|{e.clause}", "cases": cases, "contract_evaluations": monitors.EVALS["n"]}
            except AssertionError as e:
                if only_function and not same_class:
                    continue        # first pass: look for a run-time contract of exactly that function; a run that pams itself aborts is accepted in the second pass
                return {"found": True, "input": {"seed": seed, **describe}, "observed": {"exception": "AssertionError", "trace": traceback.format_exc()[-700:]},
                        "witness_key": "AssertionError", "cases": cases, "contract_evaluations": monitors.EVALS["n"]}
        if only_function and not same_class:
            # no run-time contract of exactly that function fired: accept one of another method of the same class (the failed obligation may
            # belong to a helper whose effect only shows at its caller)
            monitors.uninstall()
            r = search_seeds(install, run, seeds, describe, only_function=only_function, same_class=True)
            r["cases"] = r.get("cases", 0) + cases
            return r
        return {"found": False, "cases": cases, "contract_evaluations": monitors.EVALS["n"]}
    finally:
        monitors.uninstall()


def replay_seed(install, run, seed, only_function=None):
    monitors.uninstall(); monitors.install(install)
    try:
        run(seed)
        return {"violated": False}
    except monitors.ContractViolation as e:
        if only_function and e.function.split(".")[0] != only_function.split(".")[0]:
            return {"violated": False, "other_violation": f"{e.function}: {e.clause}"}
        return {"violated": True, "function": e.function, "clause": e.clause, "details": repr(e.details)}
    except AssertionError:
        return {"violated": True, "exception": traceback.format_exc()[-700:]}
    finally:
        monitors.uninstall()


def deep_book_history(seed, after_event=None):
    """deep one-sided books with distinct and tied prices, cancels of non-best orders, expiries, then sweeping orders (limit and market): exercises heap maintenance"""
    rng = random.Random(seed)
    m = mk_market(tick=1.0, price=100.0)
    m._is_running = seed % 3 != 0
    live = []
    side = rng.random() < 0.5
    for phase in range(rng.randint(1, 3)):
        for _ in range(rng.randint(5, 12)):
            p = float(rng.randint(90, 99) if side else rng.randint(101, 110))
            o = Order(agent_id=rng.randint(0, 2), market_id=0, is_buy=side, kind=LIMIT_ORDER, volume=rng.randint(1, 2), price=p, ttl=rng.choice([None, None, 2, 4]))
            m._add_order(o); live.append(o)
            if m.is_running:
                m._execution()
        for _ in range(rng.randint(0, 3)):
            c = [o for o in live if not o.is_canceled and o.volume > 0 and o.placed_at is not None]
            if c:
                m._cancel_order(Cancel(order=rng.choice(c)))
                if m.is_running:
                    m._execution()
        if rng.random() < 0.5:
            m._update_time(next_fundamental_price=100.0)
        # sweep
        mkt = rng.random() < 0.3
        vol = rng.randint(2, 8)
        sweep = Order(agent_id=3, market_id=0, is_buy=not side, kind=MARKET_ORDER if mkt else LIMIT_ORDER, volume=vol, price=None if mkt else (float(rng.randint(88, 96)) if side else float(rng.randint(104, 112))))
        m._add_order(sweep); live.append(sweep)
        m._is_running = True
        m._execution()
        if rng.random() < 0.5:
            side = not side
    return m
