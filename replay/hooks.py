"""witness search for the hook table (C13): registration of hooks with small time lists on the real Simulator; a hook must sit at most once in every bucket"""
import itertools
import random

from pams.events import EventABC, EventHook
from pams.simulator import Simulator


class Ev(EventABC):
    def hook_registration(self):
        return []


def check(times, hook_type="order", is_before=True):
    sim = Simulator(prng=random.Random(0))
    ev = Ev(event_id=0, prng=random.Random(0), session=None, simulator=sim, name="e")
    h = EventHook(event=ev, hook_type=hook_type, is_before=is_before, time=times)
    sim._add_event(h)
    name = hook_type + ("_before" if is_before else "_after")
    want = [None] if times is None else sorted(set(times))
    table = sim.events_dict[name]
    if sorted(table.keys(), key=lambda k: (k is not None, k)) != sorted(want, key=lambda k: (k is not None, k)):
        return f"buckets {list(table.keys())}, expected {want}"
    for k, b in table.items():
        if b.count(h) != 1:
            return f"hook registered {b.count(h)} times under time {k}"
    try:
        sim._add_event(h)
        return "second registration of the same hook accepted"
    except ValueError:
        return None


# ----------------------------------------------------------------------------- dispatch: each trigger invokes exactly the matching hooks, once, with the occurrence's own time
class Rec(EventABC):
    def __init__(self, *a, **kw):
        super().__init__(*a, **kw); self.calls = []

    def hook_registration(self):
        return []

    def hooked_before_order(self, simulator, order): self.calls.append(("order", True, id(order)))
    def hooked_after_order(self, simulator, order_log): self.calls.append(("order", False, id(order_log)))
    def hooked_before_cancel(self, simulator, cancel): self.calls.append(("cancel", True, id(cancel)))
    def hooked_after_cancel(self, simulator, cancel_log): self.calls.append(("cancel", False, id(cancel_log)))
    def hooked_after_execution(self, simulator, execution_log): self.calls.append(("execution", False, id(execution_log)))
    def hooked_before_session(self, simulator, session): self.calls.append(("session", True, id(session)))
    def hooked_after_session(self, simulator, session): self.calls.append(("session", False, id(session)))
    def hooked_before_step_for_market(self, simulator, market): self.calls.append(("market", True, id(market)))
    def hooked_after_step_for_market(self, simulator, market): self.calls.append(("market", False, id(market)))


KINDS = [("order", True), ("order", False), ("cancel", True), ("cancel", False), ("execution", False), ("session", True), ("session", False), ("market", True), ("market", False)]


def check_dispatch(case):
    """hooks (kind, time list, market filter) are registered; one occurrence of `kind` happens at time `now`; the occurrence's other
    time-like fields (order placement time of a cancel, ...) are deliberately different from `now`"""
    from pams.index_market import IndexMarket
    from pams.logs import CancelLog, ExecutionLog, OrderLog
    from pams.market import Market
    from pams.order import LIMIT_ORDER, Cancel, Order
    from pams.session import Session
    kind, before, now, hooks = case["kind"], case["before"], case["now"], case["hooks"]
    sim = Simulator(prng=random.Random(0))
    m0 = Market(market_id=0, prng=random.Random(1), simulator=sim, name="m0"); m0.setup({"tickSize": 1.0, "marketPrice": 10.0})
    m1 = IndexMarket(market_id=1, prng=random.Random(1), simulator=sim, name="m1"); m1.setup({"tickSize": 1.0, "marketPrice": 10.0, "markets": []})
    sim._add_market(m0); sim._add_market(m1)
    occ_market = m1 if case.get("on_index") else m0
    for m in (m0, m1):
        m.time = now
    evs = []
    for hk, hbefore, times, flt in hooks:
        # the event's own session (the one it is listed under) starts now, earlier or LATER: hooks fire by occasion and time only, wherever the event is listed
        own = Session(session_id=100 + len(evs), prng=random.Random(0), session_start_time=(now + 4 if len(evs) % 2 else 0), simulator=sim, name=f"own{len(evs)}")
        ev = Rec(event_id=len(evs), prng=random.Random(0), session=own, simulator=sim, name=f"e{len(evs)}")
        kw = {}
        if hk == "market" and flt in ("class", "both"):
            kw["specific_class"] = IndexMarket
        if hk == "market" and flt == "both_ok":
            kw["specific_class"] = Market
        if hk == "market" and flt in ("instance", "both", "both_ok"):
            kw["specific_instance"] = m0        # "both": an instance that is NOT of the class filter -> the hook can never fire; "both_ok": a consistent pair
        sim._add_event(EventHook(event=ev, hook_type=hk, is_before=hbefore, time=times, **kw))
        evs.append((ev, hk, hbefore, times, flt))
    # several occurrences in a row on the same simulator: dispatching must not change what later occurrences see
    for now in (now, now + 1, now):
        for m in (m0, m1):
            m.time = now
        for ev, *_rest in evs:
            ev.calls = []
        other = now + 3       # a time that is NOT the occurrence's time
        order = Order(agent_id=0, market_id=occ_market.market_id, is_buy=True, kind=LIMIT_ORDER, volume=1, price=10.0, placed_at=other, order_id=7)
        if kind == "order":
            if before:
                o = Order(agent_id=0, market_id=occ_market.market_id, is_buy=True, kind=LIMIT_ORDER, volume=1, price=10.0); sim._trigger_event_before_order(o); key = id(o)
            else:
                lg = OrderLog(order_id=1, market_id=occ_market.market_id, time=now, agent_id=0, is_buy=True, kind=LIMIT_ORDER, volume=1, price=10.0, ttl=None); sim._trigger_event_after_order(lg); key = id(lg)
        elif kind == "cancel":
            if before:
                c = Cancel(order=order); sim._trigger_event_before_cancel(c); key = id(c)
            else:
                lg = CancelLog(order_id=7, market_id=occ_market.market_id, cancel_time=now, order_time=other, agent_id=0, is_buy=True, kind=LIMIT_ORDER, volume=1, price=10.0, ttl=None)
                sim._trigger_event_after_cancel(lg); key = id(lg)
        elif kind == "execution":
            lg = ExecutionLog(market_id=occ_market.market_id, time=now, buy_agent_id=0, sell_agent_id=1, buy_order_id=1, sell_order_id=2, price=10.0, volume=1)
            sim._trigger_event_after_execution(lg); key = id(lg)
        elif kind == "session":
            steps = 4
            ses = Session(session_id=0, prng=random.Random(0), session_start_time=(now if before else now - steps + 1), simulator=sim, name="s")
            ses.iteration_steps = steps
            (sim._trigger_event_before_session if before else sim._trigger_event_after_session)(ses); key = id(ses)
        else:
            (sim._trigger_event_before_step_for_market if before else sim._trigger_event_after_step_for_market)(occ_market); key = id(occ_market)
        order_seen = []
        for ev, hk, hbefore, times, flt in evs:
            match = hk == kind and hbefore == before and (times is None or now in times)
            if match and hk == "market":
                match = flt is None or (flt == "class" and isinstance(occ_market, IndexMarket)) or (flt in ("instance", "both_ok") and occ_market is m0)      # "both": never
            want = [(kind, before, key)] if match else []
            if ev.calls != want:
                return f"{kind} {'before' if before else 'after'} at time {now}: hook ({hk}, before={hbefore}, times={times}, filter={flt}) was invoked {len(ev.calls)} time(s) {ev.calls[:2]}, expected {len(want)}"
    return None


def dispatch_cases():
    tls = [None, [2], [5], [2, 5], [], [0], [0, 2]]
    for kind, before in KINDS:
        for now in (2, 5, 0):        # time 0 (the first step of the first session) is a time like any other
            for t1 in tls:
                for t2 in tls:
                    flts = [None, "class", "instance", "both", "both_ok"] if kind == "market" else [None]
                    for f1 in flts:
                        for on_index in ((False, True) if kind == "market" else (False,)):
                            other_kind = KINDS[(KINDS.index((kind, before)) + 1) % len(KINDS)]
                            hooks = [(kind, before, t1, f1), (kind, before, t2, None), (other_kind[0], other_kind[1], None, None)]
                            if kind == "market":
                                hooks.insert(1, (kind, before, None, "instance" if f1 != "instance" else "class"))
                            yield {"kind": kind, "before": before, "now": now, "hooks": hooks, "on_index": on_index}


def search(seed, tier, obligation, hints):
    r = search_registration(seed, tier, obligation, hints)
    if r.get("found"):
        return r
    cases = r.get("cases", 0)
    for case in dispatch_cases():
        cases += 1
        why = check_dispatch(case)
        if why:
            return {"found": True, "input": {"dispatch": case}, "observed": {"function": "Simulator._trigger_event_*", "clause": why}, "witness_key": "dispatch|" + case["kind"], "cases": cases}
    # whole runs with a probe event (hooks of every kind, in configurations with several sessions / markets)
    from . import whole_run
    r2 = whole_run.search(seed, tier, obligation, hints)
    if r2.get("found"):
        r2["input"] = {"whole_run": r2["input"]}
        return r2
    return {"found": False, "cases": cases + r2.get("cases", 0)}


def search_registration(seed, tier, obligation, hints):
    cases = 0
    for n in range(0, 4):
        for times in itertools.product([0, 1, 2], repeat=n):
            for tl in ([list(times)] + ([None] if n == 0 else [])):
                cases += 1
                why = check(tl)
                if why:
                    return {"found": True, "input": {"times": tl}, "observed": {"function": "Simulator._add_event", "clause": why}, "witness_key": "Simulator._add_event|multiplicity", "cases": cases}
    return {"found": False, "cases": cases}


def replay(inp):
    if "whole_run" in inp:
        from . import whole_run
        return whole_run.replay(inp["whole_run"])
    if "dispatch" in inp:
        why = check_dispatch(inp["dispatch"])
        return {"violated": bool(why), "clause": why}
    why = check(inp["times"])
    return {"violated": bool(why), "clause": why}
