"""witness search for the hook table (C13): registration of hooks with small time lists on the real Simulator; a hook must sit at most once in every bucket"""
import itertools
import random

from pams.events import EventABC, EventHook
from pams.simulator import Simulator


class Ev(EventABC):
    def hook_registration(self):
        return []


def check(times, hook_type="order", is_before=True):
    sim = Simulator(prng=random.Random(0))
    ev = Ev(event_id=0, prng=random.Random(0), session=None, simulator=sim, name="e")
    h = EventHook(event=ev, hook_type=hook_type, is_before=is_before, time=times)
    sim._add_event(h)
    name = hook_type + ("_before" if is_before else "_after")
    want = [None] if times is None else sorted(set(times))
    table = sim.events_dict[name]
    if sorted(table.keys(), key=lambda k: (k is not None, k)) != sorted(want, key=lambda k: (k is not None, k)):
        return f"buckets {list(table.keys())}, expected {want}"
    for k, b in table.items():
        if b.count(h) != 1:
            return f"hook registered {b.count(h)} times under time {k}"
    try:
        sim._add_event(h)
        return "second registration of the same hook accepted"
    except ValueError:
        return None


def search(seed, tier, obligation, hints):
    cases = 0
    for n in range(0, 4):
        for times in itertools.product([0, 1, 2], repeat=n):
            for tl in ([list(times)] + ([None] if n == 0 else [])):
                cases += 1
                why = check(tl)
                if why:
                    return {"found": True, "input": {"times": tl}, "observed": {"function": "Simulator._add_event", "clause": why}, "witness_key": "Simulator._add_event|multiplicity", "cases": cases}
    return {"found": False, "cases": cases}


def replay(inp):
    why = check(inp["times"])
    return {"violated": bool(why), "clause": why}
