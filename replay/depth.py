"""bounded stand-in for the per-price depth view (C08: "best bid/ask and per-price depth always describe the current book"):
OrderBook.get_price_volume / Market.get_buy_order_book / get_sell_order_book use set / sort / dict idioms outside the verified subset,
so they are compared with an independent oracle after every event of random single-market histories (market orders, ties, cancels, expiries)."""
from . import drivers


def oracle(book):
    vol = {}
    for o in book.priority_queue:
        vol[o.price] = vol.get(o.price, 0) + o.volume
    prices = sorted([p for p in vol if p is not None], reverse=book.is_buy)
    keys = ([None] if None in vol else []) + prices
    return [(k, vol[k]) for k in keys]


def check_market(m):
    for name, book, acc in (("buy", m.buy_order_book, m.get_buy_order_book), ("sell", m.sell_order_book, m.get_sell_order_book)):
        want = oracle(book)
        for what, got in ((f"OrderBook.get_price_volume ({name})", book.get_price_volume()), (f"Market.get_{name}_order_book", acc())):
            if list(got.items()) != want:
                return f"{what} = {list(got.items())}, the book holds {want} (price -> resting volume, best price first, market orders first)"
        best = book.get_best_price()
        top = min(book.priority_queue) if book.priority_queue else None
        if (top.price if top is not None else None) != best:
            return f"best {name} price {best} is not the price of the highest-priority resting order"
        if want and want[0][0] != best and not (best is None):
            return f"best {name} price {best} differs from the first depth level {want[0][0]}"
    return None


class Found(Exception):
    pass


def _run(seed):
    def after(m, ev=None, events=None):
        why = check_market(m)
        if why:
            raise Found(why)
    if seed % 2:
        drivers.market_history(seed, offgrid=(seed % 3 == 0), tick=(0.5 if seed % 5 == 0 else 1.0), after_event=after)
    else:
        m = drivers.deep_book_history(seed)
        after(m)


def _pams_failure(e):
    """an exception raised inside pams on one of these (valid) histories: a failure of the code under test, not of the driver"""
    import traceback
    tb = traceback.extract_tb(e.__traceback__)
    where = next((f"{fr.filename.split('/')[-1]}:{fr.lineno} in {fr.name}" for fr in reversed(tb) if "/pams/" in fr.filename), None)
    return None if where is None else f"a valid single-market history makes the market raise {type(e).__name__}({str(e)[:80]}) at {where}"


def search(seed, tier, obligation, hints):
    n = 1500 if tier == "quick" else 20000
    for i in range(seed * 1000000, seed * 1000000 + n):
        try:
            _run(i)
        except Found as e:
            return {"found": True, "input": {"seed": i, "driver": "market_history / deep_book_history + depth oracle"}, "observed": {"clause": str(e)}, "witness_key": "depth|" + str(e).split("=")[0].strip(), "cases": i - seed * 1000000 + 1}
        except Exception as e:      # noqa
            why = _pams_failure(e)
            if why is None:
                raise
            return {"found": True, "input": {"seed": i, "driver": "market_history / deep_book_history + depth oracle"}, "observed": {"clause": why}, "witness_key": "depth|raises", "cases": i - seed * 1000000 + 1}
    return {"found": False, "cases": n}


def replay(inp):
    try:
        _run(inp["seed"])
    except Found as e:
        return {"violated": True, "clause": str(e)}
    except Exception as e:      # noqa
        why = _pams_failure(e)
        if why is None:
            raise
        return {"violated": True, "clause": why}
    return {"violated": False}
