"""Run-time side of the contracts: the same clauses as /verif/specs, evaluated on live pams objects.
Installed as wrappers around the real methods only when PAMS_VERIF=1 (from /verif; /repo is not edited)."""
import functools
import math
import os

from pams.market import Market
from pams.order import LIMIT_ORDER
from pams.order import MARKET_ORDER
from pams.order_book import OrderBook


class ContractViolation(Exception):
    def __init__(self, function, clause, details=None):
        super().__init__(f"{function}: {clause} {details if details is not None else ''}")
        self.function, self.clause, self.details = function, clause, details


EVALS = {"n": 0}
_installed = []


def wrap(cls, name, pre_capture, post_check, on_raise=None):
    real = getattr(cls, name)

    @functools.wraps(real)
    def w(self, *a, **kw):
        cap = pre_capture(self, *a, **kw)
        try:
            res = real(self, *a, **kw)
        except ContractViolation:
            raise
        except Exception as e:      # noqa
            if on_raise is not None:
                EVALS["n"] += 1
                on_raise(self, cap, e, *a, **kw)
            raise
        EVALS["n"] += 1
        post_check(self, cap, res, *a, **kw)
        return res
    w.__wrapped_real__ = real
    setattr(cls, name, w)
    _installed.append((cls, name, real))


def uninstall():
    while _installed:
        cls, name, real = _installed.pop()
        setattr(cls, name, real)


def rests(book, o):
    """identity membership (Order.__eq__ refuses to compare across sides)"""
    return any(x is o for x in book.priority_queue)


def rank_key(o):
    return (0 if o.price is None else 1, 0 if o.price is None else (-o.price if o.is_buy else o.price), o.placed_at, o.order_id)


def best(book):
    return min(book.priority_queue, key=rank_key) if book.priority_queue else None


# ----------------------------------------------------------------------------- Market._update_market_price (C08)
def ump_pre(m):
    t = m.time
    bb, bs = best(m.buy_order_book), best(m.sell_order_book)
    return dict(t=t, mp=list(m._market_prices), mid=list(m._mid_prices), le=m._last_executed_prices[t], running=m._is_running,
                bb=None if bb is None else bb.price, bs=None if bs is None else bs.price)


def ump_post(m, c, res):
    t = c["t"]
    both = c["bb"] is not None and c["bs"] is not None
    exp_mid = (c["bs"] + c["bb"]) / 2.0 if both else None
    if m._mid_prices[t] != exp_mid:
        raise ContractViolation("Market._update_market_price", "mid = (best bid + best ask) / 2 iff both best quotes are limit prices, else None", (m._mid_prices[t], exp_mid))
    if c["running"]:
        exp = c["le"] if c["le"] is not None else (exp_mid if exp_mid is not None else c["mp"][t])
    else:
        exp = c["mp"][t]
    if m._market_prices[t] != exp:
        raise ContractViolation("Market._update_market_price", "market price = last trade, else mid, else previous; unchanged when not running", (m._market_prices[t], exp))
    for name, old in (("_mid_prices", c["mid"]), ("_market_prices", c["mp"])):
        new = getattr(m, name)
        if len(new) != len(old) or any(new[i] != old[i] for i in range(len(old)) if i != t):
            raise ContractViolation("Market._update_market_price", f"only slot `time` of {name} is written")


def install_market_price():
    wrap(Market, "_update_market_price", ump_pre, ump_post)


# ----------------------------------------------------------------------------- events (C14, C15, C16, C09)
def _order_fields(o):
    return (o.is_buy, o.kind, o.volume, o.price, o.ttl, o.agent_id, o.market_id)


def install_events():
    from pams.events import PriceLimitRule, OrderMistakeShock, TradingHaltRule, FundamentalPriceShock

    def pl_pre(rule, simulator, order):
        m = simulator.id2market[order.market_id]
        return dict(fields=_order_fields(order), target=m in rule.target_markets.values(), p0=m.get_market_price(0), r=rule.trigger_change_rate)

    def pl_post(rule, c, res, simulator, order):
        f = c["fields"]
        if not c["target"]:
            if _order_fields(order) != f:
                raise ContractViolation("PriceLimitRule.hooked_before_order", "orders for markets that are not targets are left unchanged", (f, _order_fields(order)))
            return
        if (order.price is None) != (f[3] is None):
            raise ContractViolation("PriceLimitRule.hooked_before_order", "market orders pass unchanged")
        if f[3] is not None:
            lo, hi = c["p0"] * (1 - c["r"]), c["p0"] * (1 + c["r"])
            if not (lo - 1e-9 <= order.price <= hi + 1e-9):
                raise ContractViolation("PriceLimitRule.hooked_before_order", "target market: accepted limit price lies in the band", (order.price, lo, hi))
            if lo <= f[3] <= hi and order.price != f[3]:
                raise ContractViolation("PriceLimitRule.hooked_before_order", "target market: a price inside the band is unchanged", (f[3], order.price))

    def pl_raise(rule, c, e, simulator, order):
        if not c["target"]:
            raise ContractViolation("PriceLimitRule.hooked_before_order", "no-raise: orders for markets that are not targets are accepted unchanged", repr(e))
    wrap(PriceLimitRule, "hooked_before_order", pl_pre, pl_post, pl_raise)

    def glp_pre(rule, order, market):
        return dict(price=order.price, p0=market.get_market_price(0), r=rule.trigger_change_rate, state={k: v for k, v in vars(rule).items() if k != "target_markets"})

    def glp_post(rule, c, res, order, market):
        if (res is None) != (c["price"] is None):
            raise ContractViolation("PriceLimitRule.get_limited_price", "market orders pass unchanged", (c["price"], res))
        if res is not None:
            lo, hi = c["p0"] * (1 - c["r"]), c["p0"] * (1 + c["r"])
            want = min(max(c["price"], lo), hi) if lo <= hi else None
            if want is not None and abs(res - want) > 1e-9 * max(1.0, abs(want)):
                raise ContractViolation("PriceLimitRule.get_limited_price", "limit price clipped into the band around the time-0 price", dict(price=c["price"], p0=c["p0"], r=c["r"], result=res, expected=want))
    wrap(PriceLimitRule, "get_limited_price", glp_pre, glp_post)

    def ms_pre(ev, simulator, order):
        m = simulator.id2market[order.market_id]
        return dict(fields=_order_fields(order), trig=ev.triggerd, same=order.market_id == ev.target_market.market_id, mp=m.get_market_price())

    def ms_post(ev, c, res, simulator, order):
        if c["trig"] or not c["same"]:
            if _order_fields(order) != c["fields"] or ev.triggerd != c["trig"]:
                raise ContractViolation("OrderMistakeShock.hooked_before_order", "only the first order submitted to the target market at the trigger time is replaced",
                                        dict(before=c["fields"], after=_order_fields(order), order_market=order.market_id, target=ev.target_market.market_id))
            return
        exp = (ev.price_change_rate > 0.0, LIMIT_ORDER, ev.order_volume, c["mp"] * (1 + ev.price_change_rate), ev.order_time_length)
        got = (order.is_buy, order.kind, order.volume, order.price, order.ttl)
        if got != exp or not ev.triggerd:
            raise ContractViolation("OrderMistakeShock.hooked_before_order", "replacement order: side by sign of rate, limit, configured volume/lifetime, price = market price x (1 + rate)", (got, exp))
    wrap(OrderMistakeShock, "hooked_before_order", ms_pre, ms_post)

    def th_pre(ev, simulator, market):
        s = simulator.current_session
        mine = s is not None and getattr(ev, "halted_session", None) is s
        return dict(flag=None if s is None else s.with_order_execution, running=market._is_running, mine=mine,
                    t=market.get_time(), started=ev.halting_time_started, length=ev.halting_time_length, target=market in ev.target_markets.values())

    def th_post(ev, c, res, simulator, market):
        s = simulator.current_session
        cfg = getattr(s, "_verif_configured_exec", None)
        if s is not None and cfg is False and (s.with_order_execution or market._is_running):
            raise ContractViolation("TradingHaltRule.hooked_before_step_for_market", "a session configured without order execution never gets execution switched on", dict(time=c["t"]))
        due = c["target"] and c["t"] > c["started"] + c["length"]
        if not (c["mine"] and due) and (market._is_running != c["running"] or (s is not None and s.with_order_execution != c["flag"])):
            raise ContractViolation("TradingHaltRule.hooked_before_step_for_market", "the rule switches execution on only in a session it halted itself, and only when the halt length has passed",
                                    dict(time=c["t"], running=(c["running"], market._is_running)))
        if c["mine"] and due and not (market._is_running and s.with_order_execution):
            raise ContractViolation("TradingHaltRule.hooked_before_step_for_market", "a halted target resumes at the step after the halt length", dict(time=c["t"]))
    wrap(TradingHaltRule, "hooked_before_step_for_market", th_pre, th_post)

    def ae_pre(ev, simulator, execution_log):
        m = simulator.id2market[execution_log.market_id]
        return dict(running=m._is_running, p0=m.get_market_price(0), mp=m.get_market_price(), count=ev.activation_count, target=m in ev.target_markets.values(), m=m, t=m.time)

    def ae_post(ev, c, res, simulator, execution_log):
        m = c["m"]
        should = c["running"] and c["target"] and abs(c["p0"] - c["mp"]) >= abs(c["p0"] * ev.trigger_change_rate * (c["count"] + 1))
        if should:
            if m._is_running or ev.activation_count != c["count"] + 1 or ev.halting_time_started != c["t"]:
                raise ContractViolation("TradingHaltRule.hooked_after_execution", "deviation >= rate x (halts + 1) on a running target: the market stops at once", dict(t=c["t"]))
        else:
            if m._is_running != c["running"] or ev.activation_count != c["count"]:
                raise ContractViolation("TradingHaltRule.hooked_after_execution", "no halt below the line / on non-targets / on stopped markets", dict(t=c["t"], target=c["target"]))
    wrap(TradingHaltRule, "hooked_after_execution", ae_pre, ae_post)

    def fs_pre(ev, simulator, market):
        t = market.get_time()
        return dict(t=t, f=market.get_fundamental_price(t), others={m.market_id: m.get_fundamental_price(m.get_time()) for m in simulator.markets if m is not market and m.get_time() >= 0})

    def fs_post(ev, c, res, simulator, market):
        if market is not ev.target_market or not (ev.trigger_time <= c["t"] < ev.trigger_time + ev.shock_time_length):
            raise ContractViolation("FundamentalPriceShock.hooked_before_step_for_market", "shock applied outside its window or to another market", dict(t=c["t"], market=market.market_id))
        ev.__dict__.setdefault("_verif_applied", []).append(c["t"])
        exp = c["f"] * (1 + ev.price_change_rate)
        if abs(market.get_fundamental_price(c["t"]) - exp) > 1e-9 * max(1.0, abs(exp)):
            raise ContractViolation("FundamentalPriceShock.hooked_before_step_for_market", "fundamental price multiplied by (1 + rate)", (market.get_fundamental_price(c["t"]), exp))
        for m in simulator.markets:
            if m.market_id in c["others"] and type(m).__name__ == "Market" and m.get_fundamental_price(m.get_time()) != c["others"][m.market_id]:
                raise ContractViolation("FundamentalPriceShock.hooked_before_step_for_market", "no other market's fundamental price changes", m.market_id)
    wrap(FundamentalPriceShock, "hooked_before_step_for_market", fs_pre, fs_post)

    # set-up of the shocks: parameters as configured, trigger time relative to the event's own session (C14)
    def su_pre(ev, settings, *a, **k):
        return dict(start=ev.session.session_start_time, settings=dict(settings))

    def su_post(ev, c, res, settings, *a, **k):
        F = type(ev).__name__ + ".setup"
        cfg = c["settings"]
        if ev.trigger_time != c["start"] + cfg["triggerTime"]:
            raise ContractViolation(F, "C14 the trigger time is counted from the start of the event's own session", dict(trigger_time=ev.trigger_time, session_start=c["start"], triggerTime=cfg["triggerTime"]))
        if ev.price_change_rate != cfg["priceChangeRate"] or ev.target_market is not ev.simulator.name2market[cfg["target"]]:
            raise ContractViolation(F, "C14 rate and target market are the configured ones")
        if isinstance(ev, OrderMistakeShock) and (ev.order_volume != cfg["orderVolume"] or ev.order_time_length != cfg["orderTimeLength"]):
            raise ContractViolation(F, "C14 order volume and lifetime are the configured ones")
        if isinstance(ev, FundamentalPriceShock) and "shockTimeLength" in cfg and ev.shock_time_length != cfg["shockTimeLength"]:
            raise ContractViolation(F, "C14 the window length is the configured one")
    wrap(FundamentalPriceShock, "setup", su_pre, su_post)
    wrap(OrderMistakeShock, "setup", su_pre, su_post)

    def rs_pre(ev, settings, *a, **k):
        return dict(settings=dict(settings), before=dict(ev.target_markets))

    def rs_post(ev, c, res, settings, *a, **k):
        F = type(ev).__name__ + ".setup"
        cfg = c["settings"]
        if c["before"] and not getattr(ev, "_verif_setup_done", False):
            raise ContractViolation(F, "a newly created rule has no targets before its set-up (no state shared between rule instances or runs)", dict(inherited=sorted(c["before"])))
        ev._verif_setup_done = True
        want = dict(c["before"]); want.update({n: ev.simulator.name2market[n] for n in cfg["targetMarkets"]})
        if set(ev.target_markets) != set(want) or any(ev.target_markets[n] is not want[n] for n in want):
            raise ContractViolation(F, "the rule's target markets are the previous ones plus exactly the configured names", dict(got=sorted(ev.target_markets), configured=cfg["targetMarkets"], before=sorted(c["before"])))
        if ev.trigger_change_rate != cfg["triggerChangeRate"] or (isinstance(ev, TradingHaltRule) and ev.halting_time_length != cfg["haltingTimeLength"]):
            raise ContractViolation(F, "rate and lengths are the configured ones")
    wrap(PriceLimitRule, "setup", rs_pre, rs_post)
    wrap(TradingHaltRule, "setup", rs_pre, rs_post)

    # registration: an enabled event registers its hooks whatever the values of its other parameters; a disabled one registers none
    def hr_pre(ev):
        return None

    def mk_hr_post(F, expect):
        def hr_post(ev, c, res):
            hooks = list(res)
            want = expect(ev) if ev.is_enabled else []
            got = sorted((h.hook_type, h.is_before, None if h.time is None else tuple(h.time)) for h in hooks)
            if got != sorted(want) or any(h.event is not ev for h in hooks):
                raise ContractViolation(F, "an enabled event registers exactly its documented hooks (a disabled one none), owned by itself", dict(enabled=ev.is_enabled, got=got, expected=sorted(want)))
        return hr_post
    wrap(PriceLimitRule, "hook_registration", hr_pre, mk_hr_post("PriceLimitRule.hook_registration", lambda ev: [("order", True, None)]))
    wrap(OrderMistakeShock, "hook_registration", hr_pre, mk_hr_post("OrderMistakeShock.hook_registration", lambda ev: [("order", True, (ev.trigger_time,))]))
    wrap(FundamentalPriceShock, "hook_registration", hr_pre,
         mk_hr_post("FundamentalPriceShock.hook_registration", lambda ev: [("market", True, tuple(ev.trigger_time + i for i in range(ev.shock_time_length)))]))

    # ghost: the configured execution flag of each session
    from pams.session import Session

    def ss_pre(s, settings, *a, **k):
        return None

    def ss_post(s, c, res, settings, *a, **k):
        s._verif_configured_exec = settings.get("withOrderExecution")
    wrap(Session, "setup", ss_pre, ss_post)


# ----------------------------------------------------------------------------- Market._execution (C01, C02, C03, C04, C10)
def install_matching():
    def pre(m):
        buys = sorted(m.buy_order_book.priority_queue, key=rank_key); sells = sorted(m.sell_order_book.priority_queue, key=rank_key)
        lg = m.logger
        return dict(buys=buys, sells=sells, vol={id(o): o.volume for o in buys + sells}, nrec=None if lg is None else len(lg.pending_logs), running=m._is_running,
                    both_mkt=bool(buys and sells and buys[0].price is None and sells[0].price is None))

    def post(m, c, logs):
        F = "Market._execution"
        buys, sells, pre_vol = c["buys"], c["sells"], c["vol"]
        byid = {o.order_id: o for o in buys + sells}
        if logs:
            if len({l.price for l in logs}) != 1:
                raise ContractViolation(F, "E2 all fills of the round carry one common price", [l.price for l in logs])
            p = logs[0].price
            for l in logs:
                b, s = byid.get(l.buy_order_id), byid.get(l.sell_order_id)
                if b is None or s is None or not b.is_buy or s.is_buy or l.volume < 1 or l.market_id != m.market_id:
                    raise ContractViolation(F, "E1 every fill pairs a buy order of the entry buy book with a sell order of the entry sell book, with positive volume")
                if (b.price is not None and p > b.price) or (s.price is not None and p < s.price):
                    raise ContractViolation(F, "E3 the price is no higher than the buyer's limit and no lower than the seller's limit", (p, b.price, s.price))
            lb, ls = byid[logs[-1].buy_order_id], byid[logs[-1].sell_order_id]
            if not (lb.price is None and ls.price is None):
                exp = ls.price if lb.price is None else (lb.price if ls.price is None else (lb.price if (lb.placed_at, lb.order_id) < (ls.placed_at, ls.order_id) else ls.price))
                if p != exp:
                    raise ContractViolation(F, "E4 the common price is the limit price of the earlier-accepted order of the last matched pair", (p, exp))
        fills = {}
        for l in logs:
            fills[l.buy_order_id] = fills.get(l.buy_order_id, 0) + l.volume; fills[l.sell_order_id] = fills.get(l.sell_order_id, 0) + l.volume
        for side in (buys, sells):
            seen_unfilled = False
            for o in side:
                f = pre_vol[id(o)] - o.volume
                if f != fills.get(o.order_id, 0) or o.volume < 0:
                    raise ContractViolation(F, "E5 accounting: final volume = entry volume - fills >= 0", (o.order_id, pre_vol[id(o)], o.volume, fills.get(o.order_id, 0)))
                if f > 0 and seen_unfilled:
                    raise ContractViolation(F, "E6 price-time priority: a filled order has every higher-priority order of its side fully filled",
                                            [(x.order_id, x.price, pre_vol[id(x)], x.volume) for x in side])
                if o.volume > 0:
                    seen_unfilled = True
        bb, bs = best(m.buy_order_book), best(m.sell_order_book)
        if bb is not None and bs is not None and (bb.price is not None or bs.price is not None):
            if not (bb.price is not None and bs.price is not None and bb.price < bs.price):
                raise ContractViolation(F, "E7 the book is cleared: both best orders are limit orders and best bid < best ask", (bb.price, bs.price))
        for book, side in ((m.buy_order_book, buys), (m.sell_order_book, sells)):
            if sorted(id(o) for o in book.priority_queue) != sorted(id(o) for o in side if o.volume > 0):
                raise ContractViolation(F, "the books hold exactly the entry orders with volume left")
            if book.priority_queue and book.priority_queue[0] is not best(book):
                raise ContractViolation(F, "B3 top is minimal")
        if m.logger is not None and c["nrec"] is not None:
            new = m.logger.pending_logs[c["nrec"]:]
            if [id(x) for x in new] != [id(l) for l in logs]:
                raise ContractViolation(F, "C10 the logger receives exactly one record per fill of the round, in order", dict(fills=len(logs), records=len(new)))

    def on_raise(m, c, e):
        if c["running"]:
            raise ContractViolation("Market._execution", "no-raise: a matching round on a running market terminates without raising", dict(exc=repr(e), both_market_start=c["both_mkt"]))
    wrap(Market, "_execution", pre, post, on_raise)


# ----------------------------------------------------------------------------- Market mutators (C04, C06, C08, C10, C19)
def _series(m):
    return dict(mp=list(m._market_prices), mid=list(m._mid_prices), le=list(m._last_executed_prices), f=list(m._fundamental_prices),
                ev=list(m._executed_volumes), et=list(m._executed_total_prices), nb=list(m._n_buy_orders), ns=list(m._n_sell_orders))


def _records(m):
    return None if m.logger is None else list(m.logger.pending_logs)


def install_market_ops():
    import math as _math

    def ao_pre(m, order):
        return dict(mp=m._market_prices[m.time], price=order.price, is_buy=order.is_buy, vol=order.volume, nid=m._next_order_id, t=m.time, ser=_series(m), rec=_records(m), tick=m.tick_size,
                    nb=len(m.buy_order_book.priority_queue), ns=len(m.sell_order_book.priority_queue))

    def ao_post(m, c, log, order):
        F = "Market._add_order"
        p0, p1, tick = c["price"], order.price, c["tick"]
        if (p0 is None) != (p1 is None):
            raise ContractViolation(F, "C19 market order keeps price None")
        if p0 is not None:
            on_grid = _math.isclose(p0 / tick, round(p0 / tick), abs_tol=1e-9) and p0 % tick == 0
            if on_grid and p1 != p0:
                raise ContractViolation(F, "C19 a price on the grid is accepted unchanged", (p0, p1))
            from fractions import Fraction as _Fr
            if _math.frexp(tick)[0] == 0.5:
                # a power-of-two tick: quotient, floor / ceil and the product back are exact in binary floating point, so the clause is checked exactly
                q = _Fr(p0) / _Fr(tick); lvl = q.__floor__() if c["is_buy"] else q.__ceil__()
                if _Fr(p1) != lvl * _Fr(tick):
                    raise ContractViolation(F, "C19 buy limit price rounds down by less than one tick" if c["is_buy"] else "C19 sell limit price rounds up by less than one tick", (p0, p1, tick, "exact arithmetic"))
            if abs(p1 / tick - round(p1 / tick)) > 1e-9:
                raise ContractViolation(F, "C19 the accepted limit price lies on the tick grid", (p0, p1, tick))
            if c["is_buy"] and not (p1 <= p0 + 1e-9 and p0 - p1 < tick + 1e-9):
                raise ContractViolation(F, "C19 buy limit price rounds down by less than one tick", (p0, p1, tick))
            if not c["is_buy"] and not (p1 >= p0 - 1e-9 and p1 - p0 < tick + 1e-9):
                raise ContractViolation(F, "C19 sell limit price rounds up by less than one tick", (p0, p1, tick))
        if order.order_id != c["nid"] or m._next_order_id != c["nid"] + 1 or order.placed_at != c["t"]:
            raise ContractViolation(F, "C04 fresh id, next id advanced, placed now")
        book = m.buy_order_book if c["is_buy"] else m.sell_order_book
        if not rests(book, order) or len(m.buy_order_book.priority_queue) != c["nb"] + (1 if c["is_buy"] else 0) or len(m.sell_order_book.priority_queue) != c["ns"] + (0 if c["is_buy"] else 1):
            raise ContractViolation(F, "C04 the order rests on its side; the other side untouched")
        t = c["t"]
        if m._n_buy_orders[t] != c["ser"]["nb"][t] + (1 if c["is_buy"] else 0) or m._n_sell_orders[t] != c["ser"]["ns"][t] + (0 if c["is_buy"] else 1):
            raise ContractViolation(F, "C08 per-step order counters: +1 on the order's side only")
        if (log.order_id, log.market_id, log.time, log.agent_id, log.is_buy, log.kind, log.volume, log.price, log.ttl) != \
                (order.order_id, order.market_id, t, order.agent_id, order.is_buy, order.kind, c["vol"], order.price, order.ttl):
            raise ContractViolation(F, "C10 the returned OrderLog carries the accepted order's values")
        if c["rec"] is not None and [id(x) for x in m.logger.pending_logs] != [id(x) for x in c["rec"]] + [id(log)]:
            raise ContractViolation(F, "C10 exactly one record (the OrderLog) is handed to the logger")
        c08_quotes(m, F, c["mp"])
    wrap(Market, "_add_order", ao_pre, ao_post)

    def ut_pre(m, next_fundamental_price):
        t = m.time
        due = lambda b: [o for o in b.priority_queue if o.ttl is not None and o.placed_at + o.ttl < t + 1]
        return dict(t=t, ser=_series(m), rec=_records(m), running=m._is_running, dueB=due(m.buy_order_book), dueS=due(m.sell_order_book),
                    restB=list(m.buy_order_book.priority_queue), restS=list(m.sell_order_book.priority_queue), vols={id(o): o.volume for o in m.buy_order_book.priority_queue + m.sell_order_book.priority_queue})

    def ut_post(m, c, res, next_fundamental_price):
        F = "Market._update_time"
        t0, t1 = c["t"], c["t"] + 1
        if m.time != t1 or m.buy_order_book.time != t1 or m.sell_order_book.time != t1:
            raise ContractViolation(F, "C06 the clock advances by exactly one, for the market and both of its books")
        now = _series(m)
        for k, old in c["ser"].items():
            if now[k][:t0 + 1] != old[:t0 + 1]:
                raise ContractViolation(F, "C06 values recorded for past times are unchanged", k)
        if m._fundamental_prices[t1] != next_fundamental_price:
            raise ContractViolation(F, "C06 the fundamental price handed in is recorded for the new time")
        if t1 > 0:
            le0, mid0, mp0 = c["ser"]["le"][t0], c["ser"]["mid"][t0], c["ser"]["mp"][t0]
            if m._last_executed_prices[t1] != le0 or m._mid_prices[t1] != mid0:
                raise ContractViolation(F, "C08 last-trade and mid price are carried into the new slot")
            exp = (le0 if le0 is not None else (mid0 if mid0 is not None else mp0)) if c["running"] else mp0
            if m._market_prices[t1] != exp:
                raise ContractViolation(F, "C08 market price in the new slot: last trade, else mid, else previous while running; carried unchanged while not running", (m._market_prices[t1], exp))
        if m._executed_volumes[t1] != 0 or m._executed_total_prices[t1] != 0 or m._n_buy_orders[t1] != 0 or m._n_sell_orders[t1] != 0:
            raise ContractViolation(F, "C08 counters of the new step start from zero")
        for book, rest, due in ((m.buy_order_book, c["restB"], c["dueB"]), (m.sell_order_book, c["restS"], c["dueS"])):
            if sorted(id(o) for o in book.priority_queue) != sorted(id(o) for o in rest if not any(o is d_ for d_ in due)):
                raise ContractViolation(F, "C04 an order leaves its book exactly when the clock passes placed_at + ttl")
        if c["rec"] is not None:
            new = m.logger.pending_logs[len(c["rec"]):]
            exp = [(o.order_id, c["vols"][id(o)]) for o in c["dueB"]] + [(o.order_id, c["vols"][id(o)]) for o in c["dueS"]]
            got = [(x.order_id, x.volume) for x in new]
            if sorted(got) != sorted(exp) or any(type(x).__name__ != "ExpirationLog" for x in new):
                raise ContractViolation(F, "C10 exactly one expiration record per expired order, with its remaining volume (buy side then sell side)", dict(expected=exp, got=got))
    wrap(Market, "_update_time", ut_pre, ut_post)

    def c08_quotes(m, F, mp_before):
        """C08 after a book event: mid = (best bid + best ask)/2 iff both best quotes are limit prices, else None; market price = last trade,
        else mid, else its previous value (unchanged when the market is not running)"""
        t = m.time
        tops = []
        for b in (m.buy_order_book, m.sell_order_book):
            tops.append(min(b.priority_queue).price if b.priority_queue else None)
        want_mid = (tops[0] + tops[1]) / 2 if (tops[0] is not None and tops[1] is not None) else None
        if m._mid_prices[t] != want_mid:
            raise ContractViolation(F, "C08 mid refreshed from the resulting book", dict(stored=m._mid_prices[t], best_bid=tops[0], best_ask=tops[1]))
        if m._is_running:
            le = m._last_executed_prices[t]
            want = le if le is not None else (want_mid if want_mid is not None else mp_before)
        else:
            want = mp_before
        if m._market_prices[t] != want:
            raise ContractViolation(F, "C08 market price = last trade, else mid, else previous; unchanged when not running", dict(stored=m._market_prices[t], expected=want))

    def co_pre(m, cancel):
        o = cancel.order
        return dict(mp=m._market_prices[m.time], vol=o.volume, rec=_records(m), t=m.time, inB=rests(m.buy_order_book, o), inS=rests(m.sell_order_book, o),
                    nB=len(m.buy_order_book.priority_queue), nS=len(m.sell_order_book.priority_queue), ser=_series(m))

    def co_post(m, c, log, cancel):
        F = "Market._cancel_order"
        o = cancel.order
        now_ = _series(m)
        for k_, old_ in c["ser"].items():
            if now_[k_][:c["t"]] != old_[:c["t"]]:
                raise ContractViolation(F, "C06 values recorded for past times are unchanged (a cancellation belongs to the step in which it happens)", k_)
        if not o.is_canceled or rests(m.buy_order_book, o) or rests(m.sell_order_book, o):
            raise ContractViolation(F, "C04 the order is marked cancelled and rests in no book afterwards")
        if len(m.buy_order_book.priority_queue) != c["nB"] - (1 if c["inB"] else 0) or len(m.sell_order_book.priority_queue) != c["nS"] - (1 if c["inS"] else 0):
            raise ContractViolation(F, "C04 other orders untouched")
        if (log.order_id, log.volume, log.cancel_time, log.order_time, log.agent_id, log.price) != (o.order_id, c["vol"], c["t"], o.placed_at, o.agent_id, o.price):
            raise ContractViolation(F, "C10 the CancelLog reports the order's identity and its remaining volume at the cancel time")
        if c["rec"] is not None and [id(x) for x in m.logger.pending_logs] != [id(x) for x in c["rec"]] + [id(log)]:
            raise ContractViolation(F, "C10 exactly one record (the CancelLog) is handed to the logger")
        c08_quotes(m, F, c["mp"])
    wrap(Market, "_cancel_order", co_pre, co_post)

    def eo_pre(m, price, volume, buy_order, sell_order):
        t = m.time
        return dict(t=t, vb=buy_order.volume, vs=sell_order.volume, ev=m._executed_volumes[t], et=m._executed_total_prices[t], rec=_records(m), running=m._is_running)

    def eo_post(m, c, log, price, volume, buy_order, sell_order):
        F = "Market._execute_orders"
        t = c["t"]
        if not c["running"]:
            raise ContractViolation(F, "C16 no fill is ever recorded on a market that is not running")
        if buy_order.volume != c["vb"] - volume or sell_order.volume != c["vs"] - volume:
            raise ContractViolation(F, "C04 both orders' volumes are reduced by the filled volume")
        if rests(m.buy_order_book, buy_order) != (buy_order.volume > 0) or rests(m.sell_order_book, sell_order) != (sell_order.volume > 0):
            raise ContractViolation(F, "C04 an order leaves the book exactly when its volume reaches zero")
        if m._last_executed_prices[t] != price or m._executed_volumes[t] != c["ev"] + volume or abs(m._executed_total_prices[t] - (c["et"] + volume * price)) > 1e-9:
            raise ContractViolation(F, "C08 last-trade price / executed volume / turnover of the step grow by the fill")
        if m._market_prices[t] != price:
            raise ContractViolation(F, "C08 market price = last trade (right after the fill, before anything else happens)", dict(market_price=m._market_prices[t], fill_price=price))
        if (log.price, log.volume, log.time, log.buy_order_id, log.sell_order_id, log.buy_agent_id, log.sell_agent_id, log.market_id) != \
                (price, volume, t, buy_order.order_id, sell_order.order_id, buy_order.agent_id, sell_order.agent_id, m.market_id):
            raise ContractViolation(F, "C01 the fill record pairs this buy and this sell order at the given price and volume")
        if c["rec"] is not None and [id(x) for x in m.logger.pending_logs] != [id(x) for x in c["rec"]] + [id(log)]:
            raise ContractViolation(F, "C10 exactly one record (the ExecutionLog) is handed to the logger")
    wrap(Market, "_execute_orders", eo_pre, eo_post)


INSTALLERS = {"market_price": install_market_price, "events": install_events, "matching": install_matching, "market_ops": install_market_ops}


def install(names):
    for n in names:
        INSTALLERS[n]()
