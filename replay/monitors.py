"""Run-time side of the contracts: the same clauses as /verif/specs, evaluated on live pams objects.
Installed as wrappers around the real methods only when PAMS_VERIF=1 (from /verif; /repo is not edited)."""
import functools
import math
import os

from pams.market import Market
from pams.order import LIMIT_ORDER
from pams.order import MARKET_ORDER
from pams.order_book import OrderBook


class ContractViolation(Exception):
    def __init__(self, function, clause, details=None):
        super().__init__(f"{function}: {clause} {details if details is not None else ''}")
        self.function, self.clause, self.details = function, clause, details


EVALS = {"n": 0}
_installed = []


def wrap(cls, name, pre_capture, post_check):
    real = getattr(cls, name)

    @functools.wraps(real)
    def w(self, *a, **kw):
        cap = pre_capture(self, *a, **kw)
        res = real(self, *a, **kw)
        EVALS["n"] += 1
        post_check(self, cap, res, *a, **kw)
        return res
    w.__wrapped_real__ = real
    setattr(cls, name, w)
    _installed.append((cls, name, real))


def uninstall():
    while _installed:
        cls, name, real = _installed.pop()
        setattr(cls, name, real)


def rank_key(o):
    return (0 if o.price is None else 1, 0 if o.price is None else (-o.price if o.is_buy else o.price), o.placed_at, o.order_id)


def best(book):
    return min(book.priority_queue, key=rank_key) if book.priority_queue else None


# ----------------------------------------------------------------------------- Market._update_market_price (C08)
def ump_pre(m):
    t = m.time
    bb, bs = best(m.buy_order_book), best(m.sell_order_book)
    return dict(t=t, mp=list(m._market_prices), mid=list(m._mid_prices), le=m._last_executed_prices[t], running=m._is_running,
                bb=None if bb is None else bb.price, bs=None if bs is None else bs.price)


def ump_post(m, c, res):
    t = c["t"]
    both = c["bb"] is not None and c["bs"] is not None
    exp_mid = (c["bs"] + c["bb"]) / 2.0 if both else None
    if m._mid_prices[t] != exp_mid:
        raise ContractViolation("Market._update_market_price", "mid = (best bid + best ask) / 2 iff both best quotes are limit prices, else None", (m._mid_prices[t], exp_mid))
    if c["running"]:
        exp = c["le"] if c["le"] is not None else (exp_mid if exp_mid is not None else c["mp"][t])
    else:
        exp = c["mp"][t]
    if m._market_prices[t] != exp:
        raise ContractViolation("Market._update_market_price", "market price = last trade, else mid, else previous; unchanged when not running", (m._market_prices[t], exp))
    for name, old in (("_mid_prices", c["mid"]), ("_market_prices", c["mp"])):
        new = getattr(m, name)
        if len(new) != len(old) or any(new[i] != old[i] for i in range(len(old)) if i != t):
            raise ContractViolation("Market._update_market_price", f"only slot `time` of {name} is written")


def install_market_price():
    wrap(Market, "_update_market_price", ump_pre, ump_post)


INSTALLERS = {"market_price": install_market_price}


def install(names):
    for n in names:
        INSTALLERS[n]()
