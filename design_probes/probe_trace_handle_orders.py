# probe: derive per-iteration call-trace expressions from the real _handle_orders AST (normal vs HFT copy)
import ast
src = open('/repo/pams/runners/sequential.py').read()
mod = ast.parse(src)
cls = [n for n in mod.body if isinstance(n, ast.ClassDef)][0]
fn = [n for n in cls.body if isinstance(n, ast.FunctionDef) and n.name == '_handle_orders'][0]
TRACED = {'_trigger_event_before_order','_add_order','submitted_order','_trigger_event_after_order','_trigger_event_before_cancel',
          '_cancel_order','canceled_order','_trigger_event_after_cancel','_execution','_update_agents_for_execution','executed_order',
          '_trigger_event_after_execution','submit_orders','sample','random'}
def U(e): return ast.unparse(e)
def trace(stmts, env):
    """returns a trace expression: list of items ('call', name, recv, args) | ('if', cond, then, else) | ('for', var, iter, body) | ('raise', exc) | ('continue',)|('break',)"""
    out = []
    for st in stmts:
        if isinstance(st, (ast.Assign, ast.AnnAssign, ast.Expr, ast.AugAssign)):
            val = st.value
            calls = [c for c in ast.walk(val) if isinstance(c, ast.Call) and isinstance(c.func, ast.Attribute) and c.func.attr in TRACED] if val is not None else []
            tgt = None
            if isinstance(st, ast.Assign): tgt = U(st.targets[0])
            if isinstance(st, ast.AnnAssign): tgt = U(st.target)
            for c in calls:
                out.append(('call', c.func.attr, U(c.func.value), [U(k.value) for k in c.keywords] + [U(a) for a in c.args], tgt))
            if not calls and tgt is not None and val is not None:
                out.append(('let', tgt, U(val)))
        elif isinstance(st, ast.If):
            out.append(('if', U(st.test), trace(st.body, env), trace(st.orelse, env)))
        elif isinstance(st, ast.For):
            out.append(('for', U(st.target), U(st.iter), trace(st.body, env)))
        elif isinstance(st, ast.Raise): out.append(('raise', U(st.exc)))
        elif isinstance(st, ast.Continue): out.append(('continue',))
        elif isinstance(st, ast.Break): out.append(('break',))
        elif isinstance(st, ast.Return): out.append(('return', U(st.value)))
        else: out.append(('?', type(st).__name__))
    return out
def show(t, ind=0):
    for it in t:
        pad = '  ' * ind
        if it[0] == 'if':
            print(f'{pad}if {it[1]}:'); show(it[2], ind + 1)
            if it[3]: print(f'{pad}else:'); show(it[3], ind + 1)
        elif it[0] == 'for':
            print(f'{pad}foreach {it[1]} in {it[2]}:'); show(it[3], ind + 1)
        else: print(pad + str(it))
t = trace(fn.body, {})
outer = [x for x in t if x[0] == 'for'][0]           # for orders in sequential_orders
inner_normal = [x for x in outer[3] if x[0] == 'for'][0]   # for order in orders
print('=== normal path, one order iteration'); show(inner_normal[3])
hft_for = [x for x in outer[3] if x[0] == 'for'][1]  # for agent in agents
def find_for(t, var):
    for it in t:
        if it[0] == 'for' and it[1] == var: return it
        if it[0] == 'if':
            r = find_for(it[2], var) or find_for(it[3], var)
            if r: return r
        if it[0] == 'for':
            r = find_for(it[3], var)
            if r: return r
inner_hft = find_for(hft_for[3], 'order')
import json
def norm(t):
    s = json.dumps(t)
    for a, b in (('log_', 'LOGC'), ('log', 'LOGO'), ('logs', 'LOGS')): pass
    return s
a = json.dumps(inner_normal[3]); b = json.dumps(inner_hft[3])
print('=== HFT copy identical to normal copy (modulo the placement re-check)?')
# drop the placement check item from normal
a2 = json.dumps([x for x in inner_normal[3] if not (x[0] == 'if' and 'with_order_placement' in x[1])])
print(a2 == b)
if a2 != b:
    print(a2[:1500]); print(b[:1500])
