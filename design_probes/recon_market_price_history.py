import sys, random, warnings, math
warnings.simplefilter('ignore')
sys.path.insert(0, '/repo')
from pams.market import Market
from pams.order import Order, Cancel, LIMIT_ORDER, MARKET_ORDER
from pams.logs import Logger
class Sim: pass
def snapshot(m):
    t = m.time
    return dict(mp=list(m._market_prices[:t+1]), mid=list(m._mid_prices[:t+1]), le=list(m._last_executed_prices[:t+1]),
                f=list(m._fundamental_prices[:t+1]), ev=list(m._executed_volumes[:t+1]), et=list(m._executed_total_prices[:t+1]),
                nb=list(m._n_buy_orders[:t+1]), ns=list(m._n_sell_orders[:t+1]))
def run(seed):
    rng = random.Random(seed)
    m = Market(market_id=0, prng=random.Random(0), simulator=Sim(), name='m', logger=Logger())
    m.chunk_size = 5
    m.setup({'tickSize': 1.0, 'marketPrice': 10.0})
    m._update_time(next_fundamental_price=10.0)
    m._is_running = rng.random() < 0.5
    live = []; last_trade = None; prev = snapshot(m)
    step_fills = {}; step_acc = {}
    for it in range(rng.randint(5, 40)):
        r = rng.random(); mp_before = m.get_market_price()
        event = None
        if r < 0.6:
            mkt = rng.random() < 0.2
            o = Order(agent_id=0, market_id=0, is_buy=rng.random() < 0.5, kind=MARKET_ORDER if mkt else LIMIT_ORDER,
                      volume=rng.randint(1, 3), price=None if mkt else float(rng.randint(8, 12)), ttl=rng.choice([None, 1, 3]))
            m._add_order(o); live.append(o); event = 'add'
            step_acc.setdefault(m.time, [0, 0])[0 if o.is_buy else 1] += 1
        elif r < 0.7 and live:
            o = rng.choice(live)
            if not o.is_canceled and o.placed_at is not None:
                m._cancel_order(Cancel(order=o)); event = 'cancel'
        elif r < 0.85:
            m._update_time(next_fundamental_price=10.0 + it); event = 'clock'
        else:
            m._is_running = not m._is_running; event = 'toggle'
        if event in ('add', 'cancel'):
            if m.is_running:
                logs = m._execution()
                for l in logs:
                    last_trade = l.price
                    sf = step_fills.setdefault(m.time, [0, 0.0]); sf[0] += l.volume; sf[1] += l.volume * l.price
            # check after book event
            bb, bs = m.get_best_buy_price(), m.get_best_sell_price()
            mid = (bb + bs) / 2.0 if bb is not None and bs is not None else None
            assert m.get_mid_price() == mid, ('mid', m.get_mid_price(), mid)
            if m.is_running:
                exp = last_trade if last_trade is not None else (mid if mid is not None else mp_before)
                assert m.get_market_price() == exp, ('mp running', seed, m.get_market_price(), exp, last_trade, mid, mp_before)
            else:
                assert m.get_market_price() == mp_before, ('mp moved while not running',)
            assert m.get_last_executed_price() == last_trade
        if event == 'clock' and not m.is_running:
            assert m.get_market_price() == mp_before, ('mp moved at clock while not running', seed)
        # history immutability
        cur = snapshot(m)
        for k in cur:
            n = len(prev[k]) - (1 if event != 'clock' else 0)
            # all entries strictly before current time must be unchanged
            lim = m.time
            assert cur[k][:min(lim, len(prev[k]))] == prev[k][:min(lim, len(prev[k]))], ('history changed', k, seed)
        prev = cur
        # depth
        for book, side in ((m.get_buy_order_book(), m.buy_order_book), (m.get_sell_order_book(), m.sell_order_book)):
            exp = {}
            for o in side.priority_queue: exp[o.price] = exp.get(o.price, 0) + o.volume
            assert book == exp
            best = min(side.priority_queue) if side.priority_queue else None
            assert side.get_best_order() is best
    for t in range(m.time + 1):
        sf = step_fills.get(t, [0, 0.0]); sa = step_acc.get(t, [0, 0])
        assert m.get_executed_volume(t) == sf[0] and abs(m.get_executed_total_price(t) - sf[1]) < 1e-9
        assert m.get_n_buy_order(t) == sa[0] and m.get_n_sell_order(t) == sa[1]
for seed in range(20000):
    try: run(seed)
    except AssertionError as e:
        print('seed', seed, 'VIOL', e); break
    except Exception as e:
        print('seed', seed, 'EXC', type(e).__name__, e); break
else: print('no violation in 20000 histories')
