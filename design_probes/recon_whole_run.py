# whole-run reconnaissance: random configs + scripted agents, monitors for C04/C05/C06/C10/C11/C13/C17
import sys, random, warnings, collections, copy
warnings.simplefilter('ignore')
sys.path.insert(0, '/repo')
from pams.runners import SequentialRunner
from pams.logs import Logger
from pams.agents import Agent, HighFrequencyAgent
from pams.events import EventABC, EventHook
from pams.order import Order, Cancel, LIMIT_ORDER, MARKET_ORDER
from pams.index_market import IndexMarket

EV = []   # global event trace
class RandAgent(Agent):
    def setup(self, settings, accessible_markets_ids, *a, **k):
        super().setup(settings, accessible_markets_ids); self.mine = []; self.cb = []
    def submit_orders(self, markets):
        EV.append(('consult', self.agent_id, markets[0].get_time()))
        out = []; r = self.prng.random()
        if r < 0.3: return out
        for m in markets:
            if not self.is_market_accessible(m.market_id) or self.prng.random() < 0.4: continue
            if self.mine and self.prng.random() < 0.2:
                o = self.prng.choice(self.mine)
                if o.placed_at is not None and not o.is_canceled:
                    out.append(Cancel(order=o)); continue
            mk = self.prng.random() < 0.15
            o = Order(agent_id=self.agent_id, market_id=m.market_id, is_buy=self.prng.random() < 0.5,
                      kind=MARKET_ORDER if mk else LIMIT_ORDER, volume=self.prng.randint(1, 4),
                      price=None if mk else m.get_market_price() + self.prng.randint(-3, 3) + (0.37 if self.prng.random()<0.2 else 0),
                      ttl=self.prng.choice([None, 1, 2, 5]))
            out.append(o); self.mine.append(o)
        return out
    def submitted_order(self, log): EV.append(('cb_sub', self.agent_id, log))
    def canceled_order(self, log): EV.append(('cb_can', self.agent_id, log))
    def executed_order(self, log): EV.append(('cb_exe', self.agent_id, log, self.simulator_snapshot()))
    def simulator_snapshot(self): return None
class RandHFT(HighFrequencyAgent, RandAgent): pass
class Probe(EventABC):
    def hook_registration(self):
        hs = []
        for ht in ['order', 'cancel', 'session', 'market']:
            for before in (True, False):
                hs.append(EventHook(event=self, hook_type=ht, is_before=before))
        hs.append(EventHook(event=self, hook_type='execution', is_before=False))
        return hs
    def hooked_before_order(self, simulator, order): EV.append(('h_bo', order))
    def hooked_after_order(self, simulator, order_log): EV.append(('h_ao', order_log))
    def hooked_before_cancel(self, simulator, cancel): EV.append(('h_bc', cancel))
    def hooked_after_cancel(self, simulator, cancel_log): EV.append(('h_ac', cancel_log))
    def hooked_after_execution(self, simulator, execution_log): EV.append(('h_ae', execution_log))
    def hooked_before_session(self, simulator, session): EV.append(('h_bs', session.session_id, [m.get_time() for m in simulator.markets]))
    def hooked_after_session(self, simulator, session): EV.append(('h_as', session.session_id, [m.get_time() for m in simulator.markets]))
    def hooked_before_step_for_market(self, simulator, market): EV.append(('h_bm', market.market_id, market.get_time()))
    def hooked_after_step_for_market(self, simulator, market): EV.append(('h_am', market.market_id, market.get_time()))
class Rec(Logger):
    def process_order_log(self, log): EV.append(('L_ord', log))
    def process_cancel_log(self, log): EV.append(('L_can', log))
    def process_execution_log(self, log): EV.append(('L_exe', log))
    def process_expiration_log(self, log): EV.append(('L_exp', log))
    def process_market_step_begin_log(self, log): EV.append(('L_sb', log.market.market_id, log.market.get_time()))
    def process_market_step_end_log(self, log): EV.append(('L_se', log.market.market_id, log.market.get_time()))
    def process_session_begin_log(self, log): EV.append(('L_sesb', log.session.session_id))
    def process_session_end_log(self, log): EV.append(('L_sese', log.session.session_id))

def make_cfg(rng):
    nm = rng.randint(1, 3)
    sessions = []
    for i in range(rng.randint(1, 3)):
        sessions.append({"sessionName": i, "iterationSteps": rng.choice([1, 3, 7, 60, 101]), "withOrderPlacement": rng.random() < 0.85,
                         "withOrderExecution": rng.random() < 0.7, "withPrint": False,
                         "maxNormalOrders": rng.choice([0, 1, 2, 5]), "maxHighFrequencyOrders": rng.choice([0, 1, 2]),
                         "highFrequencySubmitRate": rng.choice([0.0, 0.5, 1.0]), "events": ["Probe"] if i == 0 else []})
    cfg = {"simulation": {"markets": ["M"] + (["I"] if nm >= 2 and rng.random() < 0.5 else []), "agents": ["A", "H"], "sessions": sessions},
           "Probe": {"class": "Probe"},
           "M": {"class": "Market", "numMarkets": nm, "tickSize": rng.choice([1.0, 0.5]), "marketPrice": 100.0, "outstandingShares": 1000,
                 "fundamentalVolatility": 0.01},
           "I": {"class": "IndexMarket", "tickSize": 1.0, "marketPrice": 100.0, "markets": ["M-%d" % i for i in range(nm)] if nm > 1 else ["M"]},
           "A": {"class": "RandAgent", "numAgents": rng.randint(1, 6), "markets": cfg_markets(nm, 'I' in ["I"]), "cashAmount": 1000, "assetVolume": 10},
           "H": {"class": "RandHFT", "numAgents": rng.randint(0, 2) or 1, "markets": ["M"], "cashAmount": 1000, "assetVolume": 10}}
    if "I" in cfg["simulation"]["markets"]: cfg["A"]["markets"] = ["M", "I"]
    else: cfg["A"]["markets"] = ["M"]
    return cfg
def cfg_markets(nm, x): return ["M"]

def check(seed):
    global EV; EV = []
    rng = random.Random(seed)
    cfg = make_cfg(rng); cfg0 = copy.deepcopy(cfg)
    r = SequentialRunner(settings=cfg, prng=random.Random(seed), logger=Rec())
    for c in (RandAgent, RandHFT, Probe): r.class_register(c)
    import io, contextlib
    with contextlib.redirect_stdout(io.StringIO()): r.main()
    assert cfg == cfg0, 'settings modified'
    sim = r.simulator
    # C05: conservation
    tot_cash = sum(a.cash_amount for a in sim.agents)
    assert abs(tot_cash - 1000 * len(sim.agents)) < 1e-6, ('cash', tot_cash)
    for m in sim.markets:
        tot = sum(a.asset_volumes.get(m.market_id, 0) for a in sim.agents)
        exp = 10 * sum(1 for a in sim.agents if m.market_id in a.asset_volumes)
        assert tot == exp, ('shares', m.market_id, tot, exp)
    # C10 (modulo the known duplicate): each distinct exec log object processed twice exactly; others once
    cnt = collections.Counter(id(e[1]) for e in EV if e[0] in ('L_ord', 'L_can', 'L_exe', 'L_exp'))
    kinds = {id(e[1]): e[0] for e in EV if e[0] in ('L_ord', 'L_can', 'L_exe', 'L_exp')}
    for k, c in cnt.items():
        assert c == (2 if kinds[k] == 'L_exe' else 1), ('log count', kinds[k], c)
    # C11: callbacks
    sub = collections.Counter(id(e[2]) for e in EV if e[0] == 'cb_sub'); ords = [e[1] for e in EV if e[0] == 'L_ord']
    assert all(sub[id(l)] == 1 for l in ords) and len(sub) == len(ords), 'submitted cb'
    for e in EV:
        if e[0] == 'cb_sub': assert e[2].agent_id == e[1]
        if e[0] == 'cb_can': assert e[2].agent_id == e[1]
    can = collections.Counter(id(e[2]) for e in EV if e[0] == 'cb_can'); cans = [e[1] for e in EV if e[0] == 'L_can']
    assert all(can[id(l)] == 1 for l in cans) and len(can) == len(cans), 'cancel cb'
    exes = {id(e[1]): e[1] for e in EV if e[0] == 'L_exe'}
    exe_cb = collections.defaultdict(list)
    for e in EV:
        if e[0] == 'cb_exe': exe_cb[id(e[2])].append(e[1])
    for k, l in exes.items():
        assert sorted(exe_cb[k]) == sorted([l.buy_agent_id, l.sell_agent_id]), ('exec cb', exe_cb[k], l.buy_agent_id, l.sell_agent_id)
    # C13: hooks after order == order logs etc.
    assert collections.Counter(id(e[1]) for e in EV if e[0] == 'h_ao') == collections.Counter(id(l) for l in ords)
    assert collections.Counter(id(e[1]) for e in EV if e[0] == 'h_ae') == collections.Counter(exes.keys())
    nsteps = sum(s.iteration_steps for s in sim.sessions)
    for m in sim.markets:
        assert [e[2] for e in EV if e[0] == 'h_bm' and e[1] == m.market_id] == list(range(nsteps)), 'before-market hooks'
        assert [e[2] for e in EV if e[0] == 'h_am' and e[1] == m.market_id] == list(range(nsteps)), 'after-market hooks'
        assert m.get_time() == nsteps
    # C04: accounting per order
    acc = {(l.market_id, l.order_id): l.volume for l in ords}
    fills = collections.Counter()
    for l in exes.values():
        fills[(l.market_id, l.buy_order_id)] += l.volume; fills[(l.market_id, l.sell_order_id)] += l.volume
    term = {}
    for e in EV:
        if e[0] in ('L_can', 'L_exp'):
            term.setdefault((e[1].market_id, e[1].order_id), e[1].volume)
    rest = {}
    for m in sim.markets:
        for o in m.buy_order_book.priority_queue + m.sell_order_book.priority_queue:
            rest[(m.market_id, o.order_id)] = o.volume; assert o.volume > 0
    for k, v in acc.items():
        t = term.get(k, rest.get(k, 0))
        assert v == fills[k] + t, ('accounting', k, v, fills[k], t)
    # fills never after expiry / cancel: check time bound
    byk = {(l.market_id, l.order_id): l for l in ords}
    for l in exes.values():
        for oid in (l.buy_order_id, l.sell_order_id):
            ol = byk[(l.market_id, oid)]
            assert ol.ttl is None or l.time <= ol.time + ol.ttl, ('fill after expiry', l.time, ol.time, ol.ttl)
    # C09: no fill in non-exec session; no order in non-placement session
    bounds = []; t0 = 0
    for s, sc in zip(sim.sessions, cfg0['simulation']['sessions']):
        bounds.append((t0, t0 + s.iteration_steps, sc)); t0 += s.iteration_steps
    for l in exes.values():
        sc = [b for b in bounds if b[0] <= l.time < b[1]][0][2]; assert sc['withOrderExecution'], 'fill in non-exec session'
    for l in ords:
        sc = [b for b in bounds if b[0] <= l.time < b[1]][0][2]; assert sc['withOrderPlacement'], 'order in non-placement session'
    # C17 index
    for m in sim.markets:
        if isinstance(m, IndexMarket):
            for t in range(nsteps + 1):
                comps = m.get_components()
                w = sum(c.get_market_price(t) * c.outstanding_shares for c in comps) / sum(c.outstanding_shares for c in comps)
                assert abs(m.get_index(t) - w) < 1e-9
                wf = sum(c.get_fundamental_price(t) * c.outstanding_shares for c in comps) / sum(c.outstanding_shares for c in comps)
                assert abs(m.get_fundamental_price(t) - wf) < 1e-9
    return len(exes), len(ords)
tot = [0, 0]
for seed in range(400):
    try:
        a, b = check(seed); tot[0] += a; tot[1] += b
    except AssertionError as e:
        print('seed', seed, 'VIOL', e); break
    except Exception as e:
        import traceback; print('seed', seed, 'EXC', type(e).__name__, e); traceback.print_exc(); break
print('runs ok; fills', tot[0], 'orders', tot[1])
