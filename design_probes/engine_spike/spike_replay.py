"""Spike part 7: from a z3 counter-model to a replay on the real code (Session.setup, legacy key clause of C18)."""
import ast, z3, json, subprocess, sys
import spike, spike_cases as sc
from spike import *

# 1. re-run the symbolic execution of Session.setup and pick the failing obligation with its model
s_obj = sym_obj("Session", "s"); settings = V(("dict", ("str",), ("dyn",)), z3.Int("settings"))
ex, outs = run_function("Session.setup", {"self": s_obj, "settings": settings})
st0 = State()
kd, kv = ex.dict_arrays(st0, settings.ty)
def has(k): return z3.Select(z3.Select(st0.heap[kd], settings.term), z3.StringVal(k))
def get(k): return z3.Select(z3.Select(st0.heap[kv], settings.term), z3.StringVal(k))
fn, _ = SRC.funcs["Session.setup"]
keys = sorted({n.value for n in ast.walk(fn) if isinstance(n, ast.Constant) and isinstance(n.value, str) and n.value[:1].isalpha() and " " not in n.value})
model = None
for st, kind, val in outs:
    if kind == "raise": continue
    rate = st.read(s_obj, "high_frequency_submission_rate").term
    old = z3.If(dyn_is_int(get("hifreqSubmitRate")), z3.ToReal(dyn_int(get("hifreqSubmitRate"))), dyn_real(get("hifreqSubmitRate")))
    s = z3.Solver(); s.add(*st.pc); s.add(has("hifreqSubmitRate"), z3.Not(has("highFrequencySubmitRate")), rate != old)
    # tag discipline of JSON values (exactly one tag) so that the model is a real JSON value
    for k in keys:
        v = get(k); s.add(z3.PbEq([(dyn_is_int(v), 1), (dyn_is_real(v), 1), (dyn_is_bool(v), 1)], 1))
    if s.check() == z3.sat: model = s.model(); break
assert model is not None
# 2. model -> concrete settings dict
cfg = {}
for k in keys:
    if z3.is_true(model.eval(has(k), model_completion=True)):
        v = get(k)
        if z3.is_true(model.eval(dyn_is_bool(v), model_completion=True)): cfg[k] = z3.is_true(model.eval(dyn_bool(v), model_completion=True))
        elif z3.is_true(model.eval(dyn_is_int(v), model_completion=True)): cfg[k] = model.eval(dyn_int(v), model_completion=True).as_long()
        else:
            r = model.eval(dyn_real(v), model_completion=True); cfg[k] = float(r.numerator_as_long()) / float(r.denominator_as_long())
print("counter-model as a settings dict:", json.dumps(cfg))
# 3. replay on the real code under the repository's interpreter, evaluating the failed clause concretely
replay = f'''
import json, random, warnings, sys
warnings.simplefilter("ignore")
from pams.session import Session
cfg = json.loads({json.dumps(json.dumps(cfg))})
s = Session(session_id=0, prng=random.Random(0), session_start_time=0, simulator=None, name="s")
s.setup(cfg)
ok = (s.high_frequency_submission_rate == cfg["hifreqSubmitRate"])
print(json.dumps({{"obligation": "C18/Session.setup/post#hifreqSubmitRate", "input": cfg, "observed": {{"high_frequency_submission_rate": s.high_frequency_submission_rate,
      "max_high_frequency_orders": s.max_high_frequency_orders}}, "clause_holds": ok}}))
sys.exit(0 if ok else 1)
'''
p = subprocess.run(["/venv/bin/python", "-c", replay], capture_output=True, text=True, cwd="/")
print("replay exit", p.returncode, p.stdout.strip()[:400], p.stderr.strip()[-200:])
